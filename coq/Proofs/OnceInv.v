(* OnceInv.v — src/once_cell.rs: paths of initialize_or_wait / wait, the at-rest invariant,
   C04 (initialised at most once, one initialiser at a time, only the stored value is seen) and
   C08 (waiters finish on init; a failed initialiser hands over), for every history. *)
From AL Require Import Base Api OnceApi BaseFacts ApiFacts EventFacts OwnUpd BarrierInv.
From Coq Require Import Lia.

Arguments init_loop : simpl never.
Arguments notify : simpl never.
Arguments listen : simpl never.
Arguments poll_listener : simpl never.
Arguments drop_listener : simpl never.

Lemma iloop_S fuel w k gate el x : init_loop (S fuel) w k gate el x =
      let s := o_sh x in
      let st := getw W0 s in
      if st =? ST_INIT then
        let s := drop_listener_opt E0 el s in
        (o_upd x s (o_value x) (o_futs x), IRDone (RVal (cell_val x)) false)
      else if st =? ST_INITING then
        match el with
        | Some id =>
            let '(s, r) := poll_listener E0 id w s in
            let x := o_upd x s (o_value x) (o_futs x) in
            if r then init_loop fuel w k gate None x else (x, IRPending (IWait id))
        | None =>
            let '(s, id) := listen E0 s in
            init_loop fuel w k gate (Some id) (o_upd x s (o_value x) (o_futs x))
        end
      else if st =? ST_UNINIT then
        let '(s, prev) := cas W0 ST_UNINIT ST_INITING s in
        let x := o_upd x s (o_value x) (o_futs x) in
        if negb (prev =? ST_UNINIT) then init_loop fuel w k gate el x
        else
          let x := o_note_start x in
          match k, gate with
          | IKSet v, _ => init_finish k (OOk v) el x
          | _, Some r => init_finish k r el x
          | _, None => (x, IRPending (IRunning el))
          end
      else (o_upd x (set_err s) (o_value x) (o_futs x), IRPending IUnpolled).
Proof. reflexivity. Qed.

Definition fresh0 (s : sh) : Prop := forall id, In id (map eid (se0 s)) -> (id < snid s)%nat.

(* initialize_or_wait entered without a listener *)
Definition enter (w : waker) (k : ikind) (gate : option outcome) (x : oworld) : oworld * ires :=
  let s := o_sh x in
  if sw0 s =? 2 then (o_upd x s (o_value x) (o_futs x), IRDone (RVal (cell_val x)) false)
  else if sw0 s =? 1 then
    (o_upd x (set_nid (S (snid s)) (sete E0 (se0 s ++ [mkEntry (snid s) (Task w)]) s)) (o_value x) (o_futs x),
     IRPending (IWait (snid s)))
  else
    let x1 := o_note_start (o_upd x (setw W0 1 s) (o_value x) (o_futs x)) in
    match k, gate with
    | IKSet v, _ => init_finish k (OOk v) None x1
    | _, Some r => init_finish k r None x1
    | _, None => (x1, IRPending (IRunning None))
    end.

Lemma enter_paths fuel w k gate x : (sw0 (o_sh x) = 0 \/ sw0 (o_sh x) = 1 \/ sw0 (o_sh x) = 2) -> fresh0 (o_sh x) ->
  init_loop (S (S fuel)) w k gate None x = enter w k gate x.
Proof.
  intros W F. unfold enter. rewrite iloop_S. cbv zeta. cbn [getw]. unfold ST_INIT, ST_INITING, ST_UNINIT.
  destruct W as [Z|[Z|Z]]; rewrite Z.
  - change (0 =? 2) with false. change (0 =? 1) with false. change (0 =? 0) with true. cbv iota.
    unfold cas. cbn [getw]. rewrite Z. change (0 =? 0) with true. cbv iota. cbn [negb]. reflexivity.
  - change (1 =? 2) with false. change (1 =? 1) with true. cbv iota.
    unfold listen. cbn [gete]. rewrite iloop_S. cbv zeta. cbn [getw o_sh o_upd sw0 set_nid sete]. rewrite Z.
    unfold ST_INIT, ST_INITING. change (1 =? 2) with false. change (1 =? 1) with true. cbv iota.
    unfold poll_listener, ev_poll, ev_listen. cbn [gete se0 set_nid sete].
    assert (NF : ~ In (snid (o_sh x)) (map eid (se0 (o_sh x)))) by (intro H; apply F in H; lia).
    rewrite (find_app_fresh _ _ _ NF), (set_app_fresh _ _ _ _ NF). cbn [o_upd o_value o_futs o_nf o_drops o_alive o_inits o_started].
    destruct x as [s v fu nf dr al ini st]; destruct s; cbn in *. reflexivity.
  - change (2 =? 2) with true. cbv iota. reflexivity.
Qed.

(* ---------- the at-rest invariant ---------- *)
Definition olis0 (f : ofut) : option nat :=
  match of_st f with OFInit _ (IWait id) _ => Some id | OFInit _ (IRunning el) _ => el | _ => None end.
Definition olis1 (f : ofut) : option nat :=
  match of_st f with OFWait (WAwait id) => Some id | _ => None end.
Definition olook (x : oworld) : look_t ofut := fun k => alookup k (o_futs x).

Definition running (f : ofut) : N := match of_st f with OFInit _ (IRunning _) _ => 1 | _ => 0 end.
Definition nrun (x : oworld) : N := asum running (o_futs x).

Definition oshape1 (f : ofut) : Prop :=
  match fm_st (of_meta f) with
  | FUnpolled => of_st f = OFWait WUnpolled \/ exists k g, of_st f = OFInit k IUnpolled g
  | FPending => (exists id, of_st f = OFWait (WAwait id)) \/ (exists k id g, of_st f = OFInit k (IWait id) g) \/
                (exists k g, of_st f = OFInit k (IRunning None) g)
  | FDone => of_st f = OFWait WFin \/ exists k g, of_st f = OFInit k IFin g
  end.
Definition oshape (x : oworld) : Prop := forall fid f, alookup fid (o_futs x) = Some f -> oshape1 f.
Definition okeys (x : oworld) : Prop :=
  NoDup (map fst (o_futs x)) /\ (forall k, In k (map fst (o_futs x)) -> (k < o_nf x)%nat).
Definition all_notified (l : event) : Prop := forall e, In e l -> is_notified e = true.

Record OInvW (wk : list waker) (x : oworld) : Prop := mkOInv {
  oi_w : sw0 (o_sh x) = 0 \/ sw0 (o_sh x) = 1 \/ sw0 (o_sh x) = 2;
  oi_v2 : sw0 (o_sh x) = 2 -> exists v, o_value x = Some v;
  oi_v0 : sw0 (o_sh x) <> 2 -> o_value x = None;
  oi_inits : o_inits x = (if (sw0 (o_sh x) =? 2)%N then 1%nat else 0%nat);
  oi_run : nrun x = (if sw0 (o_sh x) =? 1 then 1 else 0);
  oi_e0 : InvB ofut olis0 of_meta wk (se0 (o_sh x)) (snid (o_sh x)) (olook x);
  oi_e1 : InvB ofut olis1 of_meta wk (se1 (o_sh x)) (snid (o_sh x)) (olook x);
  oi_shape : oshape x;
  oi_keys : okeys x;
  oi_err : serr (o_sh x) = false;
  oi_a0 : sw0 (o_sh x) = 0 -> se0 (o_sh x) = [] \/ has_notified (se0 (o_sh x)) = true;
  oi_all : sw0 (o_sh x) = 2 -> all_notified (se0 (o_sh x)) /\ all_notified (se1 (o_sh x));
  oi_e1n : sw0 (o_sh x) <> 2 -> forall e, In e (se1 (o_sh x)) -> is_notified e = false
}.
Definition OInv (x : oworld) : Prop := OInvW [] x.

Definition quiescent (x : oworld) : Prop :=
  forall fid f, alookup fid (o_futs x) = Some f -> ~ (fm_st (of_meta f) = FPending /\ fm_woken (of_meta f) = true).

(* ---------- consequences on a state satisfying the invariant ---------- *)
Lemma init_no_pending x : OInv x -> quiescent x -> sw0 (o_sh x) = 2 ->
  forall fid f, alookup fid (o_futs x) = Some f -> fm_st (of_meta f) <> FPending.
Proof.
  intros [_ _ _ _ R I0 I1 Sh _ _ _ AN _] Q Z fid f L P.
  destruct (AN Z) as (A0 & A1). pose proof (Sh fid f L) as S. unfold oshape1 in S. rewrite P in S.
  destruct S as [(id & St)|[(k & id & g & St)|(k & g & St)]].
  - assert (Ls : olis1 f = Some id) by (unfold olis1; rewrite St; reflexivity).
    pose proof (ib_listed _ _ _ _ _ _ _ I1 fid f id L Ls) as Hin. apply in_map_iff in Hin. destruct Hin as (e & _ & He).
    destruct (InvB_notified_woken ofut olis1 of_meta _ _ _ _ I1 He (A1 e He)) as (g1 & f1 & L1 & P1 & W1).
    apply (Q g1 f1 L1). split; assumption.
  - assert (Ls : olis0 f = Some id) by (unfold olis0; rewrite St; reflexivity).
    pose proof (ib_listed _ _ _ _ _ _ _ I0 fid f id L Ls) as Hin. apply in_map_iff in Hin. destruct Hin as (e & _ & He).
    destruct (InvB_notified_woken ofut olis0 of_meta _ _ _ _ I0 He (A0 e He)) as (g1 & f1 & L1 & P1 & W1).
    apply (Q g1 f1 L1). split; assumption.
  - (* a running initialiser cannot exist once initialised *)
    rewrite Z in R. change (2 =? 1) with false in R. cbv iota in R.
    pose proof (asum_In running fid f (o_futs x) (alookup_In _ _ _ L)) as LE. unfold nrun in R. rewrite R in LE.
    unfold running in LE. rewrite St in LE. clear - LE. lia.
Qed.

(* empty and at rest: nobody is left waiting for a turn as initialiser *)
Lemma uninit_no_waiting x : OInv x -> quiescent x -> sw0 (o_sh x) = 0 ->
  forall fid f k id g, alookup fid (o_futs x) = Some f -> of_st f <> OFInit k (IWait id) g.
Proof.
  intros [_ _ _ _ _ I0 _ _ _ _ A0 _ _] Q Z fid f k id g L St.
  assert (Ls : olis0 f = Some id) by (unfold olis0; rewrite St; reflexivity).
  pose proof (ib_listed _ _ _ _ _ _ _ I0 fid f id L Ls) as Hin.
  destruct (A0 Z) as [E|H]; [rewrite E in Hin; contradiction|].
  unfold has_notified in H. apply existsb_exists in H. destruct H as (e & He & Ne).
  destruct (InvB_notified_woken ofut olis0 of_meta _ _ _ _ I0 He Ne) as (g1 & f1 & L1 & P1 & W1).
  apply (Q g1 f1 L1). split; assumption.
Qed.

(* ---------- notified / un-notified entries under the event operations ---------- *)
Definition none_notified (l : event) : Prop := forall e, In e l -> is_notified e = false.

Lemma an_remove id l : all_notified l -> all_notified (ev_remove id l).
Proof. intros A e He. apply A. apply (In_remove_entry id). exact He. Qed.
Lemma an_upd add ws l l' : Forall2 (upd add ws) l l' -> all_notified l -> all_notified l'.
Proof.
  intros R A e' He'. destruct (upd_In _ _ _ _ _ R He') as (e & He & [->|(_ & -> & _)]); [apply A; exact He | reflexivity].
Qed.
Lemma an_notify n add l : all_notified l -> all_notified (fst (ev_notify n add l)).
Proof. intro A. pose proof (notify_rel n add l) as R. destruct (ev_notify n add l) as [l' ws]. apply (an_upd add ws l l' R A). Qed.
Lemma an_drop id l : all_notified l -> all_notified (fst (ev_drop id l)).
Proof.
  intro A. unfold ev_drop. destruct (ev_find id l) as [[|w|a]|]; cbn [fst]; try (apply an_remove; exact A); [|exact A].
  apply an_notify. apply an_remove. exact A.
Qed.
Lemma an_drop_opt o l : all_notified l -> all_notified (fst (ev_drop_opt o l)).
Proof. destruct o; cbn; [apply an_drop | auto]. Qed.
Lemma mark_all_notified add k l : N.of_nat (length l) <= k + N.of_nat (count_notified l) -> all_notified (fst (mark add k l)).
Proof.
  revert k. induction l as [|e r IH]; intros k B; cbn [mark]; [intros e []|]. cbn [length count_notified] in B.
  destruct (is_notified e) eqn:Ne; cbv iota in B.
  - specialize (IH k). destruct (mark add k r) as [r' ws]. cbn [fst] in *. intros e' [<-|H]; [exact Ne | apply IH; [lia | exact H]].
  - destruct (k =? 0) eqn:Z; [apply N.eqb_eq in Z; pose proof (count_le_length r); lia|]. apply N.eqb_neq in Z.
    specialize (IH (k - 1)). destruct (mark add (k - 1) r) as [r' ws]. cbn [fst] in *. intros e' [<-|H]; [reflexivity | apply IH; [lia | exact H]].
Qed.
Lemma notify_all_add n l : N.of_nat (length l) <= n -> all_notified (fst (ev_notify n true l)).
Proof. intro B. unfold ev_notify. apply mark_all_notified. lia. Qed.

Lemma nn_remove id l : none_notified l -> none_notified (ev_remove id l).
Proof. intros A e He. apply A. apply (In_remove_entry id). exact He. Qed.
Lemma nn_app l e : none_notified l -> is_notified e = false -> none_notified (l ++ [e]).
Proof. intros A Ne x Hx. apply in_app_or in Hx. destruct Hx as [Hx|[<-|[]]]; [apply A; exact Hx | exact Ne]. Qed.
Lemma nn_set id w l : NoDup (map eid l) -> none_notified l -> none_notified (ev_set id (Task w) l).
Proof. intros ND A e He. destruct (In_set id (Task w) e l ND He) as [(-> & _)|(Hi & _)]; [reflexivity | apply A; exact Hi]. Qed.
Lemma nn_find id l a : none_notified l -> ev_find id l <> Some (Notified a).
Proof. intros A H. apply ev_find_In in H. specialize (A _ H). discriminate. Qed.
Lemma nn_drop id l : none_notified l -> fst (ev_drop id l) = ev_remove id l /\ snd (ev_drop id l) = [].
Proof.
  intro A. unfold ev_drop. destruct (ev_find id l) as [[|w|a]|] eqn:Fd; cbn; try (split; reflexivity).
  - exfalso. apply (nn_find id l a A Fd).
  - split; [|reflexivity]. apply ev_find_None in Fd. clear A. induction l as [|e r IH]; [reflexivity|]. cbn in *.
    destruct (Nat.eqb (eid e) id) eqn:Q; [apply Nat.eqb_eq in Q; exfalso; apply Fd; left; exact Q|]. f_equal. apply IH. intro H. apply Fd. right. exact H.
Qed.

(* ---------- store projections ---------- *)
Lemma notify0_proj n a s :
  se0 (notify E0 n a s) = fst (ev_notify n a (se0 s)) /\ swk (notify E0 n a s) = swk s ++ snd (ev_notify n a (se0 s)) /\
  se1 (notify E0 n a s) = se1 s /\ snid (notify E0 n a s) = snid s /\ serr (notify E0 n a s) = serr s /\ sw0 (notify E0 n a s) = sw0 s.
Proof. unfold notify. cbn [gete]. destruct (ev_notify n a (se0 s)); repeat split. Qed.
Lemma notify1_proj n a s :
  se1 (notify E1 n a s) = fst (ev_notify n a (se1 s)) /\ swk (notify E1 n a s) = swk s ++ snd (ev_notify n a (se1 s)) /\
  se0 (notify E1 n a s) = se0 s /\ snid (notify E1 n a s) = snid s /\ serr (notify E1 n a s) = serr s /\ sw0 (notify E1 n a s) = sw0 s.
Proof. unfold notify. cbn [gete]. destruct (ev_notify n a (se1 s)); repeat split. Qed.
Lemma drop0_proj o s :
  se0 (drop_listener_opt E0 o s) = fst (ev_drop_opt o (se0 s)) /\ swk (drop_listener_opt E0 o s) = swk s ++ snd (ev_drop_opt o (se0 s)) /\
  se1 (drop_listener_opt E0 o s) = se1 s /\ snid (drop_listener_opt E0 o s) = snid s /\ serr (drop_listener_opt E0 o s) = serr s /\ sw0 (drop_listener_opt E0 o s) = sw0 s.
Proof.
  destruct o as [id|]; unfold drop_listener_opt, ev_drop_opt; [|cbn; rewrite app_nil_r; repeat split].
  unfold drop_listener. cbn [gete]. destruct (ev_drop id (se0 s)); repeat split.
Qed.
Lemma drop1_proj o s :
  se1 (drop_listener_opt E1 o s) = fst (ev_drop_opt o (se1 s)) /\ swk (drop_listener_opt E1 o s) = swk s ++ snd (ev_drop_opt o (se1 s)) /\
  se0 (drop_listener_opt E1 o s) = se0 s /\ snid (drop_listener_opt E1 o s) = snid s /\ serr (drop_listener_opt E1 o s) = serr s /\ sw0 (drop_listener_opt E1 o s) = sw0 s.
Proof.
  destruct o as [id|]; unfold drop_listener_opt, ev_drop_opt; [|cbn; rewrite app_nil_r; repeat split].
  unfold drop_listener. cbn [gete]. destruct (ev_drop id (se1 s)); repeat split.
Qed.

Lemma nrun_aupdate x fid f f' : alookup fid (o_futs x) = Some f -> asum running (aupdate fid f' (o_futs x)) + running f = nrun x + running f'.
Proof. intro L. apply asum_aupdate. exact L. Qed.

Lemma OInvW_drops wk x : OInvW wk x -> OInvW wk (o_add_drop x).
Proof. intros [A B C D E F G H I J K L M]. constructor; assumption. Qed.

Lemma length_bound wk l nid (look : look_t ofut) lis : InvB ofut lis of_meta wk l nid look -> N.of_nat nid < usize_max -> N.of_nat (length l) <= usize_max.
Proof.
  intros I B. pose proof (NoDup_bound _ _ (ib_nodup _ _ _ _ _ _ _ I) (ib_fresh _ _ _ _ _ _ _ I)) as LB. rewrite map_length in LB.
  change usize_max with 18446744073709551615 in *. clear - LB B. lia.
Qed.

Ltac simpl_o := cbn [o_sh o_value o_futs o_nf o_drops o_alive o_inits o_started o_upd o_note_init o_note_start o_add_drop
                     sw0 sw1 sw2 se0 se1 se2 snid sorc swk serr set_nid sete setw set_wk set_err store].

(* the initialiser future [fid] finishes its closure with outcome [r]; [f'] is its completed form *)
Lemma finish_ok y fid f' k r :
  o_value y = None -> o_inits y = 0%nat -> swk (o_sh y) = [] -> serr (o_sh y) = false ->
  InvB ofut olis0 of_meta [] (se0 (o_sh y)) (snid (o_sh y)) (lk ofut (aupdate fid f' (o_futs y))) ->
  InvB ofut olis1 of_meta [] (se1 (o_sh y)) (snid (o_sh y)) (lk ofut (aupdate fid f' (o_futs y))) ->
  none_notified (se1 (o_sh y)) -> N.of_nat (snid (o_sh y)) < usize_max ->
  (forall g f, alookup g (aupdate fid f' (o_futs y)) = Some f -> oshape1 f) ->
  NoDup (map fst (o_futs y)) -> (forall k0, In k0 (map fst (o_futs y)) -> (k0 < o_nf y)%nat) ->
  asum running (aupdate fid f' (o_futs y)) = 0 ->
  let y' := fst (init_finish k r None y) in
  OInvW (swk (o_sh y')) (o_upd y' (o_sh y') (o_value y') (aupdate fid f' (o_futs y))) /\
  snid (o_sh y') = snid (o_sh y) /\
  match r with OOk v => sw0 (o_sh y') = 2 /\ o_value y' = Some v | _ => sw0 (o_sh y') = 0 /\ o_value y' = None end.
Proof.
  intros V Ini WK Er I0 I1 NN RM Sh K1 K2 NR. unfold init_finish. destruct r as [v|e|]; cbv zeta; cbn [fst].
  - (* Ok: initialised; everybody is notified *)
    set (s1 := store W0 ST_INIT (o_sh y)).
    destruct (notify0_proj usize_max true s1) as (A1 & A2 & A3 & A4 & A5 & A6).
    set (s2 := notify E0 usize_max true s1) in *.
    destruct (notify1_proj usize_max true s2) as (B1 & B2 & B3 & B4 & B5 & B6).
    set (s3 := notify E1 usize_max true s2) in *. cbn [drop_listener_opt].
    change (se0 s1) with (se0 (o_sh y)) in *. change (se1 s1) with (se1 (o_sh y)) in *. change (swk s1) with (swk (o_sh y)) in *.
    change (snid s1) with (snid (o_sh y)) in *. change (serr s1) with (serr (o_sh y)) in *. change (sw0 s1) with 2 in *.
    simpl_o. rewrite B4, A4. split; [|split; [reflexivity | split; [rewrite B6, A6; reflexivity | reflexivity]]].
    assert (Z : sw0 s3 = 2) by (rewrite B6, A6; reflexivity).
    constructor; simpl_o; rewrite ?Z, ?B1, ?B2, ?B3, ?B4, ?B5, ?A1, ?A2, ?A3, ?A4, ?A5, ?WK; cbn [app].
    + right; right; reflexivity.
    + intros _. exists v. reflexivity.
    + intro H. contradiction H. reflexivity.
    + rewrite Ini. reflexivity.
    + unfold nrun. simpl_o. rewrite NR. reflexivity.
    + apply (InvB_mono ofut olis0 of_meta (snd (ev_notify usize_max true (se0 (o_sh y))))); [apply incl_appl, incl_refl|].
      apply (InvB_notify ofut olis0 of_meta usize_max true [] _ _ _ I0).
    + apply (InvB_mono ofut olis1 of_meta (snd (ev_notify usize_max true (se1 (o_sh y))))); [apply incl_appr, incl_refl|].
      apply (InvB_notify ofut olis1 of_meta usize_max true [] _ _ _ I1).
    + exact Sh.
    + unfold okeys. simpl_o. rewrite keys_aupdate. split; assumption.
    + exact Er.
    + intro H. discriminate H.
    + intros _. split; apply notify_all_add; [apply (length_bound _ _ _ _ _ I0 RM) | apply (length_bound _ _ _ _ _ I1 RM)].
    + intro H. contradiction H. reflexivity.
  - (* Err: the guard resets the cell and passes the turn on *)
    cbn [drop_listener_opt]. unfold guard_drop.
    set (s1 := store W0 ST_UNINIT (o_sh y)).
    destruct (notify0_proj 1 false s1) as (A1 & A2 & A3 & A4 & A5 & A6).
    change (se0 s1) with (se0 (o_sh y)) in *. change (se1 s1) with (se1 (o_sh y)) in *. change (swk s1) with (swk (o_sh y)) in *.
    change (snid s1) with (snid (o_sh y)) in *. change (serr s1) with (serr (o_sh y)) in *. change (sw0 s1) with 0 in *.
    simpl_o. rewrite A4. split; [|split; [reflexivity | split; [exact A6 | exact V]]].
    constructor; simpl_o; rewrite ?A6, ?A1, ?A2, ?A3, ?A4, ?A5, ?WK; cbn [app].
    + left; reflexivity.
    + intro H. discriminate H.
    + intros _. exact V.
    + rewrite Ini. reflexivity.
    + unfold nrun. simpl_o. rewrite NR. reflexivity.
    + apply (InvB_notify ofut olis0 of_meta 1 false [] _ _ _ I0).
    + apply (InvB_mono ofut olis1 of_meta []); [intros a []|]. exact I1.
    + exact Sh.
    + unfold okeys. simpl_o. rewrite keys_aupdate. split; assumption.
    + exact Er.
    + intros _. destruct (se0 (o_sh y)) as [|e0 r0] eqn:Q; [left; reflexivity|]. right. apply notify_has; [clear; lia | discriminate].
    + intro H. discriminate H.
    + intros _. exact NN.
  - (* panic: same as Err (the guard is dropped during unwinding) *)
    cbn [drop_listener_opt]. unfold guard_drop.
    set (s1 := store W0 ST_UNINIT (o_sh y)).
    destruct (notify0_proj 1 false s1) as (A1 & A2 & A3 & A4 & A5 & A6).
    change (se0 s1) with (se0 (o_sh y)) in *. change (se1 s1) with (se1 (o_sh y)) in *. change (swk s1) with (swk (o_sh y)) in *.
    change (snid s1) with (snid (o_sh y)) in *. change (serr s1) with (serr (o_sh y)) in *. change (sw0 s1) with 0 in *.
    simpl_o. rewrite A4. split; [|split; [reflexivity | split; [exact A6 | exact V]]].
    constructor; simpl_o; rewrite ?A6, ?A1, ?A2, ?A3, ?A4, ?A5, ?WK; cbn [app].
    + left; reflexivity.
    + intro H. discriminate H.
    + intros _. exact V.
    + rewrite Ini. reflexivity.
    + unfold nrun. simpl_o. rewrite NR. reflexivity.
    + apply (InvB_notify ofut olis0 of_meta 1 false [] _ _ _ I0).
    + apply (InvB_mono ofut olis1 of_meta []); [intros a []|]. exact I1.
    + exact Sh.
    + unfold okeys. simpl_o. rewrite keys_aupdate. split; assumption.
    + exact Er.
    + intros _. destruct (se0 (o_sh y)) as [|e0 r0] eqn:Q; [left; reflexivity|]. right. apply notify_has; [clear; lia | discriminate].
    + intro H. discriminate H.
    + intros _. exact NN.
Qed.

(* ---------- preservation, operation by operation ---------- *)
Definition oroom (x : oworld) : Prop := N.of_nat (snid (o_sh x)) < usize_max.
Definition post (x x1 : oworld) : Prop := OInvW (swk (o_sh x1)) x1 /\ (snid (o_sh x1) <= S (snid (o_sh x)))%nat.

Lemma post_same x : OInv x -> swk (o_sh x) = [] -> post x x.
Proof. intros H WK. split; [rewrite WK; exact H | lia]. Qed.

Lemma oshape_upd x fid f0 f' : oshape x -> alookup fid (o_futs x) = Some f0 -> oshape1 f' ->
  forall g f, alookup g (aupdate fid f' (o_futs x)) = Some f -> oshape1 f.
Proof.
  intros Sh Q S' g f L. destruct (Nat.eq_dec g fid) as [->|N].
  - rewrite (alookup_aupdate_same _ _ _ _ Q) in L. inversion L; subst. exact S'.
  - rewrite alookup_aupdate_other in L by exact N. apply (Sh g f L).
Qed.

Lemma upd_world wk' x s' fid f f' :
  OInv x -> alookup fid (o_futs x) = Some f ->
  sw0 s' = sw0 (o_sh x) -> running f' = running f -> oshape1 f' ->
  InvB ofut olis0 of_meta wk' (se0 s') (snid s') (lk ofut (aupdate fid f' (o_futs x))) ->
  InvB ofut olis1 of_meta wk' (se1 s') (snid s') (lk ofut (aupdate fid f' (o_futs x))) ->
  serr s' = false ->
  (sw0 (o_sh x) = 0 -> se0 s' = [] \/ has_notified (se0 s') = true) ->
  (sw0 (o_sh x) = 2 -> all_notified (se0 s') /\ all_notified (se1 s')) ->
  (sw0 (o_sh x) <> 2 -> none_notified (se1 s')) ->
  OInvW wk' (o_upd x s' (o_value x) (aupdate fid f' (o_futs x))).
Proof.
  intros [W V2 V0 Ini R I0 I1 Sh [K1 K2] Er A0 AN NN] L Z RF S' J0 J1 Er' A0' AN' NN'.
  constructor; simpl_o; rewrite ?Z; try assumption.
  - unfold nrun. simpl_o. pose proof (nrun_aupdate x fid f f' L) as U. rewrite RF in U. unfold nrun in *. clear - U R. lia.
  - exact (oshape_upd x fid f f' Sh L S').
  - unfold okeys. simpl_o. rewrite keys_aupdate. split; assumption.
Qed.

Lemma wait_fin_shape w : oshape1 (mkOfut (OFWait WFin) (mkMeta FDone (Some w) false)).
Proof. left. reflexivity. Qed.
Lemma init_fin_shape k g w : oshape1 (mkOfut (OFInit k IFin g) (mkMeta FDone (Some w) false)).
Proof. right. exists k, g. reflexivity. Qed.

Lemma wait_idle x fid w f id stt :
  OInv x -> swk (o_sh x) = [] -> alookup fid (o_futs x) = Some f -> of_st f = OFWait (WAwait id) ->
  ev_find id (se1 (o_sh x)) = Some stt -> (forall a, stt <> Notified a) ->
  post x (o_upd x (sete E1 (ev_set id (Task w) (se1 (o_sh x))) (o_sh x)) (o_value x)
            (aupdate fid (mkOfut (OFWait (WAwait id)) (mkMeta FPending (Some w) false)) (o_futs x))).
Proof.
  intros HX WK L St Fd NNo. pose proof HX as [W V2 V0 Ini R I0 I1 Sh [K1 K2] Er A0 AN NN].
  assert (L0 : olis0 f = None) by (unfold olis0; rewrite St; reflexivity).
  assert (RF : running f = 0) by (unfold running; rewrite St; reflexivity).
  assert (L1 : olis1 f = Some id) by (unfold olis1; rewrite St; reflexivity).
  unfold post. simpl_o. split; [|lia]. rewrite WK.
  set (s' := mkSh _ _ _ _ _ _ _ _ _ _).
  apply (upd_world [] x s' fid f _ HX L); unfold s'; simpl_o.
  - reflexivity.
  - rewrite RF. reflexivity.
  - left. exists id. reflexivity.
  - apply (upd_frame ofut olis0 of_meta [] _ _ _ fid f _ I0 L L0). reflexivity.
  - apply (upd_set_task ofut olis1 of_meta [] _ _ _ fid f _ id w I1 L L1); reflexivity.
  - exact Er.
  - exact A0.
  - intro Z. destruct (AN Z) as (_ & A1). pose proof (ev_find_In _ _ _ Fd) as Hi. specialize (A1 _ Hi).
    unfold is_notified in A1. cbn in A1. destruct stt as [|w0|a]; try discriminate. exfalso. apply (NNo a). reflexivity.
  - intro Z. apply nn_set; [exact (ib_nodup _ _ _ _ _ _ _ I1) | exact (NN Z)].
Qed.

Lemma step_poll_wait x fid kk f st :
  OInv x -> oroom x -> swk (o_sh x) = [] -> alookup fid (o_futs x) = Some f -> of_st f = OFWait st ->
  fm_st (of_meta f) <> FDone ->
  post x (fst (let s := o_sh x in let w := wtag fid kk in
          let pend st x := (o_upd x (o_sh x) (o_value x) (aupdate fid (mkOfut st (mkMeta FPending (Some w) false)) (o_futs x)), RPending) in
          let fin st (r : res) x := (o_upd x (o_sh x) (o_value x) (aupdate fid (mkOfut st (mkMeta FDone (Some w) false)) (o_futs x)), r) in
          match st with
          | WUnpolled =>
              if getw W0 s =? ST_INIT then fin (OFWait WFin) (RVal (cell_val x)) x
              else
                let '(s, id) := listen E1 s in
                if getw W0 s =? ST_INIT then
                  fin (OFWait WFin) (RVal (cell_val x)) (o_upd x (drop_listener E1 id s) (o_value x) (o_futs x))
                else
                  let '(s, r) := poll_listener E1 id w s in
                  let x := o_upd x s (o_value x) (o_futs x) in
                  if r then fin (OFWait WFin) (RVal (cell_val x)) x
                  else pend (OFWait (WAwait id)) x
          | WAwait id =>
              let '(s, r) := poll_listener E1 id w s in
              let s := if r && negb (getw W0 s =? ST_INIT) then set_err s else s in
              let x := o_upd x s (o_value x) (o_futs x) in
              if r then fin (OFWait WFin) (RVal (cell_val x)) x else pend (OFWait (WAwait id)) x
          | WFin => (x, RInvalid)
          end)).
Proof.
  intros HX RM WK L St ND. pose proof HX as [W V2 V0 Ini R I0 I1 Sh [K1 K2] Er A0 AN NN].
  pose proof (Sh fid f L) as SP. unfold oshape1 in SP. cbv zeta. cbn [getw]. unfold ST_INIT.
  assert (L0 : olis0 f = None) by (unfold olis0; rewrite St; reflexivity).
  assert (RF : running f = 0) by (unfold running; rewrite St; reflexivity).
  destruct st as [|id|].
  - (* first poll *)
    assert (L1 : olis1 f = None) by (unfold olis1; rewrite St; reflexivity).
    destruct (sw0 (o_sh x) =? 2) eqn:Q.
    + cbn [fst]. unfold post. simpl_o. split; [|lia]. rewrite WK. apply (upd_world [] x (o_sh x) fid f _ HX L).
      * reflexivity.
      * rewrite RF. reflexivity.
      * apply wait_fin_shape.
      * apply (upd_frame ofut olis0 of_meta [] _ _ _ fid f _ I0 L L0). reflexivity.
      * apply (upd_frame ofut olis1 of_meta [] _ _ _ fid f _ I1 L L1). reflexivity.
      * exact Er.
      * exact A0.
      * exact AN.
      * intro Z. exact (NN Z).
    + apply N.eqb_neq in Q. unfold listen. cbn [gete]. cbv beta iota zeta. cbn [getw sw0 set_nid sete].
      destruct (sw0 (o_sh x) =? 2) eqn:Q2; [apply N.eqb_eq in Q2; contradiction|].
      unfold poll_listener, ev_poll, ev_listen. cbn [gete se1 set_nid sete].
      assert (NF : ~ In (snid (o_sh x)) (map eid (se1 (o_sh x)))) by (intro H; apply (ib_fresh _ _ _ _ _ _ _ I1) in H; lia).
      rewrite (find_app_fresh _ _ _ NF), (set_app_fresh _ _ _ _ NF). cbv beta iota zeta. cbn [fst]. simpl_o.
      unfold post. simpl_o. split; [|lia]. rewrite WK.
      set (s' := mkSh _ _ _ _ _ _ _ _ _ _).
      apply (upd_world [] x s' fid f _ HX L); unfold s'; simpl_o.
      * reflexivity.
      * rewrite RF. reflexivity.
      * left. exists (snid (o_sh x)). reflexivity.
      * apply (InvB_nid ofut olis0 of_meta [] _ (snid (o_sh x))); [lia|]. apply (upd_frame ofut olis0 of_meta [] _ _ _ fid f _ I0 L L0). reflexivity.
      * apply (upd_append ofut olis1 of_meta [] _ _ _ fid f _ (wtag fid kk) I1 L L1); reflexivity.
      * exact Er.
      * exact A0.
      * intro Z. contradiction.
      * intros _. apply nn_app; [exact (NN Q) | reflexivity].
  - (* waiting *)
    assert (L1 : olis1 f = Some id) by (unfold olis1; rewrite St; reflexivity).
    pose proof (ib_listed _ _ _ _ _ _ _ I1 fid f id L L1) as Hin.
    unfold poll_listener, ev_poll. cbn [gete].
    destruct (ev_find id (se1 (o_sh x))) as [[|w0|a]|] eqn:Fd; [| | |exfalso; apply ev_find_None in Fd; contradiction].
    1,2: cbv beta iota zeta; cbn [andb fst]; simpl_o; eapply (wait_idle x fid (wtag fid kk) f id _ HX WK L St Fd); discriminate.
    (* notified: only happens once the cell is initialised *)
    assert (Z : sw0 (o_sh x) = 2).
    { destruct (N.eq_dec (sw0 (o_sh x)) 2) as [Z|Z]; [exact Z|]. exfalso. apply (nn_find id _ a (NN Z) Fd). }
    cbv beta iota zeta. cbn [getw sw0 sete]. rewrite Z. change (2 =? 2) with true. cbn [andb negb fst]. simpl_o. unfold post. simpl_o. split; [|lia]. rewrite WK.
    set (s' := mkSh _ _ _ _ _ _ _ _ _ _).
    apply (upd_world [] x s' fid f _ HX L); unfold s'; simpl_o.
    + exact (eq_sym Z).
    + rewrite RF. reflexivity.
    + apply wait_fin_shape.
    + apply (upd_frame ofut olis0 of_meta [] _ _ _ fid f _ I0 L L0). reflexivity.
    + apply (upd_remove ofut olis1 of_meta [] _ _ _ fid f _ id I1 L L1). reflexivity.
    + exact Er.
    + intro Z0. rewrite Z in Z0. discriminate.
    + intros _. destruct (AN Z) as (B0 & B1). split; [exact B0 | apply an_remove; exact B1].
    + intro NZ. contradiction.
  - (* completed: excluded *)
    exfalso. destruct (fm_st (of_meta f)) eqn:P.
    + destruct SP as [SP|(k & g & SP)]; rewrite St in SP; discriminate.
    + destruct SP as [(id & SP)|[(k & id & g & SP)|(k & g & SP)]]; rewrite St in SP; discriminate.
    + apply ND. reflexivity.
Qed.

Lemma OInvW_eq wk wk' y : wk = wk' -> OInvW wk' y -> OInvW wk y.
Proof. intros ->. auto. Qed.

Lemma init_finish_futs k r el y : o_futs (fst (init_finish k r el y)) = o_futs y.
Proof. destruct r; reflexivity. Qed.

(* what OPoll does with the result of init_poll *)
Definition finish_poll (fid : nat) (w : waker) (k : ikind) (gate : option outcome) (p : oworld * ires) : oworld * res :=
  let '(x, ir) := p in
  match ir with
  | IRPending ist' =>
      (o_upd x (o_sh x) (o_value x) (aupdate fid (mkOfut (OFInit k ist' gate) (mkMeta FPending (Some w) false)) (o_futs x)), RPending)
  | IRDone r ran =>
      match k with
      | IKSet v =>
          if ran then (o_upd x (o_sh x) (o_value x) (aupdate fid (mkOfut (OFInit k IFin gate) (mkMeta FDone (Some w) false)) (o_futs x)), r)
          else (o_upd (o_add_drop x) (o_sh (o_add_drop x)) (o_value (o_add_drop x))
                      (aupdate fid (mkOfut (OFInit k IFin gate) (mkMeta FDone (Some w) false)) (o_futs (o_add_drop x))), RErr v)
      | _ => (o_upd x (o_sh x) (o_value x) (aupdate fid (mkOfut (OFInit k IFin gate) (mkMeta FDone (Some w) false)) (o_futs x)), r)
      end
  end.

Lemma finish_done_inv wk fid w k gate y r ran :
  OInvW wk (o_upd y (o_sh y) (o_value y) (aupdate fid (mkOfut (OFInit k IFin gate) (mkMeta FDone (Some w) false)) (o_futs y))) ->
  OInvW wk (fst (finish_poll fid w k gate (y, IRDone r ran))).
Proof.
  intro H. unfold finish_poll. destruct k as [| |v]; cbn [fst]; try exact H. destruct ran; cbn [fst]; [exact H|].
  apply OInvW_drops in H. exact H.
Qed.
Lemma finish_done_sh fid w k gate y r ran : o_sh (fst (finish_poll fid w k gate (y, IRDone r ran))) = o_sh y.
Proof. unfold finish_poll. destruct k as [| |v]; try reflexivity. destruct ran; reflexivity. Qed.

Lemma enter_ok x fid f k ist0 gate w l0 :
  OInv x -> oroom x -> swk (o_sh x) = [] -> alookup fid (o_futs x) = Some f -> of_st f = OFInit k ist0 gate ->
  running f = 0 ->
  (forall f', olis0 f' = None -> InvB ofut olis0 of_meta [] l0 (snid (o_sh x)) (lk ofut (aupdate fid f' (o_futs x)))) ->
  (forall f' w, olis0 f' = Some (snid (o_sh x)) -> fm_st (of_meta f') = FPending -> fm_w (of_meta f') = Some w ->
     InvB ofut olis0 of_meta [] (l0 ++ [mkEntry (snid (o_sh x)) (Task w)]) (S (snid (o_sh x))) (lk ofut (aupdate fid f' (o_futs x)))) ->
  (sw0 (o_sh x) = 2 -> all_notified l0) ->
  (forall id, In id (map eid l0) -> (id < snid (o_sh x))%nat) ->
  let xr := o_upd x (sete E0 l0 (o_sh x)) (o_value x) (o_futs x) in
  post x (fst (finish_poll fid w k gate (enter w k gate xr))).
Proof.
  intros HX RM WK L St RF Hrm Happ Han Hfr xr. pose proof HX as [W V2 V0 Ini R I0 I1 Sh [K1 K2] Er A0 AN NN].
  assert (L1 : olis1 f = None) by (unfold olis1; rewrite St; reflexivity).
  unfold enter. change (sw0 (o_sh xr)) with (sw0 (o_sh x)).
  destruct W as [Z|[Z|Z]]; rewrite Z.
  - (* empty: this future becomes the initialiser *)
    change (0 =? 2) with false. change (0 =? 1) with false. cbv iota zeta.
    assert (NZ : sw0 (o_sh x) <> 2) by (rewrite Z; discriminate).
    assert (NR0 : nrun x = 0) by (rewrite R, Z; reflexivity).
    assert (FIN : forall r, post x (fst (finish_poll fid w k gate
                     (init_finish k r None (o_note_start (o_upd xr (setw W0 1 (o_sh xr)) (o_value xr) (o_futs xr))))))).
    { intro r. set (y := o_note_start (o_upd xr (setw W0 1 (o_sh xr)) (o_value xr) (o_futs xr))).
      set (f' := mkOfut (OFInit k IFin gate) (mkMeta FDone (Some w) false)).
      destruct (finish_ok y fid f' k r) as (P1 & P2 & _).
      - exact (V0 NZ).
      - unfold y, xr. simpl_o. rewrite Ini, Z. reflexivity.
      - unfold y, xr. simpl_o. exact WK.
      - unfold y, xr. simpl_o. exact Er.
      - unfold y, xr. simpl_o. apply Hrm. reflexivity.
      - unfold y, xr. simpl_o. apply (upd_frame ofut olis1 of_meta [] _ _ _ fid f _ I1 L L1). reflexivity.
      - unfold y, xr. simpl_o. exact (NN NZ).
      - unfold y, xr. simpl_o. exact RM.
      - unfold y, xr. simpl_o. exact (oshape_upd x fid f f' Sh L (init_fin_shape k gate w)).
      - exact K1.
      - exact K2.
      - unfold y, xr. simpl_o. pose proof (nrun_aupdate x fid f f' L) as U. rewrite RF, NR0 in U. cbn in U. clear - U. lia.
      - pose proof (init_finish_futs k r None y) as P3.
        destruct (init_finish k r None y) as [y' ir] eqn:E. cbn [fst] in P1, P2, P3. rewrite <- P3 in P1.
        assert (exists rr ran, ir = IRDone rr ran) as (rr & ran & ->).
        { unfold init_finish in E. destruct r; inversion E; eexists; eexists; reflexivity. }
        split.
        + rewrite finish_done_sh. apply finish_done_inv. exact P1.
        + rewrite finish_done_sh, P2. unfold y, xr. simpl_o. lia. }
    destruct gate as [r|]; [destruct k; apply FIN|].
    assert (PEND : post x (fst (finish_poll fid w k None
               (o_note_start (o_upd xr (setw W0 1 (o_sh xr)) (o_value xr) (o_futs xr)), IRPending (IRunning None))))).
    { cbn [finish_poll fst]. unfold post, xr. simpl_o. split; [|lia]. rewrite WK.
      set (f' := mkOfut (OFInit k (IRunning None) None) (mkMeta FPending (Some w) false)).
      constructor; simpl_o.
      - right; left; reflexivity.
      - intro H; discriminate H.
      - intros _; exact (V0 NZ).
      - rewrite Ini, Z; reflexivity.
      - unfold nrun; simpl_o. pose proof (nrun_aupdate x fid f f' L) as U. rewrite RF, NR0 in U. cbn in U. change (1 =? 1) with true. cbv iota. clear - U. lia.
      - apply Hrm; reflexivity.
      - apply (upd_frame ofut olis1 of_meta [] _ _ _ fid f _ I1 L L1); reflexivity.
      - refine (oshape_upd x fid f f' Sh L _). right; right. exists k, None. reflexivity.
      - unfold okeys; simpl_o; rewrite keys_aupdate; split; assumption.
      - exact Er.
      - intro H; discriminate H.
      - intro H; discriminate H.
      - intros _; exact (NN NZ). }
    destruct k as [| |v]; [exact PEND | exact PEND | apply FIN].
  - (* somebody else is initialising: queue on active_initializers *)
    change (1 =? 2) with false. change (1 =? 1) with true. cbv iota. cbn [finish_poll fst]. unfold post, xr. simpl_o. split; [|lia]. apply (OInvW_eq _ [] _ WK).
    apply (upd_world [] x _ fid f _ HX L); simpl_o.
    + reflexivity.
    + rewrite RF. reflexivity.
    + right. left. eexists; eexists; eexists. reflexivity.
    + apply Happ; reflexivity.
    + apply (InvB_nid ofut olis1 of_meta [] _ (snid (o_sh x))); [lia|]. apply (upd_frame ofut olis1 of_meta [] _ _ _ fid f _ I1 L L1). reflexivity.
    + exact Er.
    + intro H. rewrite Z in H. discriminate H.
    + intro H. rewrite Z in H. discriminate H.
    + intros _. refine (NN _). rewrite Z. discriminate.
  - (* already initialised *)
    change (2 =? 2) with true. cbv iota.
    split; [|rewrite finish_done_sh; unfold xr; simpl_o; lia]. rewrite finish_done_sh. apply finish_done_inv. unfold xr. simpl_o. apply (OInvW_eq _ [] _ WK).
    apply (upd_world [] x _ fid f _ HX L); simpl_o.
    + reflexivity.
    + rewrite RF. reflexivity.
    + apply init_fin_shape.
    + apply Hrm. reflexivity.
    + apply (upd_frame ofut olis1 of_meta [] _ _ _ fid f _ I1 L L1). reflexivity.
    + exact Er.
    + intro H. rewrite Z in H. discriminate H.
    + intros _. destruct (AN Z) as (_ & B1). split; [apply Han; exact Z | exact B1].
    + intro H. contradiction.
Qed.

Lemma step_poll_init x fid kk f k ist gate :
  OInv x -> oroom x -> swk (o_sh x) = [] -> alookup fid (o_futs x) = Some f -> of_st f = OFInit k ist gate ->
  fm_st (of_meta f) <> FDone ->
  post x (fst (finish_poll fid (wtag fid kk) k gate (init_poll (wtag fid kk) k ist gate x))).
Proof.
  intros HX RM WK L St ND. pose proof HX as [W V2 V0 Ini R I0 I1 Sh [K1 K2] Er A0 AN NN].
  pose proof (Sh fid f L) as SP. unfold oshape1 in SP.
  assert (L1 : olis1 f = None) by (unfold olis1; rewrite St; reflexivity).
  set (w := wtag fid kk).
  assert (XR : forall l0, l0 = se0 (o_sh x) -> o_upd x (sete E0 l0 (o_sh x)) (o_value x) (o_futs x) = x).
  { intros l0 ->. destruct x as [s v fu nf dr al ini st]; destruct s; reflexivity. }
  unfold init_poll. destruct ist as [|id|el|].
  - (* never polled *)
    assert (L0 : olis0 f = None) by (unfold olis0; rewrite St; reflexivity).
    assert (RF : running f = 0) by (unfold running; rewrite St; reflexivity).
    pose proof (enter_ok x fid f k IUnpolled gate w (se0 (o_sh x)) HX RM WK L St RF) as EN. rewrite (XR _ eq_refl) in EN. cbv zeta in EN.
    cbn [getw]. unfold ST_INIT. destruct (sw0 (o_sh x) =? 2) eqn:Q.
    + apply N.eqb_eq in Q. unfold enter in EN. rewrite Q in EN. change (2 =? 2) with true in EN. cbv iota in EN.
      assert (X2 : o_upd x (o_sh x) (o_value x) (o_futs x) = x) by (destruct x; reflexivity). rewrite X2 in EN.
      apply EN.
      * intros f' N'. apply (upd_frame ofut olis0 of_meta [] _ _ _ fid f f' I0 L L0 N').
      * intros f' w' N' P' W'. apply (upd_append ofut olis0 of_meta [] _ _ _ fid f f' w' I0 L L0 N' P' W').
      * intros _. apply (AN Q).
      * exact (ib_fresh _ _ _ _ _ _ _ I0).
    + change OFUEL with (S (S 6)). rewrite enter_paths; [|exact W | exact (ib_fresh _ _ _ _ _ _ _ I0)].
      apply EN.
      * intros f' N'. apply (upd_frame ofut olis0 of_meta [] _ _ _ fid f f' I0 L L0 N').
      * intros f' w' N' P' W'. apply (upd_append ofut olis0 of_meta [] _ _ _ fid f f' w' I0 L L0 N' P' W').
      * intro Z. apply (AN Z).
      * exact (ib_fresh _ _ _ _ _ _ _ I0).
  - (* queued behind another initialiser *)
    assert (L0 : olis0 f = Some id) by (unfold olis0; rewrite St; reflexivity).
    assert (RF : running f = 0) by (unfold running; rewrite St; reflexivity).
    pose proof (ib_listed _ _ _ _ _ _ _ I0 fid f id L L0) as Hin.
    unfold poll_listener, ev_poll. cbn [gete].
    destruct (ev_find id (se0 (o_sh x))) as [[|w0|a]|] eqn:Fd; [| | |exfalso; apply ev_find_None in Fd; contradiction].
    1,2: cbv beta iota zeta; cbn [finish_poll fst]; unfold post; simpl_o; (split; [|lia]); apply (OInvW_eq _ [] _ WK);
      apply (upd_world [] x _ fid f _ HX L); simpl_o;
      [ reflexivity | rewrite RF; reflexivity | right; left; exists k, id, gate; reflexivity
      | apply (upd_set_task ofut olis0 of_meta [] _ _ _ fid f _ id w I0 L L0); reflexivity
      | apply (upd_frame ofut olis1 of_meta [] _ _ _ fid f _ I1 L L1); reflexivity
      | exact Er
      | intro Z; destruct (A0 Z) as [E|H]; [rewrite E in Fd; discriminate|]; right;
        unfold has_notified in *; apply existsb_exists in H; destruct H as (e & He & Ne); apply existsb_exists; exists e; split; [|exact Ne];
        apply In_set_keep; [exact He|]; intro Q; destruct e as [i stt]; cbn in Q; subst i;
        rewrite (In_find _ _ _ (ib_nodup _ _ _ _ _ _ _ I0) He) in Fd; inversion Fd; subst stt; discriminate Ne
      | intro Z; destruct (AN Z) as (B0 & _); pose proof (ev_find_In _ _ _ Fd) as Hi; specialize (B0 _ Hi); discriminate
      | intro Z; exact (NN Z) ].
    (* notified: its turn *)
    cbv beta iota zeta.
    change OFUEL with (S (S 6)). rewrite enter_paths; simpl_o; [|exact W | intros i Hi; apply ids_remove_incl in Hi; apply (ib_fresh _ _ _ _ _ _ _ I0); exact Hi].
    apply (enter_ok x fid f k (IWait id) gate w (ev_remove id (se0 (o_sh x))) HX RM WK L St RF).
    + intros f' N'. apply (upd_remove ofut olis0 of_meta [] _ _ _ fid f f' id I0 L L0 N').
    + intros f' w' N' P' W'. apply (upd_remove_append ofut olis0 of_meta [] _ _ _ fid f f' id w' I0 L L0 N' P' W').
      intros _. exists (mkOfut (OFWait WUnpolled) meta0). reflexivity.
    + intro Z. apply an_remove. apply (AN Z).
    + intros i Hi. apply ids_remove_incl in Hi. apply (ib_fresh _ _ _ _ _ _ _ I0). exact Hi.
  - (* running its closure *)
    assert (EL : el = None).
    { destruct (fm_st (of_meta f)).
      - destruct SP as [SP|(k0 & g0 & SP)]; rewrite St in SP; discriminate.
      - destruct SP as [(id & SP)|[(k0 & id & g0 & SP)|(k0 & g0 & SP)]]; rewrite St in SP; inversion SP. reflexivity.
      - exfalso. apply ND. reflexivity. }
    subst el.
    assert (L0 : olis0 f = None) by (unfold olis0; rewrite St; reflexivity).
    assert (RF : running f = 1) by (unfold running; rewrite St; reflexivity).
    assert (Z : sw0 (o_sh x) = 1).
    { pose proof (asum_In running fid f (o_futs x) (alookup_In _ _ _ L)) as LE. rewrite RF in LE. unfold nrun in R. rewrite R in LE.
      destruct (sw0 (o_sh x) =? 1) eqn:Q; [apply N.eqb_eq in Q; exact Q | clear - LE; lia]. }
    assert (NZ : sw0 (o_sh x) <> 2) by (rewrite Z; discriminate).
    destruct gate as [r|].
    + set (f' := mkOfut (OFInit k IFin (Some r)) (mkMeta FDone (Some w) false)).
      destruct (finish_ok x fid f' k r) as (P1 & P2 & _).
      * exact (V0 NZ).
      * rewrite Ini, Z. reflexivity.
      * exact WK.
      * exact Er.
      * apply (upd_frame ofut olis0 of_meta [] _ _ _ fid f f' I0 L L0). reflexivity.
      * apply (upd_frame ofut olis1 of_meta [] _ _ _ fid f f' I1 L L1). reflexivity.
      * exact (NN NZ).
      * exact RM.
      * exact (oshape_upd x fid f f' Sh L (init_fin_shape k (Some r) w)).
      * exact K1.
      * exact K2.
      * pose proof (nrun_aupdate x fid f f' L) as U. rewrite RF, R, Z in U. change (1 =? 1) with true in U. cbv iota in U. unfold f' in U at 2. unfold running in U at 2. cbn in U. clear - U. lia.
      * pose proof (init_finish_futs k r None x) as P3.
        destruct (init_finish k r None x) as [y' ir] eqn:E. cbn [fst] in P1, P2, P3. rewrite <- P3 in P1.
        assert (exists rr ran, ir = IRDone rr ran) as (rr & ran & ->).
        { unfold init_finish in E. destruct r; inversion E; eexists; eexists; reflexivity. }
        split.
        -- rewrite finish_done_sh. apply finish_done_inv. exact P1.
        -- rewrite finish_done_sh, P2. lia.
    + (* the closure's future is still pending *)
      cbn [finish_poll fst]. unfold post. simpl_o. split; [|lia]. apply (OInvW_eq _ [] _ WK).
      apply (upd_world [] x _ fid f _ HX L); simpl_o.
      * reflexivity.
      * rewrite RF. reflexivity.
      * right; right. exists k, None. reflexivity.
      * apply (upd_frame ofut olis0 of_meta [] _ _ _ fid f _ I0 L L0). reflexivity.
      * apply (upd_frame ofut olis1 of_meta [] _ _ _ fid f _ I1 L L1). reflexivity.
      * exact Er.
      * exact A0.
      * exact AN.
      * intro H. exact (NN H).
  - exfalso. destruct (fm_st (of_meta f)).
    + destruct SP as [SP|(k0 & g0 & SP)]; rewrite St in SP; discriminate.
    + destruct SP as [(id & SP)|[(k0 & id & g0 & SP)|(k0 & g0 & SP)]]; rewrite St in SP; discriminate.
    + apply ND. reflexivity.
Qed.

Lemma step_start x st0 : OInv x -> swk (o_sh x) = [] -> olis0 (mkOfut st0 meta0) = None -> olis1 (mkOfut st0 meta0) = None ->
  running (mkOfut st0 meta0) = 0 -> oshape1 (mkOfut st0 meta0) ->
  post x (mkOw (o_sh x) (o_value x) (o_futs x ++ [(o_nf x, mkOfut st0 meta0)]) (S (o_nf x)) (o_drops x) true (o_inits x) (o_started x)).
Proof.
  intros [W V2 V0 Ini R I0 I1 Sh [K1 K2] Er A0 AN NN] WK N0 N1 RF S0. unfold post. simpl_o. split; [|lia]. rewrite WK.
  assert (NK : alookup (o_nf x) (o_futs x) = None) by (apply alookup_not_key; intro H; apply K2 in H; lia).
  constructor; simpl_o; try assumption.
  - unfold nrun in *. simpl_o. rewrite asum_app. cbn [asum]. rewrite RF, R. clear. lia.
  - apply (app_frame ofut olis0 of_meta [] _ _ _ _ _ I0 NK N0).
  - apply (app_frame ofut olis1 of_meta [] _ _ _ _ _ I1 NK N1).
  - intros g f L. cbn [o_futs] in L. rewrite alookup_app in L. destruct (alookup g (o_futs x)) eqn:Q; [inversion L; subst; apply (Sh g f Q)|].
    cbn in L. destruct (Nat.eqb g (o_nf x)); inversion L; subst. exact S0.
  - split; simpl_o.
    + rewrite map_app. cbn. apply NoDup_app_fresh; [exact K1|]. intro H. apply K2 in H. lia.
    + intros k Hk. rewrite map_app in Hk. apply in_app_or in Hk. destruct Hk as [Hk|[<-|[]]]; [specialize (K2 k Hk); lia | cbn; lia].
Qed.

Lemma step_resolve x fid f k ist m r :
  OInv x -> swk (o_sh x) = [] -> alookup fid (o_futs x) = Some f -> f = mkOfut (OFInit k ist None) m ->
  post x (o_upd x (match ist, fm_w m with IRunning _, Some w => set_wk (swk (o_sh x) ++ [w]) (o_sh x) | _, _ => o_sh x end)
            (o_value x) (aupdate fid (mkOfut (OFInit k ist (Some r)) m) (o_futs x))).
Proof.
  intros HX WK L ->. pose proof HX as [W V2 V0 Ini R I0 I1 Sh [K1 K2] Er A0 AN NN]. unfold post.
  set (f := mkOfut (OFInit k ist None) m) in *. set (f' := mkOfut (OFInit k ist (Some r)) m).
  set (s' := match ist, fm_w m with IRunning _, Some w => set_wk (swk (o_sh x) ++ [w]) (o_sh x) | _, _ => o_sh x end).
  assert (P : sw0 s' = sw0 (o_sh x) /\ se0 s' = se0 (o_sh x) /\ se1 s' = se1 (o_sh x) /\ snid s' = snid (o_sh x) /\ serr s' = serr (o_sh x)).
  { unfold s'. destruct ist; try (repeat split; fail). destruct (fm_w m); repeat split. }
  destruct P as (P1 & P2 & P3 & P4 & P5). simpl_o. rewrite P4. split; [|lia].
  apply (upd_world (swk s') x s' fid f f' HX L).
  - exact P1.
  - reflexivity.
  - pose proof (Sh fid f L) as S0. unfold oshape1 in *. cbn [of_meta of_st f f'] in *. destruct (fm_st m).
    + destruct S0 as [S0|(k0 & g0 & S0)]; [discriminate S0|]. right. inversion S0; subst. exists k0, (Some r). reflexivity.
    + destruct S0 as [(id & S0)|[(k0 & id & g0 & S0)|(k0 & g0 & S0)]]; [discriminate S0 | |]; inversion S0; subst; right;
        [left; exists k0, id, (Some r); reflexivity | right; exists k0, (Some r); reflexivity].
    + destruct S0 as [S0|(k0 & g0 & S0)]; [discriminate S0|]. right. inversion S0; subst. exists k0, (Some r). reflexivity.
  - rewrite P2, P4. apply (InvB_mono ofut olis0 of_meta []); [intros a []|]. apply (upd_same ofut olis0 of_meta [] _ _ _ fid f f' I0 L); reflexivity.
  - rewrite P3, P4. apply (InvB_mono ofut olis1 of_meta []); [intros a []|]. apply (upd_same ofut olis1 of_meta [] _ _ _ fid f f' I1 L); reflexivity.
  - rewrite P5. exact Er.
  - rewrite P2. exact A0.
  - rewrite P2, P3. exact AN.
  - rewrite P3. intro H. exact (NN H).
Qed.

Lemma asum_zero_all {A} (g : A -> N) l : asum g l = 0 -> forall k v, In (k, v) l -> g v = 0.
Proof. intros Z k v Hi. pose proof (asum_In g k v l Hi) as LE. rewrite Z in LE. lia. Qed.

Lemma step_dropfut x fid f :
  OInv x -> swk (o_sh x) = [] -> alookup fid (o_futs x) = Some f ->
  post x (o_upd (ofut_drop (of_st f) x) (o_sh (ofut_drop (of_st f) x)) (o_value (ofut_drop (of_st f) x)) (aremove fid (o_futs (ofut_drop (of_st f) x)))).
Proof.
  intros HX WK L. pose proof HX as [W V2 V0 Ini R I0 I1 Sh [K1 K2] Er A0 AN NN].
  pose proof (Sh fid f L) as SP. unfold oshape1 in SP.
  (* the three kinds of store change *)
  assert (KEYS : okeys (o_upd x (o_sh x) (o_value x) (aremove fid (o_futs x)))).
  { split; simpl_o; [apply NoDup_keys_aremove; exact K1 | intros k0 Hk; apply K2; apply (keys_aremove_incl fid); exact Hk]. }
  assert (SHP : forall g f0, alookup g (aremove fid (o_futs x)) = Some f0 -> oshape1 f0).
  { intros g f0 Lg. destruct (Nat.eq_dec g fid) as [->|N]; [rewrite (alookup_aremove_same fid _ K1) in Lg; discriminate|].
    rewrite alookup_aremove_other in Lg by exact N. apply (Sh g f0 Lg). }
  assert (NRM : asum running (aremove fid (o_futs x)) + running f = nrun x) by (apply asum_aremove; exact L).
  (* no store change *)
  assert (PLAIN : olis0 f = None -> olis1 f = None -> running f = 0 ->
            post x (o_upd x (o_sh x) (o_value x) (aremove fid (o_futs x)))).
  { intros N0 N1 RF. unfold post. simpl_o. split; [|lia]. rewrite WK.
    constructor; simpl_o; try assumption.
    - unfold nrun in *. simpl_o. rewrite <- R. rewrite RF in NRM. clear - NRM. lia.
    - apply (rm_frame ofut olis0 of_meta [] _ _ _ fid f I0 L K1 N0).
    - apply (rm_frame ofut olis1 of_meta [] _ _ _ fid f I1 L K1 N1). }
  assert (ADDD : forall y l, post x (o_upd y (o_sh y) (o_value y) l) -> post x (o_upd (o_add_drop y) (o_sh (o_add_drop y)) (o_value (o_add_drop y)) l)).
  { intros y l (H1 & H2). split; [|exact H2]. apply OInvW_drops in H1. exact H1. }
  destruct (of_st f) as [ws|k ist gate] eqn:St.
  - destruct ws as [|id|]; cbn [ofut_drop].
    + apply PLAIN; [unfold olis0 | unfold olis1 | unfold running]; rewrite St; reflexivity.
    + (* a pending wait: its listener on passive_waiters goes *)
      assert (L0 : olis0 f = None) by (unfold olis0; rewrite St; reflexivity).
      assert (L1 : olis1 f = Some id) by (unfold olis1; rewrite St; reflexivity).
      assert (RF : running f = 0) by (unfold running; rewrite St; reflexivity).
      destruct (drop1_proj (Some id) (o_sh x)) as (D1 & D2 & D3 & D4 & D5 & D6). cbn [drop_listener_opt] in D1, D2, D3, D4, D5, D6.
      destruct (rm_drop_own ofut olis1 of_meta [] _ _ _ fid f I1 L K1) as (J1 & _). rewrite L1 in J1. cbn [app] in J1.
      unfold post. simpl_o. rewrite D4. split; [|lia].
      constructor; simpl_o; rewrite ?D1, ?D2, ?D3, ?D4, ?D5, ?D6, ?WK; cbn [app]; try assumption.
      * unfold nrun in *. simpl_o. rewrite <- R. rewrite RF in NRM. clear - NRM. lia.
      * apply (InvB_mono ofut olis0 of_meta []); [intros a []|]. apply (rm_frame ofut olis0 of_meta [] _ _ _ fid f I0 L K1 L0).
      * intro Z. destruct (AN Z) as (B0 & B1). split; [exact B0 | apply (an_drop_opt (Some id)); exact B1].
      * intro Z. destruct (nn_drop id _ (NN Z)) as (Q1 & _). cbn [ev_drop_opt]. rewrite Q1. apply nn_remove. exact (NN Z).
    + apply PLAIN; [unfold olis0 | unfold olis1 | unfold running]; rewrite St; reflexivity.
  - assert (L1 : olis1 f = None) by (unfold olis1; rewrite St; reflexivity).
    assert (CORE : post x (let y := match ist with
               | IWait id => o_upd x (drop_listener E0 id (o_sh x)) (o_value x) (o_futs x)
               | IRunning el => o_upd x (drop_listener_opt E0 el (guard_drop (o_sh x))) (o_value x) (o_futs x)
               | _ => x
               end in o_upd y (o_sh y) (o_value y) (aremove fid (o_futs y)))).
    { destruct ist as [|id|el|]; cbv zeta.
      - apply PLAIN; [unfold olis0 | unfold olis1 | unfold running]; rewrite St; reflexivity.
      - (* queued: its listener on active_initializers goes, a notification it holds is passed on *)
        assert (L0 : olis0 f = Some id) by (unfold olis0; rewrite St; reflexivity).
        assert (RF : running f = 0) by (unfold running; rewrite St; reflexivity).
        destruct (drop0_proj (Some id) (o_sh x)) as (D1 & D2 & D3 & D4 & D5 & D6). cbn [drop_listener_opt] in D1, D2, D3, D4, D5, D6.
        destruct (rm_drop_own ofut olis0 of_meta [] _ _ _ fid f I0 L K1) as (J0 & JA). rewrite L0 in J0, JA. cbn [app] in J0.
        unfold post. simpl_o. rewrite D4. split; [|lia].
        constructor; simpl_o; rewrite ?D1, ?D2, ?D3, ?D4, ?D5, ?D6, ?WK; cbn [app]; try assumption.
        + unfold nrun in *. simpl_o. rewrite <- R. rewrite RF in NRM. clear - NRM. lia.
        + apply (InvB_mono ofut olis1 of_meta []); [intros a []|]. apply (rm_frame ofut olis1 of_meta [] _ _ _ fid f I1 L K1 L1).
        + intro Z. apply JA. apply (A0 Z).
        + intro Z. destruct (AN Z) as (B0 & B1). split; [apply (an_drop_opt (Some id)); exact B0 | exact B1].
      - (* the running initialiser is cancelled: the guard resets the cell and passes the turn on *)
        assert (EL : el = None).
        { destruct (fm_st (of_meta f)).
          - destruct SP as [SP|(k0 & g0 & SP)]; discriminate.
          - destruct SP as [(id & SP)|[(k0 & id & g0 & SP)|(k0 & g0 & SP)]]; inversion SP. reflexivity.
          - destruct SP as [SP|(k0 & g0 & SP)]; discriminate. }
        subst el. cbn [drop_listener_opt]. unfold guard_drop.
        assert (L0 : olis0 f = None) by (unfold olis0; rewrite St; reflexivity).
        assert (RF : running f = 1) by (unfold running; rewrite St; reflexivity).
        assert (Z : sw0 (o_sh x) = 1).
        { pose proof (asum_In running fid f (o_futs x) (alookup_In _ _ _ L)) as LE. rewrite RF in LE. unfold nrun in R. rewrite R in LE.
          destruct (sw0 (o_sh x) =? 1) eqn:Q; [apply N.eqb_eq in Q; exact Q | clear - LE; lia]. }
        assert (NZ : sw0 (o_sh x) <> 2) by (rewrite Z; discriminate).
        set (s1 := store W0 ST_UNINIT (o_sh x)).
        destruct (notify0_proj 1 false s1) as (A1 & A2 & A3 & A4 & A5 & A6).
        change (se0 s1) with (se0 (o_sh x)) in *. change (se1 s1) with (se1 (o_sh x)) in *. change (swk s1) with (swk (o_sh x)) in *.
        change (snid s1) with (snid (o_sh x)) in *. change (serr s1) with (serr (o_sh x)) in *. change (sw0 s1) with 0 in *.
        unfold post. simpl_o. rewrite A4. split; [|lia].
        constructor; simpl_o; rewrite ?A6, ?A1, ?A2, ?A3, ?A4, ?A5, ?WK; cbn [app].
        + left; reflexivity.
        + intro H. discriminate H.
        + intros _. exact (V0 NZ).
        + rewrite Ini, Z. reflexivity.
        + unfold nrun in *. simpl_o. rewrite R, Z, RF in NRM. change (1 =? 1) with true in NRM. cbv iota in NRM. change (0 =? 1) with false. cbv iota. clear - NRM. lia.
        + apply (InvB_notify ofut olis0 of_meta 1 false [] _ _ _). apply (rm_frame ofut olis0 of_meta [] _ _ _ fid f I0 L K1 L0).
        + apply (InvB_mono ofut olis1 of_meta []); [intros a []|]. apply (rm_frame ofut olis1 of_meta [] _ _ _ fid f I1 L K1 L1).
        + exact SHP.
        + exact KEYS.
        + exact Er.
        + intros _. destruct (se0 (o_sh x)) as [|e0 r0] eqn:Q; [left; reflexivity|]. right. apply notify_has; [clear; lia | discriminate].
        + intro H. discriminate H.
        + intros _. exact (NN NZ).
      - apply PLAIN; [unfold olis0 | unfold olis1 | unfold running]; rewrite St; reflexivity. }
    cbn [ofut_drop]. cbv zeta in CORE.
    destruct k as [| |v]; try exact CORE. destruct ist; try (apply ADDD; exact CORE). exact CORE.
Qed.

Lemma step_core_post x o : OInv x -> oroom x -> swk (o_sh x) = [] -> post x (fst (ostep_core x o)).
Proof.
  intros HX RM WK. unfold ostep_core. destruct (negb (o_alive x)); [apply post_same; assumption|].
  destruct o as [|k|fid kk|fid r|fid| | |]; cbv zeta.
  - cbn [fst]. apply (step_start x (OFWait WUnpolled) HX WK); try reflexivity. left. reflexivity.
  - cbn [fst]. apply (step_start x (OFInit k IUnpolled None) HX WK); try reflexivity. right. exists k, None. reflexivity.
  - destruct (alookup fid (o_futs x)) as [f|] eqn:L; [|apply post_same; assumption].
    destruct (fstatus_eqb (fm_st (of_meta f)) FDone || Nat.leb 4 kk) eqn:V; [apply post_same; assumption|].
    apply Bool.orb_false_iff in V. destruct V as (V1 & _).
    assert (ND : fm_st (of_meta f) <> FDone) by (intro Q; rewrite Q in V1; discriminate).
    destruct (of_st f) as [st|k ist gate] eqn:St.
    + exact (step_poll_wait x fid kk f st HX RM WK L St ND).
    + pose proof (step_poll_init x fid kk f k ist gate HX RM WK L St ND) as P.
      unfold finish_poll in P. destruct (init_poll (wtag fid kk) k ist gate x) as [x' ir]. exact P.
  - destruct (alookup fid (o_futs x)) as [f|] eqn:L; [|apply post_same; assumption].
    destruct f as [[st|k ist [g|]] m]; try (apply post_same; assumption).
    destruct ((match k, r with IKSet _, _ => false | IKInit, OErr _ => false | _, _ => true end) && match ist with IFin => false | _ => true end);
      [|apply post_same; assumption].
    cbn [fst]. exact (step_resolve x fid _ k ist m r HX WK L eq_refl).
  - destruct (alookup fid (o_futs x)) as [f|] eqn:L; [|apply post_same; assumption].
    cbn [fst]. exact (step_dropfut x fid f HX WK L).
  - destruct (getw W0 (o_sh x) =? ST_INIT); apply post_same; assumption.
  - (* take: needs &mut self, so no future is alive *)
    destruct (o_futs x) as [|p l] eqn:F; [|apply post_same; assumption].
    destruct (getw W0 (o_sh x) =? ST_INIT) eqn:Q; [|apply post_same; assumption].
    cbn [fst]. pose proof HX as [W V2 V0 Ini R I0 I1 Sh [K1 K2] Er A0 AN NN]. unfold post. simpl_o. split; [|lia]. rewrite WK.
    unfold olook in I0, I1. rewrite F in I0, I1.
    pose proof (no_futs_no_entries ofut olis0 of_meta _ _ _ I0) as E0'. pose proof (no_futs_no_entries ofut olis1 of_meta _ _ _ I1) as E1'.
    constructor; simpl_o; rewrite ?E0', ?E1'.
    + left; reflexivity.
    + intro H. discriminate H.
    + reflexivity.
    + reflexivity.
    + reflexivity.
    + rewrite E0' in I0. exact I0.
    + rewrite E1' in I1. exact I1.
    + intros g f L. discriminate L.
    + split; [constructor | intros k []].
    + exact Er.
    + intros _. left. reflexivity.
    + intro H. discriminate H.
    + intros _ e [].
  - destruct (o_futs x) as [|p l] eqn:F; [|apply post_same; assumption].
    cbn [fst]. pose proof HX as [W V2 V0 Ini R I0 I1 Sh [K1 K2] Er A0 AN NN]. unfold post. simpl_o. split; [|lia]. rewrite WK.
    unfold olook in I0, I1. rewrite F in I0, I1. unfold nrun in R. rewrite F in R.
    constructor; simpl_o; try assumption.
    + intros g f L. discriminate L.
    + split; [constructor | intros k []].
Qed.

(* ---------- the end-of-operation wake-up pass, steps, runs ---------- *)
Lemma OInvW_wake x : OInvW (swk (o_sh x)) x -> OInv (o_wake_all (swk (o_sh x)) x).
Proof.
  intros [W V2 V0 Ini R I0 I1 Sh [K1 K2] Er A0 AN NN]. unfold OInv, o_wake_all.
  set (wk := swk (o_sh x)) in *.
  set (h := fun f => mkOfut (of_st f) (meta_wake wk (of_meta f))).
  constructor; simpl_o; try assumption.
  - unfold nrun in *. simpl_o. rewrite <- R. apply (asum_map running h). intro v. reflexivity.
  - apply (InvB_wake ofut olis0 of_meta wk _ _ (olook x) _ h); auto.
    intro k. unfold olook. simpl_o. exact (alookup_map h k (o_futs x)).
  - apply (InvB_wake ofut olis1 of_meta wk _ _ (olook x) _ h); auto.
    intro k. unfold olook. simpl_o. exact (alookup_map h k (o_futs x)).
  - intros fid f L. cbn [o_futs o_upd] in L. pose proof (alookup_map h fid (o_futs x)) as AM. cbv beta in AM. unfold h in AM at 1. rewrite AM in L. clear AM.
    destruct (alookup fid (o_futs x)) as [f0|] eqn:L0; [|discriminate]. inversion L; subst.
    pose proof (Sh fid f0 L0) as S0. unfold oshape1 in *. cbn [h of_meta of_st]. rewrite meta_wake_st. exact S0.
  - unfold okeys. simpl_o. rewrite map_map. cbn [fst]. split; [exact K1 | exact K2].
Qed.

Lemma ostep_ok x o : OInv x -> oroom x -> OInv (fst (ostep x o)) /\ (snid (o_sh (fst (ostep x o))) <= S (snid (o_sh x)))%nat.
Proof.
  intros HX RM. unfold ostep.
  set (x0 := o_upd x (set_wk [] (o_sh x)) (o_value x) (o_futs x)).
  assert (H0 : OInv x0) by (destruct HX; constructor; assumption).
  assert (R0 : oroom x0) by exact RM. assert (K0 : swk (o_sh x0) = []) by reflexivity.
  pose proof (step_core_post x0 o H0 R0 K0) as (P1 & P2).
  destruct (ostep_core x0 o) as [x1 r]. cbn [fst] in *. split; [apply OInvW_wake; exact P1 | exact P2].
Qed.

Lemma OInv_init : OInv ow0.
Proof.
  constructor; cbn.
  - left; reflexivity.
  - intro H. discriminate H.
  - reflexivity.
  - reflexivity.
  - reflexivity.
  - constructor; cbn; try tauto; try constructor; intros; discriminate.
  - constructor; cbn; try tauto; try constructor; intros; discriminate.
  - intros g f L. discriminate L.
  - split; [constructor | intros k []].
  - reflexivity.
  - intros _. left. reflexivity.
  - intro H. discriminate H.
  - intros _ e [].
Qed.

Definition ONCE_BOUND : N := 18446744073709551614.

Lemma orun_gen ops : forall x, OInv x -> N.of_nat (snid (o_sh x)) + N.of_nat (length ops) < usize_max ->
  OInv (fold_left (fun x o => fst (ostep x o)) ops x).
Proof.
  induction ops as [|o ops IH]; intros x HX B; cbn [fold_left length] in *; [exact HX|].
  assert (RM : oroom x) by (unfold oroom; clear - B; lia).
  destruct (ostep_ok x o HX RM) as (Q1 & Q2). apply IH; [exact Q1 | clear - B Q2; lia].
Qed.

Theorem run_OInv ops : N.of_nat (length ops) < ONCE_BOUND -> OInv (orun ops).
Proof.
  intro B. apply orun_gen; [apply OInv_init|]. cbn. unfold ONCE_BOUND in B. change usize_max with 18446744073709551615. clear - B. lia.
Qed.

(* ---------- the theorems ---------- *)
(* C04: between takes the cell is initialised at most once; at most one initialiser runs, and exactly
   while the cell is in the Initializing state; the stored value exists exactly when Initialized *)
Theorem once_at_most_once ops : N.of_nat (length ops) < ONCE_BOUND ->
  let x := orun ops in
  (o_inits x <= 1)%nat /\ (o_inits x = 1%nat <-> sw0 (o_sh x) = 2) /\
  nrun x <= 1 /\ (nrun x = 1 <-> sw0 (o_sh x) = 1) /\
  (sw0 (o_sh x) = 2 <-> exists v, o_value x = Some v) /\
  (sw0 (o_sh x) = 0 \/ sw0 (o_sh x) = 1 \/ sw0 (o_sh x) = 2).
Proof.
  intros B x. destruct (run_OInv ops B) as [W V2 V0 Ini R _ _ _ _ _ _ _ _]. fold x in W, V2, V0, Ini, R.
  split; [rewrite Ini; destruct (sw0 (o_sh x) =? 2); lia|].
  split; [rewrite Ini; destruct (sw0 (o_sh x) =? 2) eqn:Q; [apply N.eqb_eq in Q | apply N.eqb_neq in Q]; split; intro H; try assumption; try reflexivity; try contradiction; discriminate|].
  split; [rewrite R; destruct (sw0 (o_sh x) =? 1); lia|].
  split; [rewrite R; destruct (sw0 (o_sh x) =? 1) eqn:Q; [apply N.eqb_eq in Q | apply N.eqb_neq in Q]; split; intro H; try assumption; try reflexivity; try contradiction; discriminate|].
  split; [|exact W].
  split; [exact V2|]. intros (v & Hv). destruct (N.eq_dec (sw0 (o_sh x)) 2) as [Q|Q]; [exact Q|]. rewrite (V0 Q) in Hv. discriminate.
Qed.

(* C08 (i): once initialised, at rest no wait / get_or_init / get_or_try_init / set is left pending *)
Theorem once_waiters_finish ops : N.of_nat (length ops) < ONCE_BOUND ->
  let x := orun ops in quiescent x -> sw0 (o_sh x) = 2 ->
  forall fid f, alookup fid (o_futs x) = Some f -> fm_st (of_meta f) <> FPending.
Proof. intros B x Q Z. apply init_no_pending; [apply run_OInv; exact B | exact Q | exact Z]. Qed.

(* C08 (ii): the cell is never stuck Initializing without a running initialiser, and when it is empty
   at rest nobody is left queued for a turn: after a failure / panic / cancellation one queued caller
   has been woken and (at its poll) runs its own closure *)
Theorem once_hand_over ops : N.of_nat (length ops) < ONCE_BOUND ->
  let x := orun ops in
  (sw0 (o_sh x) = 1 -> exists fid f k g, alookup fid (o_futs x) = Some f /\ of_st f = OFInit k (IRunning None) g) /\
  (quiescent x -> sw0 (o_sh x) = 0 -> forall fid f k id g, alookup fid (o_futs x) = Some f -> of_st f <> OFInit k (IWait id) g).
Proof.
  intros B x. pose proof (run_OInv ops B) as HX. fold x in HX. split.
  - intro Z. destruct HX as [_ _ _ _ R _ _ Sh _ _ _ _ _]. rewrite Z in R. change (1 =? 1) with true in R. cbv iota in R.
    unfold nrun in R. assert (exists fid f, In (fid, f) (o_futs x) /\ running f = 1) as (fid & f & Hi & RF).
    { clear - R. induction (o_futs x) as [|[k v] l IH]; [discriminate R|]. cbn [asum] in R.
      destruct (N.eq_dec (running v) 0) as [Q|Q].
      - rewrite Q in R. destruct (IH R) as (a & b & c & d). exists a, b. split; [right; exact c | exact d].
      - exists k, v. split; [left; reflexivity|]. unfold running in *. destruct (of_st v) as [|? [] ?]; try contradiction; reflexivity. }
    pose proof (oi_keys _ _ (run_OInv ops B)) as (K1 & _). fold x in K1.
    pose proof (In_alookup_nd fid f _ K1 Hi) as L. exists fid, f.
    pose proof (Sh fid f L) as SP. unfold oshape1 in SP. unfold running in RF.
    destruct (of_st f) as [ws|k ist g] eqn:St; [discriminate RF|]. destruct ist as [| |el|]; try discriminate RF.
    exists k, g. split; [exact L|].
    destruct (fm_st (of_meta f)).
    + destruct SP as [SP|(k0 & g0 & SP)]; discriminate.
    + destruct SP as [(id & SP)|[(k0 & id & g0 & SP)|(k0 & g0 & SP)]]; inversion SP. reflexivity.
    + destruct SP as [SP|(k0 & g0 & SP)]; discriminate.
  - intros Q Z. apply uninit_no_waiting; assumption.
Qed.

Theorem once_no_error ops : N.of_nat (length ops) < ONCE_BOUND -> serr (o_sh (orun ops)) = false.
Proof. intro B. destruct (run_OInv ops B). assumption. Qed.

(* ---------- only the stored value is ever returned ---------- *)
Definition holds (x : oworld) (v : N) : Prop := sw0 (o_sh x) = 2 /\ o_value x = Some v.
Definition val_ok (x : oworld) : Prop := sw0 (o_sh x) = 2 -> exists v, o_value x = Some v.

Lemma holds_cell x : val_ok x -> sw0 (o_sh x) = 2 -> holds x (cell_val x).
Proof. intros HX Z. destruct (HX Z) as (v & Hv). split; [exact Z|]. unfold cell_val. rewrite Hv. reflexivity. Qed.

Lemma finish_poll_rval fid w k gate y r ran v :
  snd (finish_poll fid w k gate (y, IRDone r ran)) = RVal v -> r = RVal v.
Proof. unfold finish_poll. destruct k as [| |a]; cbn [snd]; auto. destruct ran; cbn [snd]; [auto | discriminate]. Qed.
Lemma finish_poll_holds fid w k gate y r ran v : holds y v -> holds (fst (finish_poll fid w k gate (y, IRDone r ran))) v.
Proof. unfold finish_poll, holds. destruct k as [| |a]; cbn [fst]; auto. destruct ran; cbn [fst]; auto. Qed.

Lemma init_finish_holds k r el y v : (exists b, snd (init_finish k r el y) = IRDone (RVal v) b) -> holds (fst (init_finish k r el y)) v.
Proof.
  unfold init_finish. destruct r as [v'|e|]; cbn [fst snd]; intros (b & E); inversion E; subst.
  set (s1 := store W0 ST_INIT (o_sh y)). unfold holds. simpl_o.
  destruct (drop0_proj el (notify E1 usize_max true (notify E0 usize_max true s1))) as (_ & _ & _ & _ & _ & D6).
  rewrite D6. destruct (notify1_proj usize_max true (notify E0 usize_max true s1)) as (_ & _ & _ & _ & _ & B6). rewrite B6.
  destruct (notify0_proj usize_max true s1) as (_ & _ & _ & _ & _ & A6). rewrite A6. split; reflexivity.
Qed.

Lemma enter_rval x w k gate fid v : val_ok x ->
  snd (finish_poll fid w k gate (enter w k gate x)) = RVal v -> holds (fst (finish_poll fid w k gate (enter w k gate x))) v.
Proof.
  intros HX. unfold enter. destruct (sw0 (o_sh x) =? 2) eqn:Q.
  - apply N.eqb_eq in Q. intro H. apply finish_poll_rval in H. inversion H. apply finish_poll_holds. destruct (holds_cell x HX Q) as (A & B). split; assumption.
  - destruct (sw0 (o_sh x) =? 1); [cbn [finish_poll snd]; discriminate|]. cbv zeta.
    set (x1 := o_note_start (o_upd x (setw W0 1 (o_sh x)) (o_value x) (o_futs x))).
    assert (FIN : forall r, snd (finish_poll fid w k gate (init_finish k r None x1)) = RVal v -> holds (fst (finish_poll fid w k gate (init_finish k r None x1))) v).
    { intros r H. pose proof (init_finish_holds k r None x1 v) as P. destruct (init_finish k r None x1) as [y' ir] eqn:E.
      assert (exists rr ran, ir = IRDone rr ran) as (rr & ran & ->) by (unfold init_finish in E; destruct r; inversion E; eexists; eexists; reflexivity).
      apply finish_poll_rval in H. subst rr. apply finish_poll_holds. cbn [fst snd] in P. apply P. exists ran. reflexivity. }
    destruct k as [| |a]; [destruct gate as [r|]; [apply FIN | cbn [finish_poll snd]; discriminate] | destruct gate as [r|]; [apply FIN | cbn [finish_poll snd]; discriminate] | apply FIN].
Qed.

Lemma rval_sound x o v : OInv x -> snd (ostep_core x o) = RVal v ->
  (o = OTake /\ holds x v) \/ (o <> OTake /\ holds (fst (ostep_core x o)) v).
Proof.
  intros HX. pose proof HX as [W V2 V0 Ini R I0 I1 Sh [K1 K2] Er A0 AN NN]. unfold ostep_core.
  destruct (negb (o_alive x)); [cbn [snd]; discriminate|].
  destruct o as [|k|fid kk|fid r|fid| | |]; cbv zeta; try (cbn [snd]; discriminate).
  - destruct (alookup fid (o_futs x)) as [f|] eqn:L; [|cbn [snd]; discriminate].
    destruct (fstatus_eqb (fm_st (of_meta f)) FDone || Nat.leb 4 kk) eqn:V; [cbn [snd]; discriminate|].
    intro H. right. split; [discriminate|]. revert H.
    destruct (of_st f) as [st|k ist gate] eqn:St.
    + destruct st as [|id|]; [| |cbn [snd]; discriminate]; cbn [getw]; unfold ST_INIT.
      * destruct (sw0 (o_sh x) =? 2) eqn:Q.
        -- apply N.eqb_eq in Q. cbn [fst snd]. intro H. inversion H. destruct (holds_cell x V2 Q) as (A & B). split; assumption.
        -- unfold listen. cbn [gete]. cbv beta iota zeta. cbn [getw sw0 set_nid sete]. rewrite Q.
           unfold poll_listener, ev_poll, ev_listen. cbn [gete se1 set_nid sete].
           assert (NF : ~ In (snid (o_sh x)) (map eid (se1 (o_sh x)))) by (intro H; apply (ib_fresh _ _ _ _ _ _ _ I1) in H; lia).
           rewrite (find_app_fresh _ _ _ NF), (set_app_fresh _ _ _ _ NF). cbv beta iota zeta. cbn [snd]. discriminate.
      * unfold poll_listener, ev_poll. cbn [gete].
        destruct (ev_find id (se1 (o_sh x))) as [[|w0|a]|] eqn:Fd; cbv beta iota zeta; cbn [andb snd]; try discriminate.
        assert (Z : sw0 (o_sh x) = 2).
        { destruct (N.eq_dec (sw0 (o_sh x)) 2) as [Z|Z]; [exact Z|]. exfalso. apply (nn_find id _ a (NN Z) Fd). }
        cbn [getw sw0 sete]. rewrite Z. change (2 =? 2) with true. cbn [andb negb fst snd]. intro H. inversion H.
        destruct (holds_cell x V2 Z) as (A & B). unfold holds. simpl_o. split; [reflexivity|].
        unfold cell_val. simpl_o. exact B.
    + change (snd (finish_poll fid (wtag fid kk) k gate (init_poll (wtag fid kk) k ist gate x)) = RVal v ->
              holds (fst (finish_poll fid (wtag fid kk) k gate (init_poll (wtag fid kk) k ist gate x))) v).
      set (w := wtag fid kk). unfold init_poll. destruct ist as [|id|el|].
      * cbn [getw]. unfold ST_INIT. destruct (sw0 (o_sh x) =? 2) eqn:Q.
        -- apply N.eqb_eq in Q. intro H. apply finish_poll_rval in H. inversion H. apply finish_poll_holds. destruct (holds_cell x V2 Q) as (A & B). split; assumption.
        -- change OFUEL with (S (S 6)). rewrite enter_paths; [|exact W | exact (ib_fresh _ _ _ _ _ _ _ I0)]. apply enter_rval. exact V2.
      * unfold poll_listener, ev_poll. cbn [gete].
        destruct (ev_find id (se0 (o_sh x))) as [[|w0|a]|] eqn:Fd; cbv beta iota zeta; try (cbn [finish_poll snd]; discriminate).
        change OFUEL with (S (S 6)). rewrite enter_paths; simpl_o; [|exact W | intros i Hi; apply ids_remove_incl in Hi; apply (ib_fresh _ _ _ _ _ _ _ I0); exact Hi].
        apply enter_rval. exact V2.
      * destruct gate as [r|]; [|cbn [finish_poll snd]; discriminate].
        intro H. pose proof (init_finish_holds k r el x v) as P. destruct (init_finish k r el x) as [y' ir] eqn:E.
        assert (exists rr ran, ir = IRDone rr ran) as (rr & ran & ->) by (unfold init_finish in E; destruct r; inversion E; eexists; eexists; reflexivity).
        apply finish_poll_rval in H. subst rr. apply finish_poll_holds. cbn [fst snd] in P. apply P. exists ran. reflexivity.
      * cbn [finish_poll snd]. discriminate.
  - destruct (alookup fid (o_futs x)) as [[[st|k ist [g|]] m]|]; try (cbn [snd]; discriminate).
    destruct (_ && _); cbn [snd]; discriminate.
  - destruct (alookup fid (o_futs x)); cbn [snd]; discriminate.
  - cbn [getw]. unfold ST_INIT. destruct (sw0 (o_sh x) =? 2) eqn:Q; cbn [fst snd]; [|discriminate].
    apply N.eqb_eq in Q. intro H. inversion H. right. split; [discriminate|]. destruct (holds_cell x V2 Q) as (A & B). split; assumption.
  - destruct (o_futs x); [|cbn [snd]; discriminate]. cbn [getw]. unfold ST_INIT. destruct (sw0 (o_sh x) =? 2) eqn:Q; cbn [fst snd]; [|discriminate].
    apply N.eqb_eq in Q. intro H. inversion H. left. split; [reflexivity|]. destruct (holds_cell x V2 Q) as (A & B). split; assumption.
  - destruct (o_futs x); cbn [snd]; discriminate.
Qed.

Theorem once_value_visible ops o v : N.of_nat (length ops) < ONCE_BOUND ->
  let x := orun ops in
  o_res (snd (ostep x o)) = RVal v ->
  (o = OTake /\ holds x v) \/ (o <> OTake /\ holds (fst (ostep x o)) v).
Proof.
  intros B x. pose proof (run_OInv ops B) as HX. fold x in HX. unfold ostep.
  set (x0 := o_upd x (set_wk [] (o_sh x)) (o_value x) (o_futs x)).
  assert (H0 : OInv x0) by (destruct HX; constructor; assumption).
  pose proof (rval_sound x0 o v H0) as RS.
  destruct (ostep_core x0 o) as [x1 r]. cbn [fst snd o_res] in *. intro H. destruct (RS H) as [(A & B1)|(A & B1)]; [left | right]; (split; [exact A|]).
  - exact B1.
  - exact B1.
Qed.
