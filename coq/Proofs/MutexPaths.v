(* MutexPaths.v — what one poll of a lock future does to the store, path by path
   (the inner mutex of RwLock and Barrier is the same code on the same word W0 / event E0). *)
From AL Require Import Base Api Mutex BaseFacts ApiFacts EventFacts MutexWord.
From Coq Require Import Lia.

Notation mtx_unstarved := (unstarved W0 E0).
Notation mtx_starved := (starved_loop W0 E0).

Definition fresh0 (s : sh) : Prop := forall id, In id (map eid (se0 s)) -> (id < snid s)%nat.

(* ---------- one iteration of each loop ---------- *)
Lemma unstarved_S f w a s : mtx_unstarved (S f) w a s =
  match a_lis a with
  | None =>
      let '(s, id) := listen E0 s in
      let a := set_lis (Some id) a in
      let '(s, prev) := cas W0 0 1 s in
      if prev =? 0 then
        let s := drop_listener E0 id s in
        let '(a, s) := take_mutex W0 (set_lis None a) s in LReady a s
      else if prev =? 1 then mtx_unstarved f w a s
      else LBreak a s
  | Some id =>
      let '(s, r) := poll_listener E0 id w s in
      if negb r then LPending a s
      else
        let a := set_lis None a in
        let '(s, prev) := cas W0 0 1 s in
        if prev =? 0 then let '(a, s) := take_mutex W0 a s in LReady a s
        else if prev =? 1 then
          let '(s, b) := oracle s in
          if b then LBreak a s else mtx_unstarved f w a s
        else LBreak a (notify E0 1 false s)
  end.
Proof. reflexivity. Qed.

Lemma starved_S f w a s : mtx_starved (S f) w a s =
  match a_lis a with
  | None =>
      let '(s, id) := listen E0 s in
      let a := set_lis (Some id) a in
      let '(s, prev) := cas W0 2 3 s in
      if prev =? 2 then
        let s := drop_listener E0 id s in
        let '(a, s) := take_mutex W0 (set_lis None a) s in LReady a s
      else if prev mod 2 =? 1 then mtx_starved f w a s
      else mtx_starved f w a (notify E0 1 false s)
  | Some id =>
      let '(s, r) := poll_listener E0 id w s in
      if negb r then LPending a s
      else
        let a := set_lis None a in
        let '(s, prev) := fetch_or W0 1 s in
        if prev mod 2 =? 0 then let '(a, s) := take_mutex W0 a s in LReady a s
        else mtx_starved f w a s
  end.
Proof. reflexivity. Qed.

(* the store after appending a registered entry for a fresh listener *)
Definition reg (w : waker) (s : sh) : sh :=
  set_nid (S (snid s)) (sete E0 (se0 s ++ [mkEntry (snid s) (Task w)]) s).

Lemma find_app_fresh id l st : ~ In id (map eid l) -> ev_find id (l ++ [mkEntry id st]) = Some st.
Proof.
  induction l as [|e r IH]; cbn; intro N.
  - rewrite Nat.eqb_refl. reflexivity.
  - destruct (Nat.eqb (eid e) id) eqn:E; [apply Nat.eqb_eq in E; exfalso; apply N; left; exact E|].
    apply IH. intro H. apply N. right. exact H.
Qed.
Lemma set_app_fresh id st st' l : ~ In id (map eid l) -> ev_set id st' (l ++ [mkEntry id st]) = l ++ [mkEntry id st'].
Proof.
  induction l as [|e r IH]; cbn; intro N.
  - rewrite Nat.eqb_refl. reflexivity.
  - destruct (Nat.eqb (eid e) id) eqn:E; [apply Nat.eqb_eq in E; exfalso; apply N; left; exact E|].
    f_equal. apply IH. intro H. apply N. right. exact H.
Qed.

(* polling a listener that was registered in this very poll and not notified since: it becomes Task *)
Lemma poll_fresh_entry w s l :
  se0 s = l ++ [mkEntry (snid s - 1) Created] -> ~ In (snid s - 1)%nat (map eid l) ->
  poll_listener E0 (snid s - 1) w s = (sete E0 (l ++ [mkEntry (snid s - 1) (Task w)]) s, false).
Proof.
  intros E N. unfold poll_listener. cbn [gete]. unfold ev_poll. rewrite E.
  rewrite (find_app_fresh _ _ _ N). rewrite (set_app_fresh _ _ _ _ N). reflexivity.
Qed.

(* listen, then (after steps that do not touch the event) poll the fresh listener: registered *)
Lemma listen_then_poll w s : fresh0 s ->
  let s1 := fst (listen E0 s) in
  snd (listen E0 s) = snid s /\
  forall s2, se0 s2 = se0 s1 -> snid s2 = snid s1 ->
    poll_listener E0 (snid s) w s2 = (sete E0 (se0 s ++ [mkEntry (snid s) (Task w)]) s2, false).
Proof.
  intro F. cbn. split; [reflexivity|]. intros s2 E2 N2. unfold poll_listener. cbn [gete]. unfold ev_poll.
  rewrite E2. cbn [se0 sete set_nid]. unfold ev_listen.
  assert (NF : ~ In (snid s) (map eid (se0 s))) by (intro H; apply F in H; lia).
  rewrite (find_app_fresh _ _ _ NF). rewrite (set_app_fresh _ _ _ _ NF). reflexivity.
Qed.

(* ---------- straight-line pieces ---------- *)
(* register: listen, then poll the fresh listener (it is not notified in between in these paths) *)
Definition do_reg (w : waker) (s : sh) : sh := fst (poll_listener E0 (snid s) w (fst (listen E0 s))).
Definition become_starved (s : sh) : sh :=
  let '(s1, prev) := fetch_add W0 2 s in if usize_max / 2 <? prev then set_err s1 else s1.
Definition notified (id : nat) (s : sh) : bool :=
  match ev_find id (se0 s) with Some (Notified _) => true | _ => false end.

Lemma poll_snd id w s : In id (map eid (se0 s)) -> snd (poll_listener E0 id w s) = notified id s.
Proof.
  intro H. unfold poll_listener, notified. cbn [gete]. unfold ev_poll.
  destruct (ev_find id (se0 s)) as [[| |]|] eqn:F; reflexivity.
Qed.

(* polling the listener registered by [listen] in the same poll returns false, provided the steps in
   between did not touch the event *)
Lemma poll_after_listen w s s2 : fresh0 s -> se0 s2 = se0 (fst (listen E0 s)) ->
  snd (poll_listener E0 (snid s) w s2) = false.
Proof.
  intros F E. unfold poll_listener. cbn [gete]. unfold ev_poll. rewrite E. cbn [listen fst se0 sete set_nid gete]. unfold ev_listen.
  assert (NF : ~ In (snid s) (map eid (se0 s))) by (intro H; apply F in H; lia).
  rewrite (find_app_fresh _ _ _ NF). reflexivity.
Qed.

(* first poll of a lock operation that could not take the fast path (word <> 0) *)
Definition first_spec (w : waker) (s : sh) : acq * sh * bool :=
  let v := sw0 s in
  if v =? 1 then (mkAcq true (Some (snid s)) false, do_reg w s, false)
  else (mkAcq true (Some (snid s)) true,
        fst (poll_listener E0 (snid s) w (become_starved (fst (listen E0 s)))), false).

Lemma cas_fail w0 e n s : getw w0 s <> e -> cas w0 e n s = (s, getw w0 s).
Proof. intro H. unfold cas. destruct (getw w0 s =? e) eqn:Q; [apply N.eqb_eq in Q; contradiction | reflexivity]. Qed.
Lemma cas_ok w0 e n s : getw w0 s = e -> cas w0 e n s = (setw w0 n s, e).
Proof. intro H. unfold cas. rewrite H, N.eqb_refl. reflexivity. Qed.

Lemma first_paths w s : fresh0 s -> sw0 s <> 0 -> acq_poll W0 E0 w acq_new s = first_spec w s.
Proof.
  intros F NZ. unfold acq_poll, acq_new, first_spec. cbn [a_mutex negb a_starved]. change FUEL with (S (S 10)).
  rewrite unstarved_S. cbn [a_lis].
  rewrite (surjective_pairing (listen E0 s)). cbn [snd listen].
  set (s1 := fst (listen E0 s)).
  assert (W1 : getw W0 s1 = sw0 s) by reflexivity.
  rewrite (cas_fail W0 0 1 s1) by (rewrite W1; exact NZ). rewrite W1.
  replace (sw0 s =? 0) with false by (symmetry; apply N.eqb_neq; exact NZ).
  destruct (sw0 s =? 1) eqn:One.
  - (* held, nobody starved: loop once more and register *)
    rewrite unstarved_S. cbn [a_lis set_lis].
    rewrite (surjective_pairing (poll_listener E0 (snid s) w s1)).
    rewrite (poll_after_listen w s s1 F eq_refl). cbn [negb]. reflexivity.
  - (* somebody is starved: take a ticket, then the fair loop registers *)
    unfold become_starved. rewrite (surjective_pairing (fetch_add W0 2 s1)). rewrite fetch_add_snd, fetch_add_fst. rewrite W1.
    set (s2 := if usize_max / 2 <? sw0 s then set_err (setw W0 (wadd (sw0 s) 2) s1) else setw W0 (wadd (sw0 s) 2) s1).
    change (S 10) with (S 10). rewrite starved_S. cbn [a_lis set_lis set_starved].
    rewrite (surjective_pairing (poll_listener E0 (snid s) w s2)).
    assert (E2 : se0 s2 = se0 s1) by (unfold s2; destruct (usize_max / 2 <? sw0 s); reflexivity).
    rewrite (poll_after_listen w s s2 F E2). cbn [negb]. reflexivity.
Qed.

(* ---------- a later poll: the operation owns listener [id] ---------- *)
Definition later_spec (w : waker) (a : acq) (id : nat) (s : sh) : acq * sh * bool :=
  if negb (notified id s) then (a, fst (poll_listener E0 id w s), false)
  else
    let s1 := fst (poll_listener E0 id w s) in
    let v := sw0 s in
    if a_starved a then
      if v mod 2 =? 0 then
        let s2 := fst (fetch_or W0 1 s1) in
        let '(a', s3) := take_mutex W0 (set_lis None a) s2 in (a', s3, true)
      else (mkAcq true (Some (snid s1)) true, do_reg w s1, false)
    else
      if v =? 0 then
        let '(a', s3) := take_mutex W0 (set_lis None a) (setw W0 1 s1) in (a', s3, true)
      else if v =? 1 then
        let s2 := fst (oracle s1) in
        if snd (oracle s1) then (mkAcq true (Some (snid s2)) true, do_reg w (become_starved s2), false)
        else (mkAcq true (Some (snid s2)) false, do_reg w s2, false)
      else
        let s3 := become_starved (notify E0 1 false s1) in
        if (v + 2) mod 2 =? 1 then (mkAcq true (Some (snid s3)) true, do_reg w s3, false)
        else
          let s5 := notify E0 1 false (fst (listen E0 s3)) in
          if notified (snid s3) s5 then
            let s6 := fst (poll_listener E0 (snid s3) w s5) in
            let s7 := fst (fetch_or W0 1 s6) in
            let '(a', s8) := take_mutex W0 (mkAcq true None true) s7 in (a', s8, true)
          else (mkAcq true (Some (snid s3)) true, fst (poll_listener E0 (snid s3) w s5), false).

Lemma fresh0_same s s' : se0 s' = se0 s -> snid s' = snid s -> fresh0 s -> fresh0 s'.
Proof. intros E N F id H. rewrite E in H. rewrite N. apply F. exact H. Qed.

Lemma poll_keeps_fresh id w s : fresh0 s -> fresh0 (fst (poll_listener E0 id w s)).
Proof.
  intros F i H. unfold poll_listener in *. cbn [gete] in *. unfold ev_poll in *.
  destruct (ev_find id (se0 s)) as [[| |]|]; cbn in *; try (rewrite ids_set in H); try (apply ids_remove_incl in H); auto.
Qed.
Lemma notify_keeps_fresh n a s : fresh0 s -> fresh0 (notify E0 n a s).
Proof.
  intros F i H. unfold notify in *. cbn [gete] in *. pose proof (notify_rel n a (se0 s)) as R.
  destruct (ev_notify n a (se0 s)) as [l ws]. cbn in *. rewrite (upd_ids _ _ _ _ R) in H. auto.
Qed.

(* the do_reg step inside the hot loop when the word is 1 / inside the fair loop when the word is odd *)
Lemma unstarved_reg f w a s : fresh0 s -> a_lis a = None -> sw0 s = 1 ->
  mtx_unstarved (S (S f)) w a s = LPending (set_lis (Some (snid s)) a) (do_reg w s).
Proof.
  intros F L V. rewrite unstarved_S, L. rewrite (surjective_pairing (listen E0 s)). cbn [snd listen].
  set (s1 := fst (listen E0 s)). assert (W1 : getw W0 s1 = 1) by exact V.
  rewrite (cas_fail W0 0 1 s1) by (rewrite W1; lia). rewrite W1. cbn [N.eqb Pos.eqb].
  rewrite unstarved_S. cbn [a_lis set_lis].
  rewrite (surjective_pairing (poll_listener E0 (snid s) w s1)).
  rewrite (poll_after_listen w s s1 F eq_refl). cbn [negb]. reflexivity.
Qed.
Lemma starved_reg f w a s : fresh0 s -> a_lis a = None -> sw0 s mod 2 = 1 ->
  mtx_starved (S (S f)) w a s = LPending (set_lis (Some (snid s)) a) (do_reg w s).
Proof.
  intros F L V. rewrite starved_S, L. rewrite (surjective_pairing (listen E0 s)). cbn [snd listen].
  set (s1 := fst (listen E0 s)). assert (W1 : getw W0 s1 = sw0 s) by reflexivity.
  assert (N2 : sw0 s <> 2) by (intro Q; rewrite Q in V; discriminate).
  rewrite (cas_fail W0 2 3 s1) by (rewrite W1; exact N2). rewrite W1.
  replace (sw0 s =? 2) with false by (symmetry; apply N.eqb_neq; exact N2). rewrite V. cbn [N.eqb Pos.eqb].
  rewrite starved_S. cbn [a_lis set_lis].
  rewrite (surjective_pairing (poll_listener E0 (snid s) w s1)).
  rewrite (poll_after_listen w s s1 F eq_refl). cbn [negb]. reflexivity.
Qed.

Lemma become_starved_facts s : se0 (become_starved s) = se0 s /\ snid (become_starved s) = snid s /\
  sw0 (become_starved s) = wadd (sw0 s) 2 /\ swk (become_starved s) = swk s /\ sorc (become_starved s) = sorc s.
Proof. unfold become_starved, fetch_add. cbn [getw]. destruct (usize_max / 2 <? sw0 s); repeat split. Qed.

Lemma become_starved_eq s : become_starved s =
  (if usize_max / 2 <? snd (fetch_add W0 2 s) then set_err (fst (fetch_add W0 2 s)) else fst (fetch_add W0 2 s)).
Proof. reflexivity. Qed.

Lemma later_paths w st id s : fresh0 s -> In id (map eid (se0 s)) -> sw0 s + 2 < USZ ->
  acq_poll W0 E0 w (mkAcq true (Some id) st) s = later_spec w (mkAcq true (Some id) st) id s.
Proof.
  intros F Hin Bd. unfold acq_poll, later_spec. cbn [a_mutex negb a_starved]. change FUEL with (S (S (S (S 8)))).
  pose proof (poll_snd id w s Hin) as PS.
  set (s1 := fst (poll_listener E0 id w s)).
  assert (F1 : fresh0 s1) by (apply poll_keeps_fresh; exact F).
  assert (V1 : getw W0 s1 = sw0 s) by (unfold s1; apply sw0_poll_listener).
  destruct st.
  - (* already starved *)
    rewrite starved_S. cbn [a_lis set_lis set_starved a_mutex a_starved]. rewrite (surjective_pairing (poll_listener E0 id w s)). rewrite PS.
    destruct (notified id s); cbn [negb]; [|reflexivity].
    fold s1. rewrite (surjective_pairing (fetch_or W0 1 s1)). rewrite fetch_or_snd. rewrite V1.
    destruct (mod2_cases (sw0 s)) as [Ev|Od]; rewrite ?Ev, ?Od; cbn [N.eqb].
    + replace (0 =? 0) with true by reflexivity. cbn [fst snd].
      destruct (take_mutex W0 (set_lis None (mkAcq true (Some id) true)) (fst (fetch_or W0 1 s1))) as [a' s3]. reflexivity.
    + replace (1 =? 0) with false by reflexivity. cbn [fst snd].
      rewrite fetch_or_fst. rewrite V1. rewrite lor_1_odd by exact Od.
      assert (Eq : setw W0 (sw0 s) s1 = s1) by (rewrite <- V1; destruct s1; reflexivity). rewrite Eq.
      assert (O1 : sw0 s1 mod 2 = 1) by (change (sw0 s1) with (getw W0 s1); rewrite V1; exact Od).
      rewrite (starved_reg _ w (set_lis None (mkAcq true (Some id) true)) s1 F1 eq_refl O1). reflexivity.
  - (* not starved *)
    rewrite unstarved_S. cbn [a_lis]. rewrite (surjective_pairing (poll_listener E0 id w s)). rewrite PS.
    destruct (notified id s); cbn [negb]; [|reflexivity].
    fold s1. destruct (sw0 s =? 0) eqn:Z.
    + assert (Z' : getw W0 s1 = 0) by (rewrite V1; lia). rewrite (cas_ok W0 0 1 s1 Z'). cbn [N.eqb].
      destruct (take_mutex W0 (set_lis None (mkAcq true (Some id) false)) (setw W0 1 s1)) as [a' s3]. reflexivity.
    + assert (NZ : getw W0 s1 <> 0) by (rewrite V1; lia). rewrite (cas_fail W0 0 1 s1 NZ). rewrite V1, Z.
      destruct (sw0 s =? 1) eqn:One.
      * rewrite (surjective_pairing (oracle s1)).
        set (s2 := fst (oracle s1)).
        assert (F2 : fresh0 s2). { apply (fresh0_same s1); auto; unfold s2, oracle; destruct (sorc s1); reflexivity. }
        assert (V2 : sw0 s2 = 1). { unfold s2. rewrite sw0_oracle. change (sw0 s1) with (getw W0 s1). rewrite V1. lia. }
        destruct (snd (oracle s1)).
        -- (* the clock says: starving *)
           cbn [fst snd]. rewrite (surjective_pairing (fetch_add W0 2 s2)). rewrite <- (become_starved_eq s2).
           destruct (become_starved_facts s2) as (B1 & B2 & B3 & _).
           assert (F3 : fresh0 (become_starved s2)) by (apply (fresh0_same s2); auto).
           assert (O3 : sw0 (become_starved s2) mod 2 = 1).
           { rewrite B3, V2. rewrite wadd_small by (rewrite USZ_val; lia). reflexivity. }
           cbn [set_lis set_starved a_mutex a_lis a_starved].
           change 12%nat with (S (S 10)).
           rewrite (starved_reg _ w (mkAcq true None true) (become_starved s2) F3 eq_refl O3).
           cbn [set_lis a_mutex a_starved]. rewrite B2. reflexivity.
        -- cbn [fst snd]. rewrite (unstarved_reg _ w (set_lis None (mkAcq true (Some id) false)) s2 F2 eq_refl V2). reflexivity.
      * (* somebody else is starved: pass the notification on, take a ticket, go to the fair loop *)
        set (s2 := notify E0 1 false s1).
        rewrite (surjective_pairing (fetch_add W0 2 s2)). rewrite <- (become_starved_eq s2). set (s3 := become_starved s2).
        change 12%nat with (S (S 10)).
        destruct (become_starved_facts s2) as (B1 & B2 & B3 & _). fold s3 in B1, B2, B3.
        assert (F2 : fresh0 s2) by (apply notify_keeps_fresh; exact F1).
        assert (F3 : fresh0 s3) by (apply (fresh0_same s2); auto).
        assert (V3 : sw0 s3 = sw0 s + 2).
        { rewrite B3. unfold s2. rewrite sw0_notify. change (sw0 s1) with (getw W0 s1). rewrite V1. apply wadd_small. exact Bd. }
        cbn [set_lis set_starved a_mutex a_lis a_starved].
        destruct ((sw0 s + 2) mod 2 =? 1) eqn:Par.
        -- assert (O3 : sw0 s3 mod 2 = 1) by (rewrite V3; lia).
           rewrite (starved_reg _ w (mkAcq true None true) s3 F3 eq_refl O3). reflexivity.
        -- (* even: listen, CAS(2,3) fails, notify again, poll the own entry *)
           rewrite starved_S. cbn [a_lis set_lis set_starved a_mutex a_starved]. rewrite (surjective_pairing (listen E0 s3)). cbn [snd listen].
           set (s4 := fst (listen E0 s3)). assert (W4 : getw W0 s4 = sw0 s + 2) by exact V3.
           assert (N2 : sw0 s + 2 <> 2) by lia.
           rewrite (cas_fail W0 2 3 s4) by (rewrite W4; exact N2). rewrite W4.
           replace (sw0 s + 2 =? 2) with false by (symmetry; apply N.eqb_neq; exact N2). rewrite Par.
           rewrite starved_S. cbn [a_lis set_lis set_starved a_mutex a_starved].
           set (s5 := notify E0 1 false s4).
           rewrite (surjective_pairing (poll_listener E0 (snid s3) w s5)).
           assert (In5 : In (snid s3) (map eid (se0 s5))).
           { unfold s5, notify. cbn [gete]. pose proof (notify_rel 1 false (se0 s4)) as R.
             destruct (ev_notify 1 false (se0 s4)) as [l5 ws5]. cbn [se0 sete set_wk]. rewrite (upd_ids _ _ _ _ R).
             unfold s4. cbn. unfold ev_listen. rewrite map_app. apply in_or_app. right. left. reflexivity. }
           rewrite (poll_snd _ w s5 In5). cbn [fst snd]. fold s4. fold s5.
           cbn [a_lis set_lis set_starved a_mutex a_starved].
           destruct (notified (snid s3) s5); cbn [negb]; [|reflexivity].
           set (s6 := fst (poll_listener E0 (snid s3) w s5)).
           rewrite (surjective_pairing (fetch_or W0 1 s6)). rewrite fetch_or_snd.
           assert (V6 : getw W0 s6 = sw0 s + 2).
           { unfold s6. rewrite getw_poll_listener. unfold s5. rewrite getw_notify. exact W4. }
           rewrite V6.
           assert (Ev : (sw0 s + 2) mod 2 = 0).
           { destruct (mod2_cases (sw0 s + 2)) as [E|O]; [exact E | rewrite O in Par; discriminate]. }
           rewrite Ev. replace (0 =? 0) with true by reflexivity.
           unfold set_lis, set_starved. cbn [a_mutex a_starved a_lis fst snd].
           destruct (take_mutex W0 (mkAcq true None true) (fst (fetch_or W0 1 s6))) as [a' s8]. reflexivity.
Qed.

(* ---------- projections of the pieces ---------- *)
Record same_but_ev (s s' : sh) : Prop := mkSame {
  sb_w0 : sw0 s' = sw0 s; sb_w1 : sw1 s' = sw1 s; sb_w2 : sw2 s' = sw2 s;
  sb_e1 : se1 s' = se1 s; sb_e2 : se2 s' = se2 s;
  sb_wk : swk s' = swk s; sb_err : serr s' = serr s; sb_orc : sorc s' = sorc s }.

Lemma do_reg_proj w s : fresh0 s ->
  se0 (do_reg w s) = se0 s ++ [mkEntry (snid s) (Task w)] /\ snid (do_reg w s) = S (snid s) /\ same_but_ev s (do_reg w s).
Proof.
  intro F. unfold do_reg, poll_listener. cbn [gete listen fst snd se0 sete set_nid]. unfold ev_poll, ev_listen.
  assert (NF : ~ In (snid s) (map eid (se0 s))) by (intro H; apply F in H; lia).
  rewrite (find_app_fresh _ _ _ NF). rewrite (set_app_fresh _ _ _ _ NF). cbn. repeat split.
Qed.

Lemma poll_proj id w s : NoDup (map eid (se0 s)) -> In id (map eid (se0 s)) ->
  let s' := fst (poll_listener E0 id w s) in
  se0 s' = (if notified id s then ev_remove id (se0 s) else ev_set id (Task w) (se0 s)) /\
  snid s' = snid s /\ same_but_ev s s'.
Proof.
  intros ND Hin. unfold poll_listener, notified. cbn [gete]. unfold ev_poll.
  destruct (ev_find id (se0 s)) as [[| |]|] eqn:Fd; cbn; try (repeat split; fail).
  apply ev_find_None in Fd. contradiction.
Qed.

Lemma notify_proj n a s :
  se0 (notify E0 n a s) = fst (ev_notify n a (se0 s)) /\ snid (notify E0 n a s) = snid s /\
  swk (notify E0 n a s) = swk s ++ snd (ev_notify n a (se0 s)) /\
  sw0 (notify E0 n a s) = sw0 s /\ serr (notify E0 n a s) = serr s /\ sorc (notify E0 n a s) = sorc s /\
  sw1 (notify E0 n a s) = sw1 s /\ sw2 (notify E0 n a s) = sw2 s /\ se1 (notify E0 n a s) = se1 s /\ se2 (notify E0 n a s) = se2 s.
Proof. unfold notify. cbn [gete]. destruct (ev_notify n a (se0 s)); repeat split. Qed.

Lemma mark_zero add l : mark add 0 l = (l, []).
Proof. induction l as [|e r IH]; cbn; [reflexivity|]. destruct (is_notified e); [rewrite IH; reflexivity | reflexivity]. Qed.
Lemma notify1_noop l : has_notified l = true -> ev_notify 1 false l = (l, []).
Proof.
  intro H. apply count_notified_has in H. unfold ev_notify.
  destruct (1 <? N.of_nat (count_notified l)) eqn:C; [reflexivity|].
  replace (1 - N.of_nat (count_notified l)) with 0 by lia. apply mark_zero.
Qed.
Lemma has_notified_app l r : has_notified (l ++ r) = has_notified l || has_notified r.
Proof. unfold has_notified. apply existsb_app. Qed.
