(* MutexFrame.v — the embedded mutex (word W0, event E0) leaves the rest of the store alone:
   the other words and events are untouched, listener ids only grow, wakers are only appended. *)
From AL Require Import Base Mutex BaseFacts.
From Coq Require Import Lia.

Record oth (s s' : sh) : Prop := mkOth {
  ot_w1 : sw1 s' = sw1 s; ot_w2 : sw2 s' = sw2 s; ot_e1 : se1 s' = se1 s; ot_e2 : se2 s' = se2 s;
  ot_nid : (snid s <= snid s')%nat; ot_wk : exists ws, swk s' = swk s ++ ws }.

Ltac oth_triv ws := constructor; try reflexivity; try (cbn; lia); exists ws; cbn; rewrite ?app_nil_r; reflexivity.
Lemma oth_refl s : oth s s.
Proof. oth_triv (@nil waker). Qed.
Lemma oth_trans a b c : oth a b -> oth b c -> oth a c.
Proof.
  intros [A1 A2 A3 A4 A5 (wa & A6)] [B1 B2 B3 B4 B5 (wb & B6)]. constructor; try congruence; try lia.
  exists (wa ++ wb). rewrite B6, A6, app_assoc. reflexivity.
Qed.

Lemma oth_setw0 v s : oth s (setw W0 v s).
Proof. oth_triv (@nil waker). Qed.
Lemma oth_cas e n s : oth s (fst (cas W0 e n s)).
Proof. unfold cas. destruct (getw W0 s =? e); [apply oth_setw0 | apply oth_refl]. Qed.
Lemma oth_fetch_add n s : oth s (fst (fetch_add W0 n s)). Proof. apply oth_setw0. Qed.
Lemma oth_fetch_sub n s : oth s (fst (fetch_sub W0 n s)). Proof. apply oth_setw0. Qed.
Lemma oth_fetch_or n s : oth s (fst (fetch_or W0 n s)). Proof. apply oth_setw0. Qed.
Lemma oth_set_err s : oth s (set_err s).
Proof. oth_triv (@nil waker). Qed.
Lemma oth_oracle s : oth s (fst (oracle s)).
Proof. unfold oracle. destruct (sorc s); [apply oth_refl|]. oth_triv (@nil waker). Qed.
Lemma oth_listen s : oth s (fst (listen E0 s)).
Proof. unfold listen. oth_triv (@nil waker). Qed.
Lemma oth_notify n a s : oth s (notify E0 n a s).
Proof. unfold notify. cbn [gete]. destruct (ev_notify n a (se0 s)) as [l ws]. oth_triv ws. Qed.
Lemma oth_poll_listener id w s : oth s (fst (poll_listener E0 id w s)).
Proof.
  unfold poll_listener. cbn [gete]. destruct (ev_poll id w (se0 s)) as [[l r]|]; [|apply oth_set_err].
  oth_triv (@nil waker).
Qed.
Lemma oth_drop_listener id s : oth s (drop_listener E0 id s).
Proof. unfold drop_listener. cbn [gete]. destruct (ev_drop id (se0 s)) as [l ws]. oth_triv ws. Qed.
Lemma oth_drop_listener_opt o s : oth s (drop_listener_opt E0 o s).
Proof. destruct o; [apply oth_drop_listener | apply oth_refl]. Qed.

Lemma oth_try_lock s : oth s (fst (try_lock W0 s)).
Proof. unfold try_lock. pose proof (oth_cas 0 1 s) as H. destruct (cas W0 0 1 s). exact H. Qed.
Lemma oth_unlock s : oth s (unlock W0 E0 s).
Proof. unfold unlock. pose proof (oth_fetch_sub 1 s) as H. destruct (fetch_sub W0 1 s) as [s1 p]. cbn [fst] in H. eapply oth_trans; [exact H | apply oth_notify]. Qed.
Lemma oth_take_mutex a s : oth s (snd (take_mutex W0 a s)).
Proof. unfold take_mutex. destruct (a_mutex a && a_starved a); cbn [snd]; [apply oth_fetch_sub | apply oth_refl]. Qed.

Definition lres_sh (r : lres) : sh := match r with LReady _ s | LPending _ s | LBreak _ s | LFuel _ s => s end.

Ltac step_oth H := eapply oth_trans; [exact H|].

Lemma oth_unstarved fuel w : forall a s, oth s (lres_sh (unstarved W0 E0 fuel w a s)).
Proof.
  induction fuel as [|fuel IH]; intros a s; cbn [unstarved]; [apply oth_refl|].
  destruct (a_lis a) as [id|].
  - pose proof (oth_poll_listener id w s) as H1. destruct (poll_listener E0 id w s) as [s1 r]. cbn [fst] in H1.
    destruct r; cbn [negb]; [|exact H1].
    pose proof (oth_cas 0 1 s1) as H2. destruct (cas W0 0 1 s1) as [s2 prev]. cbn [fst] in H2.
    destruct (prev =? 0).
    + pose proof (oth_take_mutex (set_lis None a) s2) as H3. destruct (take_mutex W0 (set_lis None a) s2) as [a' s3]. cbn [snd lres_sh] in *.
      eapply oth_trans; [exact H1|]. eapply oth_trans; [exact H2 | exact H3].
    + destruct (prev =? 1).
      * pose proof (oth_oracle s2) as H3. destruct (oracle s2) as [s3 b]. cbn [fst] in H3. destruct b; cbn [lres_sh].
        -- eapply oth_trans; [exact H1|]. eapply oth_trans; [exact H2 | exact H3].
        -- eapply oth_trans; [exact H1|]. eapply oth_trans; [exact H2|]. eapply oth_trans; [exact H3 | apply IH].
      * cbn [lres_sh]. eapply oth_trans; [exact H1|]. eapply oth_trans; [exact H2 | apply oth_notify].
  - pose proof (oth_listen s) as H1. destruct (listen E0 s) as [s1 id]. cbn [fst] in H1.
    pose proof (oth_cas 0 1 s1) as H2. destruct (cas W0 0 1 s1) as [s2 prev]. cbn [fst] in H2.
    destruct (prev =? 0).
    + pose proof (oth_take_mutex (set_lis None (set_lis (Some id) a)) (drop_listener E0 id s2)) as H3.
      destruct (take_mutex W0 (set_lis None (set_lis (Some id) a)) (drop_listener E0 id s2)) as [a' s3]. cbn [snd lres_sh] in *.
      eapply oth_trans; [exact H1|]. eapply oth_trans; [exact H2|]. eapply oth_trans; [apply oth_drop_listener | exact H3].
    + destruct (prev =? 1); cbn [lres_sh].
      * eapply oth_trans; [exact H1|]. eapply oth_trans; [exact H2 | apply IH].
      * eapply oth_trans; [exact H1 | exact H2].
Qed.

Lemma oth_starved fuel w : forall a s, oth s (lres_sh (starved_loop W0 E0 fuel w a s)).
Proof.
  induction fuel as [|fuel IH]; intros a s; cbn [starved_loop]; [apply oth_refl|].
  destruct (a_lis a) as [id|].
  - pose proof (oth_poll_listener id w s) as H1. destruct (poll_listener E0 id w s) as [s1 r]. cbn [fst] in H1.
    destruct r; cbn [negb]; [|exact H1].
    pose proof (oth_fetch_or 1 s1) as H2. destruct (fetch_or W0 1 s1) as [s2 prev]. cbn [fst] in H2.
    destruct (prev mod 2 =? 0).
    + pose proof (oth_take_mutex (set_lis None a) s2) as H3. destruct (take_mutex W0 (set_lis None a) s2) as [a' s3]. cbn [snd lres_sh] in *.
      eapply oth_trans; [exact H1|]. eapply oth_trans; [exact H2 | exact H3].
    + eapply oth_trans; [exact H1|]. eapply oth_trans; [exact H2 | apply IH].
  - pose proof (oth_listen s) as H1. destruct (listen E0 s) as [s1 id]. cbn [fst] in H1.
    pose proof (oth_cas 2 3 s1) as H2. destruct (cas W0 2 3 s1) as [s2 prev]. cbn [fst] in H2.
    destruct (prev =? 2).
    + pose proof (oth_take_mutex (set_lis None (set_lis (Some id) a)) (drop_listener E0 id s2)) as H3.
      destruct (take_mutex W0 (set_lis None (set_lis (Some id) a)) (drop_listener E0 id s2)) as [a' s3]. cbn [snd lres_sh] in *.
      eapply oth_trans; [exact H1|]. eapply oth_trans; [exact H2|]. eapply oth_trans; [apply oth_drop_listener | exact H3].
    + destruct (prev mod 2 =? 1).
      * eapply oth_trans; [exact H1|]. eapply oth_trans; [exact H2 | apply IH].
      * eapply oth_trans; [exact H1|]. eapply oth_trans; [exact H2|]. eapply oth_trans; [apply oth_notify | apply IH].
Qed.

Lemma oth_acq_poll w a s : oth s (snd (fst (acq_poll W0 E0 w a s))).
Proof.
  unfold acq_poll. destruct (negb (a_mutex a)); [cbn; apply oth_set_err|].
  assert (GS : forall a0 s0, oth s0 (snd (fst (match starved_loop W0 E0 FUEL w a0 s0 with
                | LReady a1 s1 => (a1, s1, true) | LPending a1 s1 => (a1, s1, false)
                | LBreak a1 s1 | LFuel a1 s1 => (a1, set_err s1, false) end)))).
  { intros a0 s0. pose proof (oth_starved FUEL w a0 s0) as H. destruct (starved_loop W0 E0 FUEL w a0 s0); cbn [lres_sh fst snd] in *; try exact H;
      (eapply oth_trans; [exact H | apply oth_set_err]). }
  destruct (a_starved a); [apply GS|].
  pose proof (oth_unstarved FUEL w a s) as H. destruct (unstarved W0 E0 FUEL w a s) as [a1 s1|a1 s1|a1 s1|a1 s1]; cbn [lres_sh fst snd] in *; try exact H.
  - pose proof (oth_fetch_add 2 s1) as H2. destruct (fetch_add W0 2 s1) as [s2 prev]. cbn [fst] in H2.
    eapply oth_trans; [exact H|]. eapply oth_trans; [exact H2|].
    destruct (usize_max / 2 <? prev); [eapply oth_trans; [apply oth_set_err | apply GS] | apply GS].
  - eapply oth_trans; [exact H | apply oth_set_err].
Qed.

Lemma oth_lock_poll w l s : oth s (snd (fst (lock_poll W0 E0 w l s))).
Proof.
  unfold lock_poll. destruct l as [a|].
  - pose proof (oth_acq_poll w a s) as H. destruct (acq_poll W0 E0 w a s) as [[a' s'] r]. exact H.
  - pose proof (oth_try_lock s) as H. destruct (try_lock W0 s) as [s1 ok]. cbn [fst] in H. destruct ok; [exact H|].
    pose proof (oth_acq_poll w (acq_new) s1) as H2. destruct (acq_poll W0 E0 w acq_new s1) as [[a' s'] r]. cbn [fst snd] in *.
    eapply oth_trans; [exact H | exact H2].
Qed.

Lemma oth_lock_drop l s : oth s (lock_drop W0 E0 l s).
Proof.
  unfold lock_drop. destruct l as [a|]; [|apply oth_refl]. unfold acq_drop.
  pose proof (oth_take_mutex a s) as H. destruct (take_mutex W0 a s) as [a' s1]. cbn [snd] in H.
  eapply oth_trans; [exact H | apply oth_drop_listener_opt].
Qed.
