(* OnceDrops.v — C04, last clause: every payload value that comes into existence around a OnceCell is dropped exactly
   once or is still owned by somebody — for every history.
   A payload comes into existence when a `set(v)` future is created (its argument) and when the closure of a
   get_or_init / get_or_try_init produces the value that gets stored. It is owned by the cell while the cell is
   initialised, or by a `set` future that has not finished (its argument). The model counts the drops ([o_drops]: a value
   handed back by `set`, the argument of a cancelled `set`, `take`, the drop of an initialised cell). Accounting:
       drops so far + payloads owned now = payloads made so far,
   so nothing is dropped twice and nothing is lost; when the cell has been dropped (or emptied by take) and no `set`
   future is pending, every payload made has been dropped exactly once. *)
From AL Require Import Base Api OnceApi BaseFacts ApiFacts EventFacts OnceInv.
From Coq Require Import Lia.

Definition b2N (b : bool) : N := if b then 1 else 0.
Definition cell_owed (x : oworld) : N := b2N (o_alive x && (sw0 (o_sh x) =? ST_INIT)).
Definition owns_arg (f : ofut) : N :=
  match of_st f with
  | OFInit (IKSet _) ist _ => match ist with IFin => 0 | _ => 1 end
  | _ => 0
  end.
Definition args_owed (x : oworld) : N := asum owns_arg (o_futs x).
Definition owed (x : oworld) : N := cell_owed x + args_owed x.

(* payloads made by one operation: the argument of a new set future; the value a closure of another kind produced and
   that got stored (read off the step: the cell becomes initialised by the poll of a future that is not a `set`) *)
Definition made_by (x : oworld) (o : oop) : N :=
  let x' := fst (ostep x o) in
  match o with
  | OStartInit (IKSet _) => b2N (o_alive x)
  | OPoll f _ =>
      match alookup f (o_futs x) with
      | Some (mkOfut (OFInit (IKSet _) _ _) _) => 0
      | Some (mkOfut (OFInit _ _ _) _) => b2N ((cell_owed x =? 0) && (cell_owed x' =? 1))
      | _ => 0
      end
  | _ => 0
  end.
Fixpoint made (x : oworld) (ops : list oop) : N :=
  match ops with [] => 0 | o :: r => made_by x o + made (fst (ostep x o)) r end.

Definition cellst (s : sh) : N := b2N (sw0 s =? ST_INIT).

Ltac acct_triv := repeat split; try reflexivity; try (cbn; lia); try (let H := fresh in intro H; discriminate H).
Lemma cas_ok w0 e n s : getw w0 s = e -> cas w0 e n s = (setw w0 n s, e).
Proof. intro H. unfold cas. rewrite H, N.eqb_refl. reflexivity. Qed.

(* ---------- the pieces of a poll ---------- *)
Definition ranof (ir : ires) : bool := match ir with IRDone _ true => true | _ => false end.

Lemma sw0_dlo o s : sw0 (drop_listener_opt E0 o s) = sw0 s.
Proof. apply sw0_drop_listener_opt. Qed.

(* init_finish, entered with the state Initializing *)
Lemma init_finish_acct k r el x : sw0 (o_sh x) = 1 ->
  let '(x', ir) := init_finish k r el x in
  o_drops x' = o_drops x /\ o_futs x' = o_futs x /\ o_alive x' = o_alive x /\
  cellst (o_sh x') = cellst (o_sh x) + b2N (ranof ir) /\ cellst (o_sh x) = 0.
Proof.
  intro S1. unfold init_finish. destruct r as [v|e|]; cbn [fst snd]; unfold cellst;
    cbn [o_drops o_futs o_alive o_sh o_upd o_note_init ranof]; rewrite ?sw0_dlo; unfold guard_drop; rewrite ?sw0_notify; cbn [store sw0 setw]; rewrite S1; cbn; repeat split; reflexivity.
Qed.

Lemma init_loop_acct fuel : forall w k gate el x,
  let '(x', ir) := init_loop fuel w k gate el x in
  o_drops x' = o_drops x /\ o_futs x' = o_futs x /\ o_alive x' = o_alive x /\
  cellst (o_sh x') = cellst (o_sh x) + b2N (ranof ir) /\ (ranof ir = true -> cellst (o_sh x) = 0).
Proof.
  induction fuel as [|fuel IH]; intros w k gate el x.
  - cbn [init_loop]. cbn [o_drops o_futs o_alive o_sh o_upd ranof]. unfold cellst. cbn [set_err sw0]. acct_triv.
  - rewrite iloop_S. cbv zeta. change (getw W0 (o_sh x)) with (sw0 (o_sh x)).
    destruct (sw0 (o_sh x) =? ST_INIT) eqn:E2.
    + cbn [o_drops o_futs o_alive o_sh o_upd ranof]. unfold cellst. rewrite sw0_dlo. acct_triv.
    + destruct (sw0 (o_sh x) =? ST_INITING) eqn:E1.
      * destruct el as [id|].
        -- destruct (poll_listener E0 id w (o_sh x)) as [s r] eqn:Q.
           assert (S : sw0 s = sw0 (o_sh x)) by (replace s with (fst (poll_listener E0 id w (o_sh x))) by (rewrite Q; reflexivity); apply sw0_poll_listener).
           destruct r.
           ++ specialize (IH w k gate None (o_upd x s (o_value x) (o_futs x))). destruct (init_loop fuel w k gate None (o_upd x s (o_value x) (o_futs x))) as [x' ir].
              cbn [o_drops o_futs o_alive o_sh o_upd] in IH. unfold cellst in *. rewrite S in IH. exact IH.
           ++ cbn [o_drops o_futs o_alive o_sh o_upd ranof]. unfold cellst. rewrite S. acct_triv.
        -- destruct (listen E0 (o_sh x)) as [s id] eqn:Q.
           assert (S : sw0 s = sw0 (o_sh x)) by (replace s with (fst (listen E0 (o_sh x))) by (rewrite Q; reflexivity); apply sw0_listen).
           specialize (IH w k gate (Some id) (o_upd x s (o_value x) (o_futs x))). destruct (init_loop fuel w k gate (Some id) (o_upd x s (o_value x) (o_futs x))) as [x' ir].
           cbn [o_drops o_futs o_alive o_sh o_upd] in IH. unfold cellst in *. rewrite S in IH. exact IH.
      * destruct (sw0 (o_sh x) =? ST_UNINIT) eqn:E0.
        -- apply N.eqb_eq in E0. unfold ST_UNINIT in E0.
           rewrite (cas_ok W0 ST_UNINIT ST_INITING (o_sh x)) by exact E0. change (ST_UNINIT =? ST_UNINIT) with true. cbn [negb].
           set (x1 := o_note_start (o_upd x (setw W0 ST_INITING (o_sh x)) (o_value x) (o_futs x))).
           assert (S1 : sw0 (o_sh x1) = 1) by reflexivity.
           assert (C0 : cellst (o_sh x) = 0) by (unfold cellst; rewrite E0; reflexivity).
           assert (FIN : forall r, let '(x', ir) := init_finish k r el x1 in
                     o_drops x' = o_drops x /\ o_futs x' = o_futs x /\ o_alive x' = o_alive x /\
                     cellst (o_sh x') = cellst (o_sh x) + b2N (ranof ir) /\ (ranof ir = true -> cellst (o_sh x) = 0)).
           { intro r. pose proof (init_finish_acct k r el x1 S1) as F. destruct (init_finish k r el x1) as [x' ir].
             destruct F as (F1 & F2 & F3 & F4 & F5). rewrite C0. rewrite F5 in F4. repeat split; auto. }
           destruct k as [| |v]; [destruct gate as [r|] | destruct gate as [r|] | ]; try apply FIN;
             cbn [o_drops o_futs o_alive o_sh x1 o_note_start o_upd ranof]; unfold cellst; cbn [setw sw0]; rewrite E0; cbn; acct_triv.
        -- cbn [o_drops o_futs o_alive o_sh o_upd ranof]. unfold cellst. cbn [set_err sw0]. acct_triv.
Qed.

(* a future that runs its closure exists only while the state is Initializing *)
Definition RunOK (x : oworld) : Prop := nrun x = (if sw0 (o_sh x) =? 1 then 1 else 0).
Lemma running_state x fid k el gate m : RunOK x -> alookup fid (o_futs x) = Some (mkOfut (OFInit k (IRunning el) gate) m) -> sw0 (o_sh x) = 1.
Proof.
  intros I L. pose proof I as R. unfold RunOK in R. pose proof (alookup_In _ _ _ L) as Hin.
  pose proof (asum_In running _ _ _ Hin) as G. unfold nrun in R. cbn [running of_st] in G.
  destruct (sw0 (o_sh x) =? 1) eqn:Q; [apply N.eqb_eq in Q; exact Q | lia].
Qed.

Lemma init_poll_acct w k ist gate x : (forall el, ist = IRunning el -> sw0 (o_sh x) = 1) ->
  let '(x', ir) := init_poll w k ist gate x in
  o_drops x' = o_drops x /\ o_futs x' = o_futs x /\ o_alive x' = o_alive x /\
  cellst (o_sh x') = cellst (o_sh x) + b2N (ranof ir) /\ (ranof ir = true -> cellst (o_sh x) = 0).
Proof.
  intro RS. unfold init_poll. destruct ist as [|id|el|].
  - change (getw W0 (o_sh x)) with (sw0 (o_sh x)). destruct (sw0 (o_sh x) =? ST_INIT).
    + cbn [ranof b2N]. acct_triv.
    + apply init_loop_acct.
  - destruct (poll_listener E0 id w (o_sh x)) as [s r] eqn:Q.
    assert (S : sw0 s = sw0 (o_sh x)) by (replace s with (fst (poll_listener E0 id w (o_sh x))) by (rewrite Q; reflexivity); apply sw0_poll_listener).
    destruct r.
    + pose proof (init_loop_acct OFUEL w k gate None (o_upd x s (o_value x) (o_futs x))) as IH.
      destruct (init_loop OFUEL w k gate None (o_upd x s (o_value x) (o_futs x))) as [x' ir].
      cbn [o_drops o_futs o_alive o_sh o_upd] in IH. unfold cellst in *. rewrite S in IH. exact IH.
    + cbn [o_drops o_futs o_alive o_sh o_upd ranof]. unfold cellst. rewrite S. acct_triv.
  - destruct gate as [r|].
    + pose proof (init_finish_acct k r el x (RS el eq_refl)) as F. destruct (init_finish k r el x) as [x' ir].
      destruct F as (F1 & F2 & F3 & F4 & F5). repeat split; auto.
    + cbn [ranof b2N]. acct_triv.
  - cbn [o_drops o_futs o_alive o_sh o_upd ranof]. unfold cellst. cbn [set_err sw0]. acct_triv.
Qed.

Lemma init_loop_pend fuel : forall w k gate el x st, snd (init_loop fuel w k gate el x) = IRPending st -> st <> IFin.
Proof.
  induction fuel as [|fuel IH]; intros w k gate el x st; [cbn [init_loop snd]; intro H; inversion H; discriminate|].
  rewrite iloop_S. cbv zeta. destruct (getw W0 (o_sh x) =? ST_INIT); [cbn; discriminate|].
  destruct (getw W0 (o_sh x) =? ST_INITING).
  - destruct el as [id|].
    + destruct (poll_listener E0 id w (o_sh x)) as [s r]. destruct r; [apply IH | cbn; intro H; inversion H; discriminate].
    + destruct (listen E0 (o_sh x)) as [s id]. apply IH.
  - destruct (getw W0 (o_sh x) =? ST_UNINIT); [|cbn; intro H; inversion H; discriminate].
    destruct (cas W0 ST_UNINIT ST_INITING (o_sh x)) as [s prev]. destruct (negb (prev =? ST_UNINIT)); [apply IH|].
    assert (F : forall r x1, snd (init_finish k r el x1) = IRPending st -> st <> IFin) by (intros r x1; unfold init_finish; destruct r; cbn; discriminate).
    destruct k as [| |v]; [destruct gate | destruct gate |]; try apply F; cbn; intro H; inversion H; discriminate.
Qed.
Lemma init_poll_pend w k ist gate x st : snd (init_poll w k ist gate x) = IRPending st -> (st = IFin <-> ist = IFin).
Proof.
  unfold init_poll. destruct ist as [|id|el|].
  - destruct (getw W0 (o_sh x) =? ST_INIT); [cbn; discriminate|]. intro H. apply init_loop_pend in H. split; [contradiction | discriminate].
  - destruct (poll_listener E0 id w (o_sh x)) as [s r]. destruct r.
    + intro H. apply init_loop_pend in H. split; [contradiction | discriminate].
    + cbn. intro H. inversion H. split; discriminate.
  - destruct gate as [r|].
    + unfold init_finish. destruct r; cbn; discriminate.
    + cbn. intro H. inversion H. split; discriminate.
  - cbn. intro H. inversion H. split; reflexivity.
Qed.
Lemma init_poll_done w k gate x r ran : snd (init_poll w k IFin gate x) <> IRDone r ran.
Proof. cbn. discriminate. Qed.

Lemma nocontr c : (c =? 0) && (c =? 1) = false.
Proof. destruct (c =? 0) eqn:Q; [apply N.eqb_eq in Q; subst; reflexivity | reflexivity]. Qed.

Definition Phi (x : oworld) : N := N.of_nat (o_drops x) + owed x.

Lemma Phi_wake wk x : Phi (o_wake_all wk x) = Phi x.
Proof.
  unfold Phi, owed, cell_owed, args_owed, o_wake_all. cbn [o_drops o_alive o_sh o_futs o_upd].
  rewrite (asum_map owns_arg (fun f => mkOfut (of_st f) (meta_wake wk (of_meta f)))); [reflexivity|]. intro v. reflexivity.
Qed.
Lemma cell_wake wk x : cell_owed (o_wake_all wk x) = cell_owed x.
Proof. reflexivity. Qed.

Lemma step_core_acct x o : RunOK x ->
  let x1 := fst (ostep_core x o) in
  Phi x1 = Phi x + match o with
                   | OStartInit (IKSet _) => b2N (o_alive x)
                   | OPoll f _ =>
                       match alookup f (o_futs x) with
                       | Some (mkOfut (OFInit (IKSet _) _ _) _) => 0
                       | Some (mkOfut (OFInit _ _ _) _) => b2N ((cell_owed x =? 0) && (cell_owed x1 =? 1))
                       | _ => 0
                       end
                   | _ => 0
                   end.
Proof.
  intro I. unfold ostep_core. destruct (o_alive x) eqn:AL; cbn [negb].
  2:{ cbn [fst]. assert (C : cell_owed x = 0) by (unfold cell_owed; rewrite AL; reflexivity).
      destruct o as [|k|f kk|f r|f| | |]; try lia.
      - destruct k; rewrite ?AL; cbn; lia.
      - destruct (alookup f (o_futs x)) as [[[st|k ist gate] m]|]; try lia. destruct k; try lia; rewrite C; replace (0 =? 1) with false by reflexivity; rewrite Bool.andb_false_r; unfold b2N; lia. }
  destruct o as [|k|fid kk|fid r|fid| | |].
  - (* OStartWait *) cbn [fst]. unfold Phi, owed, cell_owed, args_owed. cbn [o_drops o_alive o_sh o_futs]. rewrite asum_app. cbn [asum owns_arg of_st snd]. rewrite AL. lia.
  - (* OStartInit *) cbn [fst]. unfold Phi, owed, cell_owed, args_owed. cbn [o_drops o_alive o_sh o_futs]. rewrite asum_app. cbn [asum owns_arg of_st snd]. rewrite AL.
    destruct k; cbn [b2N]; lia.
  - (* OPoll *)
    destruct (alookup fid (o_futs x)) as [f|] eqn:L; [|cbn [fst]; lia].
    destruct (fstatus_eqb (fm_st (of_meta f)) FDone || Nat.leb 4 kk) eqn:V.
    { cbn [fst]. destruct f as [[st|[| |v] ist gate] m]; try lia; rewrite nocontr; cbn [b2N]; lia. }
    destruct f as [st m]. cbn [of_st of_meta] in *.
    destruct st as [ws|k ist gate].
    + (* a wait() future: the passive event only *)
      assert (G : forall st' (y : oworld) (r : res), o_drops y = o_drops x -> o_alive y = o_alive x -> sw0 (o_sh y) = sw0 (o_sh x) -> o_futs y = o_futs x ->
                  forall md, Phi (fst (o_upd y (o_sh y) (o_value y) (aupdate fid (mkOfut (OFWait st') md) (o_futs y)), r)) = Phi x + 0).
      { intros st' y r D A S F md. cbn [fst]. unfold Phi, owed, cell_owed, args_owed. cbn [o_drops o_alive o_sh o_futs o_upd]. rewrite D, A, S, F.
        pose proof (asum_aupdate owns_arg fid (mkOfut (OFWait ws) m) (mkOfut (OFWait st') md) _ L) as U. cbn [owns_arg of_st] in U. lia. }
      destruct ws as [|id|].
      * change (getw W0 (o_sh x)) with (sw0 (o_sh x)). destruct (sw0 (o_sh x) =? ST_INIT); [apply G; reflexivity|].
        destruct (listen E1 (o_sh x)) as [s id] eqn:Q.
        assert (S : sw0 s = sw0 (o_sh x)) by (replace s with (fst (listen E1 (o_sh x))) by (rewrite Q; reflexivity); apply sw0_listen).
        change (getw W0 s) with (sw0 s). destruct (sw0 s =? ST_INIT).
        -- apply G; cbn [o_drops o_alive o_sh o_futs o_upd]; try reflexivity. rewrite sw0_drop_listener. exact S.
        -- destruct (poll_listener E1 id (wtag fid kk) s) as [s2 r] eqn:Q2.
           assert (S2 : sw0 s2 = sw0 s) by (replace s2 with (fst (poll_listener E1 id (wtag fid kk) s)) by (rewrite Q2; reflexivity); apply sw0_poll_listener).
           destruct r; apply G; cbn [o_drops o_alive o_sh o_futs o_upd]; try reflexivity; congruence.
      * destruct (poll_listener E1 id (wtag fid kk) (o_sh x)) as [s r] eqn:Q.
        assert (S : sw0 s = sw0 (o_sh x)) by (replace s with (fst (poll_listener E1 id (wtag fid kk) (o_sh x))) by (rewrite Q; reflexivity); apply sw0_poll_listener).
        assert (S' : sw0 (if r && negb (getw W0 s =? ST_INIT) then set_err s else s) = sw0 (o_sh x)) by (destruct (r && negb (getw W0 s =? ST_INIT)); [cbn [set_err sw0]|]; exact S).
        destruct r; apply G; cbn [o_drops o_alive o_sh o_futs o_upd]; try reflexivity; exact S'.
      * cbn [fst]. lia.
    + (* an initialising future *)
      assert (RS : forall el, ist = IRunning el -> sw0 (o_sh x) = 1) by (intros el ->; apply (running_state x fid k el gate m I L)).
      pose proof (init_poll_acct (wtag fid kk) k ist gate x RS) as A.
      pose proof (init_poll_pend (wtag fid kk) k ist gate x) as PE.
      destruct (init_poll (wtag fid kk) k ist gate x) as [y ir] eqn:Q. cbn [snd] in PE.
      destruct A as (A1 & A2 & A3 & A4 & A5).
      assert (CX : cell_owed x = cellst (o_sh x)) by (unfold cell_owed, cellst; rewrite AL; reflexivity).
      assert (CY : forall z, o_alive z = o_alive y -> sw0 (o_sh z) = sw0 (o_sh y) -> cell_owed z = cellst (o_sh y)) by (intros z Az Sz; unfold cell_owed, cellst; rewrite Az, A3, AL, Sz; reflexivity).
      destruct ir as [ist'|r ran].
      * (* still pending *)
        cbn [fst]. specialize (PE ist' eq_refl).
        set (z := o_upd y (o_sh y) (o_value y) (aupdate fid (mkOfut (OFInit k ist' gate) (mkMeta FPending (Some (wtag fid kk)) false)) (o_futs y))).
        assert (CZ : cell_owed z = cellst (o_sh y)) by (apply CY; reflexivity).
        unfold Phi, owed, args_owed. rewrite CZ, CX. cbn [z o_drops o_futs o_upd]. rewrite A1, A2.
        pose proof (asum_aupdate owns_arg fid (mkOfut (OFInit k ist gate) m) (mkOfut (OFInit k ist' gate) (mkMeta FPending (Some (wtag fid kk)) false)) _ L) as U.
        cbn [owns_arg of_st] in U. cbn [ranof b2N] in A4. rewrite A4.
        assert (SAME : (match k with IKSet _ => match ist' with IFin => 0 | _ => 1 end | _ => 0 end) = (match k with IKSet _ => match ist with IFin => 0 | _ => 1 end | _ => 0 end)).
        { destruct k; try reflexivity. destruct ist', ist; try reflexivity; exfalso; (apply (proj1 PE eq_refl) || apply (proj2 PE eq_refl) || (pose proof (proj1 PE eq_refl); discriminate) || (pose proof (proj2 PE eq_refl); discriminate)). }
        destruct k as [| |v]; try (rewrite N.add_0_r, nocontr; cbn [b2N]; lia).
        lia.
      * (* completed *)
        assert (NF : ist <> IFin) by (intros ->; rewrite (surjective_pairing (init_poll (wtag fid kk) k IFin gate x)) in Q; cbn in Q; inversion Q).
        destruct k as [| |v].
        -- cbn [fst].
           set (z := o_upd y (o_sh y) (o_value y) (aupdate fid (mkOfut (OFInit IKTry IFin gate) (mkMeta FDone (Some (wtag fid kk)) false)) (o_futs y))).
           assert (CZ : cell_owed z = cellst (o_sh y)) by (apply CY; reflexivity).
           unfold Phi, owed, args_owed. rewrite CZ, CX. cbn [z o_drops o_futs o_upd]. rewrite A1, A2.
           pose proof (asum_aupdate owns_arg fid (mkOfut (OFInit IKTry ist gate) m) (mkOfut (OFInit IKTry IFin gate) (mkMeta FDone (Some (wtag fid kk)) false)) _ L) as U.
           cbn [owns_arg of_st] in U. rewrite A4. destruct ran; cbn [ranof b2N] in *.
           ++ rewrite (A5 eq_refl). cbn [N.add]. replace (0 =? 0) with true by reflexivity. replace (0 + 1 =? 1) with true by reflexivity. cbn [andb b2N]. lia.
           ++ rewrite N.add_0_r, nocontr. cbn [b2N]. lia.
        -- cbn [fst].
           set (z := o_upd y (o_sh y) (o_value y) (aupdate fid (mkOfut (OFInit IKInit IFin gate) (mkMeta FDone (Some (wtag fid kk)) false)) (o_futs y))).
           assert (CZ : cell_owed z = cellst (o_sh y)) by (apply CY; reflexivity).
           unfold Phi, owed, args_owed. rewrite CZ, CX. cbn [z o_drops o_futs o_upd]. rewrite A1, A2.
           pose proof (asum_aupdate owns_arg fid (mkOfut (OFInit IKInit ist gate) m) (mkOfut (OFInit IKInit IFin gate) (mkMeta FDone (Some (wtag fid kk)) false)) _ L) as U.
           cbn [owns_arg of_st] in U. rewrite A4. destruct ran; cbn [ranof b2N] in *.
           ++ rewrite (A5 eq_refl). cbn [N.add]. replace (0 =? 0) with true by reflexivity. replace (0 + 1 =? 1) with true by reflexivity. cbn [andb b2N]. lia.
           ++ rewrite N.add_0_r, nocontr. cbn [b2N]. lia.
        -- (* set *)
           pose proof (asum_aupdate owns_arg fid (mkOfut (OFInit (IKSet v) ist gate) m) (mkOfut (OFInit (IKSet v) IFin gate) (mkMeta FDone (Some (wtag fid kk)) false)) _ L) as U.
           cbn [owns_arg of_st] in U. assert (O1 : (match ist with IFin => 0 | _ => 1 end) = 1) by (destruct ist; try reflexivity; contradiction). rewrite O1 in U.
           destruct ran; cbn [fst ranof b2N] in *.
           ++ set (z := o_upd y (o_sh y) (o_value y) (aupdate fid (mkOfut (OFInit (IKSet v) IFin gate) (mkMeta FDone (Some (wtag fid kk)) false)) (o_futs y))).
              assert (CZ : cell_owed z = cellst (o_sh y)) by (apply CY; reflexivity).
              unfold Phi, owed, args_owed. rewrite CZ, CX. cbn [z o_drops o_futs o_upd]. rewrite A1, A2, A4. lia.
           ++ set (z := o_upd (o_add_drop y) (o_sh (o_add_drop y)) (o_value (o_add_drop y)) (aupdate fid (mkOfut (OFInit (IKSet v) IFin gate) (mkMeta FDone (Some (wtag fid kk)) false)) (o_futs (o_add_drop y)))).
              assert (CZ : cell_owed z = cellst (o_sh y)) by (apply CY; reflexivity).
              unfold Phi, owed, args_owed. rewrite CZ, CX. cbn [z o_drops o_futs o_upd o_add_drop]. rewrite A1, A2, A4. lia.
  - (* OResolve *)
    destruct (alookup fid (o_futs x)) as [[[ws|k ist [r0|]] m]|] eqn:L; try (cbn [fst]; lia).
    destruct ((match k, r with IKSet _, _ => false | IKInit, OErr _ => false | _, _ => true end) && match ist with IFin => false | _ => true end); [|cbn [fst]; lia].
    cbn [fst]. unfold Phi, owed, cell_owed, args_owed. cbn [o_drops o_alive o_sh o_futs o_upd].
    pose proof (asum_aupdate owns_arg fid (mkOfut (OFInit k ist None) m) (mkOfut (OFInit k ist (Some r)) m) _ L) as U. cbn [owns_arg of_st] in U.
    assert (S : sw0 (match ist, fm_w m with IRunning _, Some w => set_wk (swk (o_sh x) ++ [w]) (o_sh x) | _, _ => o_sh x end) = sw0 (o_sh x)) by (destruct ist, (fm_w m); reflexivity).
    rewrite S. lia.
  - (* ODropFut *)
    destruct (alookup fid (o_futs x)) as [f|] eqn:L; [|cbn [fst]; lia]. cbn [fst].
    pose proof (asum_aremove owns_arg fid f _ L) as U.
    destruct f as [[ws|k ist gate] m]; cbn [of_st ofut_drop].
    + assert (G : forall y, o_drops y = o_drops x -> o_alive y = o_alive x -> sw0 (o_sh y) = sw0 (o_sh x) -> o_futs y = o_futs x ->
                Phi (o_upd y (o_sh y) (o_value y) (aremove fid (o_futs y))) = Phi x + 0).
      { intros y D A S F. unfold Phi, owed, cell_owed, args_owed. cbn [o_drops o_alive o_sh o_futs o_upd]. rewrite D, A, S, F. cbn [owns_arg of_st] in U. lia. }
      destruct ws as [|id|]; apply G; cbn [o_drops o_alive o_sh o_futs o_upd]; try reflexivity. apply sw0_drop_listener.
    + (* an init future *)
      set (y := match ist with
                | IWait id => o_upd x (drop_listener E0 id (o_sh x)) (o_value x) (o_futs x)
                | IRunning el => o_upd x (drop_listener_opt E0 el (guard_drop (o_sh x))) (o_value x) (o_futs x)
                | _ => x end).
      assert (Y : o_drops y = o_drops x /\ o_alive y = o_alive x /\ o_futs y = o_futs x /\ cellst (o_sh y) = cellst (o_sh x)).
      { unfold y. destruct ist as [|id|el|]; cbn [o_drops o_alive o_sh o_futs o_upd]; repeat split; try reflexivity.
        - unfold cellst. rewrite sw0_drop_listener. reflexivity.
        - pose proof (running_state x fid k el gate m I L) as S1. unfold cellst. rewrite sw0_dlo. unfold guard_drop. rewrite sw0_notify. cbn [store sw0 setw]. rewrite S1. reflexivity. }
      destruct Y as (Y1 & Y2 & Y3 & Y4).
      assert (FIN : forall z, o_drops z = (o_drops y + (match k, ist with IKSet _, IFin => 0 | IKSet _, _ => 1 | _, _ => 0 end))%nat -> o_alive z = o_alive y -> o_sh z = o_sh y -> o_futs z = o_futs y ->
                Phi (o_upd z (o_sh z) (o_value z) (aremove fid (o_futs z))) = Phi x + 0).
      { intros z D A S F. unfold Phi, owed, cell_owed, args_owed. cbn [o_drops o_alive o_sh o_futs o_upd]. rewrite D, A, S, F, Y1, Y2, Y3.
        change (b2N (o_alive x && (sw0 (o_sh y) =? ST_INIT))) with (b2N (o_alive x && (sw0 (o_sh y) =? ST_INIT))).
        unfold cellst in Y4. rewrite AL in *. cbn [andb]. rewrite Y4. cbn [owns_arg of_st] in U. destruct k as [| |v]; try lia. destruct ist; lia. }
      destruct k as [| |v]; try (apply FIN; try reflexivity; lia).
      destruct ist; apply FIN; cbn [o_add_drop o_drops o_alive o_sh o_futs]; try reflexivity; lia.
  - (* OGet *) change (getw W0 (o_sh x)) with (sw0 (o_sh x)). destruct (sw0 (o_sh x) =? ST_INIT); cbn [fst]; lia.
  - (* OTake *)
    destruct (o_futs x) as [|p l] eqn:F; [|cbn [fst]; lia]. change (getw W0 (o_sh x)) with (sw0 (o_sh x)).
    destruct (sw0 (o_sh x) =? ST_INIT) eqn:S2; cbn [fst]; [|lia].
    unfold Phi, owed, cell_owed, args_owed. cbn [o_drops o_alive o_sh o_futs store sw0 setw]. rewrite F, AL, S2. change (ST_UNINIT =? ST_INIT) with false. cbn [asum andb b2N]. lia.
  - (* ODropCell *)
    destruct (o_futs x) as [|p l] eqn:F; [|cbn [fst]; lia]. cbn [fst]. change (getw W0 (o_sh x)) with (sw0 (o_sh x)).
    unfold Phi, owed, cell_owed, args_owed. cbn [o_drops o_alive o_sh o_futs]. rewrite F, AL. destruct (sw0 (o_sh x) =? ST_INIT); cbn [asum andb b2N]; lia.
Qed.

Lemma step_acct x o : OInv x -> Phi (fst (ostep x o)) = Phi x + made_by x o.
Proof.
  intro I. unfold made_by. unfold ostep.
  set (x0 := o_upd x (set_wk [] (o_sh x)) (o_value x) (o_futs x)).
  assert (R0 : RunOK x0) by (unfold RunOK, x0; cbn [o_sh o_upd]; exact (oi_run _ _ I)).
  pose proof (step_core_acct x0 o R0) as A. destruct (ostep_core x0 o) as [x1 r] eqn:Q. cbn [fst] in *.
  rewrite Phi_wake. rewrite cell_wake.
  assert (P0 : Phi x0 = Phi x) by reflexivity. assert (C0 : cell_owed x0 = cell_owed x) by reflexivity.
  assert (F0 : o_futs x0 = o_futs x) by reflexivity. assert (A0 : o_alive x0 = o_alive x) by reflexivity.
  rewrite P0, C0, F0, A0 in A. exact A.
Qed.

(* ---------- C04, last clause ---------- *)
Lemma acct_gen ops : forall x, OInv x -> N.of_nat (snid (o_sh x)) + N.of_nat (length ops) < usize_max ->
  Phi (fold_left (fun x o => fst (ostep x o)) ops x) = Phi x + made x ops.
Proof.
  induction ops as [|o ops IH]; intros x HX B; cbn [fold_left length made] in *; [lia|].
  assert (RM : oroom x) by (unfold oroom; clear - B; lia).
  destruct (ostep_ok x o HX RM) as (Q1 & Q2).
  rewrite IH; [|exact Q1 | clear - B Q2; lia]. rewrite (step_acct x o HX). lia.
Qed.

Lemma Phi_ow0 : Phi ow0 = 0.
Proof. reflexivity. Qed.
Lemma snid_ow0 : snid (o_sh ow0) = 0%nat.
Proof. reflexivity. Qed.

Lemma Phi_run ops : N.of_nat (length ops) < ONCE_BOUND -> Phi (orun ops) = made ow0 ops.
Proof.
  intro B. unfold orun. rewrite (acct_gen ops ow0 OInv_init).
  - rewrite Phi_ow0. apply N.add_0_l.
  - rewrite snid_ow0. unfold ONCE_BOUND in B. change usize_max with 18446744073709551615. change (N.of_nat 0) with 0. clear - B. lia.
Qed.

Theorem once_payload_accounting ops : N.of_nat (length ops) < ONCE_BOUND ->
  N.of_nat (o_drops (orun ops)) + owed (orun ops) = made ow0 ops.
Proof. intro B. rewrite <- (Phi_run ops B). reflexivity. Qed.

(* once the cell is gone (dropped, or emptied by take) and no set future is pending, every payload made has been dropped,
   exactly once *)
Corollary once_all_dropped ops : N.of_nat (length ops) < ONCE_BOUND ->
  owed (orun ops) = 0 -> N.of_nat (o_drops (orun ops)) = made ow0 ops.
Proof. intros B Z. pose proof (once_payload_accounting ops B). lia. Qed.

(* non-vacuity: a set that initialises, a set that is handed back, a closure value, a cancelled set, take, and the drop of
   the re-initialised cell: five payloads made, five dropped *)
Example once_drops_example :
  let ops := [OStartInit (IKSet 5); OStartInit (IKSet 6); OPoll 0 0; OPoll 1 0; OStartInit (IKSet 7); ODropFut 0; ODropFut 1; ODropFut 2;
              OTake; OStartInit IKInit; OResolve 3 (OOk 8); OPoll 3 0; OStartInit (IKSet 9); OPoll 4 0; ODropFut 3; ODropFut 4; ODropCell] in
  made ow0 ops = 5 /\ o_drops (orun ops) = 5%nat /\ owed (orun ops) = 0.
Proof. vm_compute. repeat split; reflexivity. Qed.
