(* Cancel.v — C10: with no guard alive and no acquisition pending (all cancelled, or completed and
   possibly still alive), the primitive carries no trace of the operations that were started. *)
From AL Require Import Base Api Mutex MutexApi Semaphore SemApi BaseFacts ApiFacts EventFacts MutexWord MutexInv MutexPaths LockLive MutexLive SemCount SemLive.

Definition m_no_pending (x : mworld) : Prop :=
  forall fid f, alookup fid (m_futs x) = Some f -> fm_st (mf_meta f) <> FPending.

Lemma tickets_zero_gen l :
  Forall (fun p => MutexInv.fut_ok (snd p)) l ->
  (forall k f, In (k, f) l -> fm_st (mf_meta f) <> FPending /\ (fm_st (mf_meta f) = FUnpolled -> mf_lock f = None)) ->
  tickets l = 0.
Proof.
  induction l as [|[k f] l IH]; intros F H; [reflexivity|]. cbn [tickets].
  inversion F as [|? ? Hf Fl]; subst. rewrite IH; [|exact Fl | intros k' f' Hi; apply (H k' f'); right; exact Hi].
  destruct (H k f (or_introl eq_refl)) as (NP & UN). unfold MutexInv.fut_ok in Hf. cbn [snd] in Hf.
  unfold ftick in *. destruct (fm_st (mf_meta f)).
  - rewrite (UN eq_refl). reflexivity.
  - contradiction NP; reflexivity.
  - rewrite Hf. reflexivity.
Qed.

Lemma In_alookup_nodup {A} k (v : A) l : NoDup (map fst l) -> In (k, v) l -> alookup k l = Some v.
Proof.
  induction l as [|[k' v'] l IH]; intros ND Hi; [destruct Hi|]. cbn [alookup]. cbn [map fst] in ND. inversion ND as [|? ? Nk NDl]; subst.
  destruct Hi as [Hi|Hi].
  - inversion Hi; subst. rewrite Nat.eqb_refl. reflexivity.
  - destruct (Nat.eqb k k') eqn:Q.
    + apply Nat.eqb_eq in Q. subst. exfalso. apply Nk. apply in_map_iff. exists (k', v). split; [reflexivity | exact Hi].
    + apply IH; assumption.
Qed.

Lemma mutex_clean x : MLive x -> WInv x -> m_no_pending x -> m_guards x = [] ->
  sw0 (m_sh x) = 0 /\ se0 (m_sh x) = [].
Proof.
  intros (I & Sh & _ & _ & K1 & _) (E & _ & FO) NP G. split.
  - rewrite E, G. cbn [length]. rewrite tickets_zero_gen; [reflexivity | exact FO |].
    intros k f Hi. pose proof (In_alookup_nodup k f _ K1 Hi) as L. split; [apply (NP k f L)|].
    intro U. specialize (Sh k f L). rewrite U in Sh. exact Sh.
  - pose proof (ib_owner _ _ _ _ _ _ _ I) as Ow.
    destruct (se0 (m_sh x)) as [|e r]; [reflexivity|]. exfalso.
    destruct (Ow e (or_introl eq_refl)) as (g & fg & Lg & Sg & _). unfold mlook in Lg.
    specialize (Sh g fg Lg). specialize (NP g fg Lg). unfold mlis in Sg.
    destruct (fm_st (mf_meta fg)); [rewrite Sh in Sg; discriminate | contradiction NP; reflexivity | rewrite Sh in Sg; discriminate].
Qed.

Theorem mutex_cancel_no_trace ops arc : N.of_nat (length ops) < LIVE_BOUND ->
  let x := mrun ops in
  m_no_pending x -> m_guards x = [] ->
  sw0 (m_sh x) = 0 /\ se0 (m_sh x) = [] /\
  (m_handles x <> 0%nat -> o_res (snd (mstep x (MTry arc))) = RSome (m_ng x)).
Proof.
  intros B x NP G. destruct (run_MLive ops B) as (L & W).
  destruct (mutex_clean x L W NP G) as (Z & Ev). split; [exact Z|]. split; [exact Ev|].
  intro H. rewrite (try_result x arc W H). rewrite Z. reflexivity.
Qed.

(* Semaphore *)
Definition s_no_pending (x : sworld) : Prop :=
  forall fid f, alookup fid (s_futs x) = Some f -> fm_st (sf_meta f) <> FPending.

Theorem sem_cancel_no_trace n ops : s_total (srun n ops) < USZ ->
  let x := srun n ops in
  s_no_pending x -> s_guards x = [] ->
  se0 (s_sh x) = [] /\ sw0 (s_sh x) + N.of_nat (s_forgot x) = s_total x.
Proof.
  intros B x NP G. split.
  - destruct (run_SLive n ops) as (I & P & _).
    pose proof (ib_owner _ _ _ _ _ _ _ I) as Ow. fold x in Ow, P.
    destruct (se0 (s_sh x)) as [|e r]; [reflexivity|]. exfalso.
    destruct (Ow e (or_introl eq_refl)) as (g & fg & Lg & Sg & _). unfold slook in Lg.
    apply (NP g fg Lg). apply (P g fg Lg). rewrite Sg. discriminate.
  - pose proof (sem_conservation n ops B) as C. fold x in C. unfold outstanding in C. rewrite G in C. cbn [length] in C. exact C.
Qed.
