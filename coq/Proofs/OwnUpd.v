(* OwnUpd.v — the ownership invariant InvB under the updates the API machines make to their
   association list of futures: replace one future (aupdate), remove it (aremove), append a new one. *)
From AL Require Import Base Api BaseFacts ApiFacts EventFacts.
From Coq Require Import Lia.

Section OwnUpd.
Variable F : Type.
Variable lis : F -> option nat.
Variable meta : F -> fmeta.
Notation Inv := (InvB F lis meta).
Definition lk (futs : list (nat * F)) : look_t F := fun k => alookup k futs.

Lemma lk_aupd futs fid f' : forall g, g <> fid -> lk (aupdate fid f' futs) g = lk futs g.
Proof. intros g N. apply alookup_aupdate_other. exact N. Qed.

Lemma upd_frame wk l nid futs fid f f' : Inv wk l nid (lk futs) -> alookup fid futs = Some f ->
  lis f = None -> lis f' = None -> Inv wk l nid (lk (aupdate fid f' futs)).
Proof.
  intros I L N N'. apply (InvB_frame F lis meta wk l nid (lk futs) _ fid I).
  - intros f0 L0. unfold lk in L0. rewrite L in L0. inversion L0; subst. exact N.
  - apply lk_aupd.
  - intros f0 L0. unfold lk in L0. rewrite (alookup_aupdate_same _ _ _ _ L) in L0. inversion L0; subst. exact N'.
Qed.

Lemma upd_same wk l nid futs fid f f' : Inv wk l nid (lk futs) -> alookup fid futs = Some f ->
  lis f' = lis f -> meta f' = meta f -> Inv wk l nid (lk (aupdate fid f' futs)).
Proof.
  intros I L HL HM. apply (InvB_same F lis meta wk l nid (lk futs) _ fid f f' I L); auto.
  - unfold lk. apply (alookup_aupdate_same _ _ _ _ L).
  - apply lk_aupd.
Qed.

Lemma upd_append wk l nid futs fid f f' w : Inv wk l nid (lk futs) -> alookup fid futs = Some f ->
  lis f = None -> lis f' = Some nid -> fm_st (meta f') = FPending -> fm_w (meta f') = Some w ->
  Inv wk (l ++ [mkEntry nid (Task w)]) (S nid) (lk (aupdate fid f' futs)).
Proof.
  intros I L N N' P W. apply (InvB_append F lis meta wk l nid (lk futs) _ fid f' w I); auto.
  - intros f0 L0. unfold lk in L0. rewrite L in L0. inversion L0; subst. exact N.
  - apply lk_aupd.
  - unfold lk. apply (alookup_aupdate_same _ _ _ _ L).
Qed.

Lemma upd_set_task wk l nid futs fid f f' id w : Inv wk l nid (lk futs) -> alookup fid futs = Some f ->
  lis f = Some id -> lis f' = Some id -> fm_st (meta f') = FPending -> fm_w (meta f') = Some w ->
  Inv wk (ev_set id (Task w) l) nid (lk (aupdate fid f' futs)).
Proof.
  intros I L N N' P W. apply (InvB_set_task F lis meta wk l nid (lk futs) _ fid f f' id w I); auto.
  - apply lk_aupd.
  - unfold lk. apply (alookup_aupdate_same _ _ _ _ L).
Qed.

Lemma upd_remove wk l nid futs fid f f' id : Inv wk l nid (lk futs) -> alookup fid futs = Some f ->
  lis f = Some id -> lis f' = None -> Inv wk (ev_remove id l) nid (lk (aupdate fid f' futs)).
Proof.
  intros I L N N'. apply (InvB_remove F lis meta wk l nid (lk futs) _ fid f id I); auto.
  - apply lk_aupd.
  - intros f0 L0. unfold lk in L0. rewrite (alookup_aupdate_same _ _ _ _ L) in L0. inversion L0; subst. exact N'.
Qed.

(* the notified listener is consumed and a fresh one registered in the same poll *)
Lemma upd_remove_append wk l nid futs fid f f' id w : Inv wk l nid (lk futs) -> alookup fid futs = Some f ->
  lis f = Some id -> lis f' = Some nid -> fm_st (meta f') = FPending -> fm_w (meta f') = Some w ->
  (forall f0 : F, exists f1 : F, lis f1 = None) ->
  Inv wk (ev_remove id l ++ [mkEntry nid (Task w)]) (S nid) (lk (aupdate fid f' futs)).
Proof.
  intros I L N N' P W Hnone. destruct (Hnone f) as (f1 & N1).
  set (mid := fun g => if Nat.eqb g fid then Some f1 else lk futs g).
  pose proof (Nat.eqb_refl fid) as EQf.
  assert (IM : Inv wk (ev_remove id l) nid mid).
  { apply (InvB_remove F lis meta wk l nid (lk futs) mid fid f id I); auto.
    - intros g0 Ng. unfold mid. destruct (Nat.eqb g0 fid) eqn:Q; [apply Nat.eqb_eq in Q; contradiction | reflexivity].
    - intros f0 L0. unfold mid in L0. rewrite EQf in L0. inversion L0; subst. exact N1. }
  apply (InvB_append F lis meta wk _ nid mid _ fid f' w IM); auto.
  - intros f0 L0. unfold mid in L0. rewrite EQf in L0. inversion L0; subst. exact N1.
  - intros g0 Ng. unfold mid. destruct (Nat.eqb g0 fid) eqn:Q; [apply Nat.eqb_eq in Q; contradiction|]. apply lk_aupd. exact Ng.
  - unfold lk. apply (alookup_aupdate_same _ _ _ _ L).
Qed.

(* the future completes / is updated and drops whatever listener it holds on this event *)
Lemma upd_drop_own wk l nid futs fid f f' : Inv wk l nid (lk futs) -> alookup fid futs = Some f -> lis f' = None ->
  Inv (wk ++ snd (ev_drop_opt (lis f) l)) (fst (ev_drop_opt (lis f) l)) nid (lk (aupdate fid f' futs)) /\
  ((l = [] \/ has_notified l = true) -> fst (ev_drop_opt (lis f) l) = [] \/ has_notified (fst (ev_drop_opt (lis f) l)) = true).
Proof.
  intros I L N'. apply (InvB_drop_own F lis meta wk l nid (lk futs) _ fid f I L).
  - apply lk_aupd.
  - intros f0 L0. unfold lk in L0. rewrite (alookup_aupdate_same _ _ _ _ L) in L0. inversion L0; subst. exact N'.
Qed.

Lemma rm_drop_own wk l nid futs fid f : Inv wk l nid (lk futs) -> alookup fid futs = Some f -> NoDup (map fst futs) ->
  Inv (wk ++ snd (ev_drop_opt (lis f) l)) (fst (ev_drop_opt (lis f) l)) nid (lk (aremove fid futs)) /\
  ((l = [] \/ has_notified l = true) -> fst (ev_drop_opt (lis f) l) = [] \/ has_notified (fst (ev_drop_opt (lis f) l)) = true).
Proof.
  intros I L ND. apply (InvB_drop_own F lis meta wk l nid (lk futs) _ fid f I L).
  - intros g Ng. apply alookup_aremove_other. exact Ng.
  - intros f0 L0. unfold lk in L0. rewrite (alookup_aremove_same fid futs ND) in L0. discriminate.
Qed.

Lemma rm_frame wk l nid futs fid f : Inv wk l nid (lk futs) -> alookup fid futs = Some f -> NoDup (map fst futs) ->
  lis f = None -> Inv wk l nid (lk (aremove fid futs)).
Proof.
  intros I L ND N. apply (InvB_frame F lis meta wk l nid (lk futs) _ fid I).
  - intros f0 L0. unfold lk in L0. rewrite L in L0. inversion L0; subst. exact N.
  - intros g Ng. apply alookup_aremove_other. exact Ng.
  - intros f0 L0. unfold lk in L0. rewrite (alookup_aremove_same fid futs ND) in L0. discriminate.
Qed.

Lemma app_frame wk l nid futs k f' : Inv wk l nid (lk futs) -> alookup k futs = None -> lis f' = None ->
  Inv wk l nid (lk (futs ++ [(k, f')])).
Proof.
  intros I NK N'. apply (InvB_frame F lis meta wk l nid (lk futs) _ k I).
  - intros f0 L0. unfold lk in L0. congruence.
  - intros g Ng. unfold lk. rewrite alookup_app. destruct (alookup g futs); [reflexivity|].
    cbn. destruct (Nat.eqb g k) eqn:Q; [apply Nat.eqb_eq in Q; contradiction | reflexivity].
  - intros f0 L0. unfold lk in L0. rewrite alookup_app, NK in L0. cbn in L0. rewrite Nat.eqb_refl in L0. inversion L0; subst. exact N'.
Qed.

(* with no future alive the event has no entry *)
Lemma no_futs_no_entries wk l nid : Inv wk l nid (lk []) -> l = [].
Proof.
  intro I. destruct l as [|e r]; [reflexivity|]. exfalso.
  destruct (ib_owner _ _ _ _ _ _ _ I e (or_introl eq_refl)) as (g & fg & Lg & _). discriminate.
Qed.
End OwnUpd.
