(* EventFacts.v — facts about the event-listener model (Base.v): what listen / notify /
   poll / drop do to the list of entries. *)
From AL Require Import Base BaseFacts.
From Coq Require Import Lia.

Notation ids l := (map eid l) (only parsing).
Definition has_notified (l : event) : bool := existsb is_notified l.

(* ---------- ev_find / ev_set / ev_remove ---------- *)
Lemma ev_find_In id l st : ev_find id l = Some st -> In (mkEntry id st) l.
Proof.
  induction l as [|e r IH]; cbn; [discriminate|].
  destruct (Nat.eqb (eid e) id) eqn:E.
  - intro H; inversion H; subst. apply Nat.eqb_eq in E. subst. left. destruct e; reflexivity.
  - intro H. right. auto.
Qed.
Lemma ev_find_None id l : ev_find id l = None <-> ~ In id (ids l).
Proof.
  induction l as [|e r IH]; cbn; [tauto|].
  destruct (Nat.eqb (eid e) id) eqn:E.
  - apply Nat.eqb_eq in E. split; [discriminate | intro H; exfalso; apply H; left; exact E].
  - apply Nat.eqb_neq in E. rewrite IH. tauto.
Qed.
Lemma In_find id st l : NoDup (ids l) -> In (mkEntry id st) l -> ev_find id l = Some st.
Proof.
  induction l as [|e r IH]; cbn; [tauto|]. intros ND [H|H].
  - subst e. cbn. rewrite Nat.eqb_refl. reflexivity.
  - inversion ND; subst. destruct (Nat.eqb (eid e) id) eqn:E.
    + apply Nat.eqb_eq in E. exfalso. apply H2. rewrite E. apply (in_map eid) in H. exact H.
    + apply IH; assumption.
Qed.
Lemma ids_set id st l : ids (ev_set id st l) = ids l.
Proof.
  induction l as [|e r IH]; cbn; [reflexivity|].
  destruct (Nat.eqb (eid e) id) eqn:E; cbn; [apply Nat.eqb_eq in E; congruence | rewrite IH; reflexivity].
Qed.
Lemma ids_remove_incl id l : incl (ids (ev_remove id l)) (ids l).
Proof.
  induction l as [|e r IH]; cbn; [apply incl_refl|].
  destruct (Nat.eqb (eid e) id); [apply incl_tl, incl_refl|]. cbn. apply incl_cons; [left; reflexivity | apply incl_tl; exact IH].
Qed.
Lemma In_remove id x l : NoDup (ids l) -> (In x (ids (ev_remove id l)) <-> In x (ids l) /\ x <> id).
Proof.
  induction l as [|e r IH]; cbn; [tauto|]. intro ND. inversion ND; subst.
  destruct (Nat.eqb (eid e) id) eqn:E.
  - apply Nat.eqb_eq in E. split.
    + intro H. split; [right; exact H|]. intro; subst. apply H1. exact H.
    + intros ([H|H] & N); [congruence | exact H].
  - apply Nat.eqb_neq in E. cbn. rewrite (IH H2). split.
    + intros [H|(H & N)]; [split; [left; exact H | congruence] | split; [right; exact H | exact N]].
    + intros ([H|H] & N); [left; exact H | right; split; assumption].
Qed.
Lemma NoDup_remove_ev id l : NoDup (ids l) -> NoDup (ids (ev_remove id l)).
Proof.
  induction l as [|e r IH]; cbn; [auto|]. intro ND. inversion ND; subst.
  destruct (Nat.eqb (eid e) id); [assumption|]. cbn. constructor; [|auto].
  intro H. apply H1. apply (ids_remove_incl id r). exact H.
Qed.
Lemma In_remove_entry id e l : In e (ev_remove id l) -> In e l.
Proof.
  induction l as [|x r IH]; cbn; [tauto|]. destruct (Nat.eqb (eid x) id); [intro; right; assumption|].
  intros [H|H]; [left; exact H | right; auto].
Qed.
Lemma In_remove_entry_neq id e l : NoDup (ids l) -> In e (ev_remove id l) -> eid e <> id.
Proof.
  intros ND H E. pose proof (in_map eid _ _ H) as H'.
  apply (In_remove id (eid e) l ND) in H'. tauto.
Qed.
Lemma In_remove_keep id e l : In e l -> eid e <> id -> In e (ev_remove id l).
Proof.
  induction l as [|x r IH]; cbn; [tauto|]. intros [H|H] N.
  - subst x. destruct (Nat.eqb (eid e) id) eqn:E; [apply Nat.eqb_eq in E; contradiction | left; reflexivity].
  - destruct (Nat.eqb (eid x) id); [exact H | right; auto].
Qed.
Lemma In_set id st e l : NoDup (ids l) -> In e (ev_set id st l) -> (e = mkEntry id st /\ In id (ids l)) \/ (In e l /\ eid e <> id).
Proof.
  induction l as [|x r IH]; cbn; [tauto|]. intro ND. inversion ND; subst.
  destruct (Nat.eqb (eid x) id) eqn:E.
  - apply Nat.eqb_eq in E. intros [H|H]; [left; split; [auto | left; exact E]|].
    right. split; [right; exact H|]. intro Q. apply H1. rewrite E, <- Q. apply (in_map eid) in H. exact H.
  - apply Nat.eqb_neq in E. intros [H|H].
    + subst e. right. split; [left; reflexivity | exact E].
    + destruct (IH H2 H) as [(A & B)|(A & B)]; [left; split; [exact A | right; exact B] | right; split; [right; exact A | exact B]].
Qed.
Lemma In_set_new id st l : In id (ids l) -> In (mkEntry id st) (ev_set id st l).
Proof.
  induction l as [|x r IH]; cbn; [tauto|]. destruct (Nat.eqb (eid x) id) eqn:E.
  - intros _. left. reflexivity.
  - apply Nat.eqb_neq in E. intros [H|H]; [contradiction | right; auto].
Qed.
Lemma In_set_keep id st e l : In e l -> eid e <> id -> In e (ev_set id st l).
Proof.
  induction l as [|x r IH]; cbn; [tauto|]. intros [H|H] N.
  - subst x. destruct (Nat.eqb (eid e) id) eqn:E; [apply Nat.eqb_eq in E; contradiction | left; reflexivity].
  - destruct (Nat.eqb (eid x) id); right; auto.
Qed.

Lemma Forall2_impl' {A B} (P Q : A -> B -> Prop) l l' :
  (forall a b, P a b -> Q a b) -> Forall2 P l l' -> Forall2 Q l l'.
Proof. intros H F. induction F; constructor; auto. Qed.

(* ---------- mark / ev_notify ---------- *)
(* how one entry may change during a notify: unchanged, or newly notified (then its waker is woken) *)
Definition upd (add : bool) (ws : list waker) (e e' : entry) : Prop :=
  e' = e \/ (is_notified e = false /\ e' = mkEntry (eid e) (Notified add) /\ incl (wake_of e) ws).

Lemma mark_rel add k l : let '(l', ws) := mark add k l in Forall2 (upd add ws) l l'.
Proof.
  revert k. induction l as [|e r IH]; intro k; cbn [mark]; [constructor|].
  destruct (is_notified e) eqn:Ne.
  - specialize (IH k). destruct (mark add k r) as [r' ws]. constructor; [left; reflexivity | exact IH].
  - destruct (k =? 0).
    + constructor; [left; reflexivity|]. clear. induction r; constructor; [left; reflexivity | assumption].
    + specialize (IH (k - 1)). destruct (mark add (k - 1) r) as [r' ws]. constructor.
      * right. repeat split; auto. apply incl_appl, incl_refl.
      * eapply Forall2_impl'; [|exact IH]. intros a b [H|(H1 & H2 & H3)]; [left; exact H | right; repeat split; auto].
        apply incl_appr. exact H3.
Qed.
Lemma notify_rel n add l : let '(l', ws) := ev_notify n add l in Forall2 (upd add ws) l l'.
Proof.
  unfold ev_notify. destruct add.
  - apply mark_rel.
  - destruct (n <? N.of_nat (count_notified l)).
    + clear. induction l; constructor; [left; reflexivity | assumption].
    + apply mark_rel.
Qed.
Lemma upd_ids add ws l l' : Forall2 (upd add ws) l l' -> ids l' = ids l.
Proof.
  induction 1 as [|e e' r r' H _ IH]; cbn; [reflexivity|]. rewrite IH. f_equal.
  destruct H as [->|(_ & -> & _)]; reflexivity.
Qed.
Lemma upd_In add ws l l' e' : Forall2 (upd add ws) l l' -> In e' l' -> exists e, In e l /\ upd add ws e e'.
Proof.
  induction 1 as [|a b r r' H _ IH]; cbn; [tauto|]. intros [<-|Hin].
  - exists a. split; [left; reflexivity | exact H].
  - destruct (IH Hin) as (e & He & U). exists e. split; [right; exact He | exact U].
Qed.

Lemma count_notified_has l : (count_notified l > 0)%nat <-> has_notified l = true.
Proof.
  unfold has_notified. induction l as [|e r IH]; cbn; [split; [lia | discriminate]|].
  destruct (is_notified e); cbn; [split; [reflexivity | lia]|]. exact IH.
Qed.
Lemma mark_has add k l : 1 <= k -> l <> [] -> has_notified (fst (mark add k l)) = true.
Proof.
  revert k. induction l as [|e r IH]; intros k K NE; [contradiction|]. cbn [mark].
  destruct (is_notified e) eqn:Ne.
  - destruct (mark add k r) as [r' ws]. cbn. unfold has_notified. cbn. rewrite Ne. reflexivity.
  - destruct (k =? 0) eqn:Z; [lia|]. destruct (mark add (k - 1) r) as [r' ws]. cbn. reflexivity.
Qed.
(* after notify(n >= 1): the list is empty or has a notified entry *)
Lemma notify_has n l : 1 <= n -> l <> [] -> has_notified (fst (ev_notify n false l)) = true.
Proof.
  intros K NE. unfold ev_notify.
  destruct (n <? N.of_nat (count_notified l)) eqn:C.
  - cbn. apply count_notified_has. lia.
  - destruct (Nat.eq_dec (count_notified l) 0) as [Z|NZ].
    + rewrite Z. apply mark_has; [cbn; lia | exact NE].
    + (* already some notified entry; mark keeps it *)
      pose proof (mark_rel false (n - N.of_nat (count_notified l)) l) as R.
      destruct (mark false (n - N.of_nat (count_notified l)) l) as [l' ws]. cbn.
      assert (H : has_notified l = true) by (apply count_notified_has; lia).
      unfold has_notified in *. apply existsb_exists in H. destruct H as (e & He & Ne).
      clear - R He Ne. induction R as [|a b r r' U _ IH]; [contradiction|]. cbn. destruct He as [<-|He].
      * destruct U as [->|(F & _)]; [rewrite Ne; reflexivity | congruence].
      * rewrite (IH He). apply Bool.orb_true_r.
Qed.
Lemma upd_has add ws l l' : Forall2 (upd add ws) l l' -> has_notified l = true -> has_notified l' = true.
Proof.
  unfold has_notified. induction 1 as [|a b r r' U _ IH]; cbn; [auto|]. intro H. apply Bool.orb_true_iff in H. destruct H as [H|H].
  - destruct U as [->|(F & _)]; [rewrite H; reflexivity | congruence].
  - rewrite (IH H). apply Bool.orb_true_r.
Qed.

Definition ev_drop_opt (o : option nat) (l : event) : event * list waker :=
  match o with Some id => ev_drop id l | None => (l, []) end.

(* ---------- ownership of entries by futures ---------- *)
From AL Require Import Api.

(* the entry of a pending future: registered with the waker of its last poll, or notified and
   (then) its owner's current waker has been called: already flagged woken, or among the wakers
   [wk] called during the current operation *)
Definition entry_ok (wk : list waker) (e : entry) (m : fmeta) : Prop :=
  fm_st m = FPending /\
  match est e with
  | Created => False
  | Task w => fm_w m = Some w
  | Notified _ => fm_woken m = true \/ (exists w, fm_w m = Some w /\ In w wk)
  end.

Lemma entry_ok_mono wk wk' e m : incl wk wk' -> entry_ok wk e m -> entry_ok wk' e m.
Proof.
  intros I (P & H). split; [exact P|]. destruct (est e); auto.
  destruct H as [H|(w & A & B)]; [left; exact H | right; exists w; split; [exact A | apply I; exact B]].
Qed.

(* a notify step keeps every entry ok (for the wakers it called) *)
Lemma entry_ok_upd add wk ws e e' m : upd add ws e e' -> entry_ok wk e m -> entry_ok (wk ++ ws) e' m.
Proof.
  intros [->|(Nn & -> & W)] (P & H).
  - apply (entry_ok_mono wk); [apply incl_appl, incl_refl | split; assumption].
  - split; [exact P|]. cbn. unfold is_notified, wake_of in *. destruct (est e) as [|w|a]; try contradiction; try discriminate.
    right. exists w. split; [exact H | apply in_or_app; right; apply W; left; reflexivity].
Qed.

(* after the operation, the wakers called are turned into woken flags *)
Lemma entry_ok_wake wk e m : entry_ok wk e m -> entry_ok [] e (meta_wake wk m).
Proof.
  intros (P & H). unfold meta_wake. rewrite P. destruct (fm_w m) as [w|] eqn:W.
  - destruct (mem_nat w wk) eqn:M.
    + split; [reflexivity|]. cbn. destruct (est e); [exact H | exact H | left; reflexivity].
    + split; [exact P|]. rewrite W. destruct (est e); [exact H | exact H |].
      destruct H as [H|(w' & A & B)]; [left; exact H|]. inversion A; subst. exfalso.
      unfold mem_nat in M.
      assert (existsb (Nat.eqb w') wk = true) by (apply existsb_exists; exists w'; split; [exact B | apply Nat.eqb_refl]).
      congruence.
  - split; [exact P|]. rewrite W. destruct (est e); [exact H | exact H |].
    destruct H as [H|(w' & A & _)]; [left; exact H | discriminate].
Qed.
Lemma entry_ok_nil_woken e m : entry_ok [] e m -> is_notified e = true -> fm_woken m = true.
Proof.
  intros (_ & H) N. unfold is_notified in N. destruct (est e); try discriminate.
  destruct H as [H|(w & _ & [])]. exact H.
Qed.

Lemma has_notified_remove id l : NoDup (map eid l) -> has_notified l = true ->
  (forall st, ev_find id l = Some st -> match st with Notified _ => False | _ => True end) ->
  has_notified (ev_remove id l) = true.
Proof.
  intros ND H NF. unfold has_notified in *. apply existsb_exists in H. destruct H as (e & He & Ne).
  apply existsb_exists. exists e. split; [|exact Ne]. apply In_remove_keep; [exact He|].
  intro Q. destruct e as [i st]. cbn in Q. subst i. pose proof (In_find _ _ _ ND He) as Fd.
  specialize (NF _ Fd). unfold is_notified in Ne. cbn in Ne. destruct st; try discriminate. contradiction.
Qed.

Lemma NoDup_app_fresh {A} (l : list A) x : NoDup l -> ~ In x l -> NoDup (l ++ [x]).
Proof.
  intros ND NI. induction l as [|a r IH]; cbn; [constructor; [tauto | constructor]|].
  inversion ND; subst. constructor.
  - intro H. apply in_app_or in H. destruct H as [H|[H|[]]]; [contradiction | subst; apply NI; left; reflexivity].
  - apply IH; [assumption | intro; apply NI; right; assumption].
Qed.

(* ---------- the ownership invariant of one event, generic in the type of futures ---------- *)
Section Own.
Variable F : Type.
Variable lis : F -> option nat.      (* the listener this future holds on THIS event, if any *)
Variable meta : F -> fmeta.
Definition look_t := nat -> option F.

Record InvB (wk : list waker) (l : event) (nid : nat) (look : look_t) : Prop := mkInvB {
  ib_nodup : NoDup (map eid l);
  ib_fresh : forall id, In id (map eid l) -> (id < nid)%nat;
  ib_owner : forall e, In e l -> exists fid f, look fid = Some f /\ lis f = Some (eid e) /\ entry_ok wk e (meta f);
  ib_listed : forall fid f id, look fid = Some f -> lis f = Some id -> In id (map eid l);
  ib_inj : forall fid1 fid2 f1 f2 id, look fid1 = Some f1 -> look fid2 = Some f2 -> lis f1 = Some id -> lis f2 = Some id -> fid1 = fid2
}.

Lemma InvB_mono wk wk' l nid look : incl wk wk' -> InvB wk l nid look -> InvB wk' l nid look.
Proof.
  intros I [A B C D E]. constructor; auto.
  intros e He. destruct (C e He) as (g & fg & Lg & Sg & Ok). exists g, fg. split; [exact Lg|]. split; [exact Sg|].
  apply (entry_ok_mono wk); auto.
Qed.
Lemma InvB_nid wk l nid nid' look : (nid <= nid')%nat -> InvB wk l nid look -> InvB wk l nid' look.
Proof. intros H [A B C D E]. constructor; auto. intros id Hi. specialize (B id Hi). lia. Qed.

(* notify *)
Lemma InvB_upd add wk ws l l' nid look : Forall2 (upd add ws) l l' -> InvB wk l nid look -> InvB (wk ++ ws) l' nid look.
Proof.
  intros R [A B C D E]. pose proof (upd_ids _ _ _ _ R) as I. constructor.
  - rewrite I. exact A.
  - rewrite I. exact B.
  - intros e' He'. destruct (upd_In _ _ _ _ _ R He') as (e & He & U). destruct (C e He) as (g & fg & Lg & Sg & Ok).
    exists g, fg. split; [exact Lg|]. split.
    + destruct U as [->|(_ & -> & _)]; exact Sg.
    + apply (entry_ok_upd add wk ws e e' _ U Ok).
  - intros g fg id Lg Sg. rewrite I. apply (D g fg id Lg Sg).
  - exact E.
Qed.
Lemma InvB_notify n add wk l nid look : InvB wk l nid look ->
  InvB (wk ++ snd (ev_notify n add l)) (fst (ev_notify n add l)) nid look.
Proof.
  intro I. pose proof (notify_rel n add l) as R. destruct (ev_notify n add l) as [l' ws]. cbn [fst snd].
  apply (InvB_upd add wk ws l l'); assumption.
Qed.

(* the future [fid] gives up its listener [id] on this event: the entry is removed *)
Lemma InvB_remove wk l nid look look' fid f id :
  InvB wk l nid look -> look fid = Some f -> lis f = Some id ->
  (forall g, g <> fid -> look' g = look g) ->
  (forall f', look' fid = Some f' -> lis f' = None) ->
  InvB wk (ev_remove id l) nid look'.
Proof.
  intros [A B C D E] L Ls HF1 HF2. constructor.
  - apply NoDup_remove_ev. exact A.
  - intros i Hi. apply ids_remove_incl in Hi. apply B. exact Hi.
  - intros e He. pose proof (In_remove_entry_neq _ _ _ A He) as Ne. apply In_remove_entry in He.
    destruct (C e He) as (g & fg & Lg & Sg & Ok).
    assert (g <> fid) by (intro; subst g; rewrite L in Lg; inversion Lg; subst; congruence).
    exists g, fg. rewrite (HF1 g H). auto.
  - intros g fg i Lg Sg. destruct (Nat.eq_dec g fid) as [->|N]; [rewrite (HF2 fg Lg) in Sg; discriminate|].
    rewrite (HF1 g N) in Lg. apply (In_remove id i l A). split; [apply (D g fg i Lg Sg)|].
    intro; subst i. apply N. apply (E g fid fg f id); auto.
  - intros g1 g2 a1 a2 i L1 L2 S1 S2.
    destruct (Nat.eq_dec g1 fid) as [->|N1]; [rewrite (HF2 a1 L1) in S1; discriminate|].
    destruct (Nat.eq_dec g2 fid) as [->|N2]; [rewrite (HF2 a2 L2) in S2; discriminate|].
    rewrite (HF1 _ N1) in L1. rewrite (HF1 _ N2) in L2. apply (E g1 g2 a1 a2 i); auto.
Qed.

(* the future [fid], which holds no listener on this event, registers a fresh one and is polled
   with waker [w] *)
Lemma InvB_append wk l nid look look' fid f' w :
  InvB wk l nid look ->
  (forall f, look fid = Some f -> lis f = None) ->
  (forall g, g <> fid -> look' g = look g) ->
  look' fid = Some f' -> lis f' = Some nid -> fm_st (meta f') = FPending -> fm_w (meta f') = Some w ->
  InvB wk (l ++ [mkEntry nid (Task w)]) (S nid) look'.
Proof.
  intros [A B C D E] NL HF1 L' Ls P W.
  assert (NF : ~ In nid (map eid l)) by (intro H; apply B in H; lia).
  constructor.
  - rewrite map_app. cbn. apply NoDup_app_fresh; assumption.
  - intros i Hi. rewrite map_app in Hi. apply in_app_or in Hi. destruct Hi as [Hi|[<-|[]]]; [specialize (B i Hi); lia | cbn; lia].
  - intros e He. apply in_app_or in He. destruct He as [He|[<-|[]]].
    + destruct (C e He) as (g & fg & Lg & Sg & Ok).
      assert (g <> fid) by (intro; subst g; rewrite (NL fg Lg) in Sg; discriminate).
      exists g, fg. rewrite (HF1 g H). auto.
    + exists fid, f'. split; [exact L'|]. split; [exact Ls|]. split; [exact P | exact W].
  - intros g fg i Lg Sg. rewrite map_app. apply in_or_app. destruct (Nat.eq_dec g fid) as [->|N].
    + rewrite L' in Lg. inversion Lg; subst. rewrite Ls in Sg. inversion Sg; subst. right. left. reflexivity.
    + rewrite (HF1 g N) in Lg. left. apply (D g fg i Lg Sg).
  - intros g1 g2 a1 a2 i L1 L2 S1 S2.
    destruct (Nat.eq_dec g1 fid) as [->|N1]; destruct (Nat.eq_dec g2 fid) as [->|N2]; auto.
    + rewrite L' in L1. inversion L1; subst. rewrite Ls in S1. inversion S1; subst.
      rewrite (HF1 _ N2) in L2. exfalso. apply NF. apply (D g2 a2 _ L2 S2).
    + rewrite L' in L2. inversion L2; subst. rewrite Ls in S2. inversion S2; subst.
      rewrite (HF1 _ N1) in L1. exfalso. apply NF. apply (D g1 a1 _ L1 S1).
    + rewrite (HF1 _ N1) in L1. rewrite (HF1 _ N2) in L2. apply (E g1 g2 a1 a2 i); auto.
Qed.

(* the future [fid] polls its listener [id], which is not notified: the waker is (re)registered *)
Lemma InvB_set_task wk l nid look look' fid f f' id w :
  InvB wk l nid look -> look fid = Some f -> lis f = Some id ->
  (forall g, g <> fid -> look' g = look g) ->
  look' fid = Some f' -> lis f' = Some id -> fm_st (meta f') = FPending -> fm_w (meta f') = Some w ->
  InvB wk (ev_set id (Task w) l) nid look'.
Proof.
  intros [A B C D E] L Ls HF1 L' Ls' P W. constructor.
  - rewrite ids_set. exact A.
  - rewrite ids_set. exact B.
  - intros e He. destruct (In_set _ _ _ _ A He) as [(-> & Hid)|(He' & Ne)].
    + exists fid, f'. split; [exact L'|]. split; [exact Ls'|]. split; [exact P | exact W].
    + destruct (C e He') as (g & fg & Lg & Sg & Ok).
      assert (g <> fid) by (intro; subst g; rewrite L in Lg; inversion Lg; subst; congruence).
      exists g, fg. rewrite (HF1 g H). auto.
  - intros g fg i Lg Sg. rewrite ids_set. destruct (Nat.eq_dec g fid) as [->|N].
    + rewrite L' in Lg. inversion Lg; subst. rewrite Ls' in Sg. inversion Sg; subst. apply (D fid f i L Ls).
    + rewrite (HF1 g N) in Lg. apply (D g fg i Lg Sg).
  - intros g1 g2 a1 a2 i L1 L2 S1 S2.
    assert (T : forall g a, look' g = Some a -> lis a = Some i -> exists a0, look g = Some a0 /\ lis a0 = Some i).
    { intros g a Lg Sg. destruct (Nat.eq_dec g fid) as [->|N].
      - rewrite L' in Lg. inversion Lg; subst. exists f. split; [exact L | congruence].
      - rewrite (HF1 g N) in Lg. exists a. auto. }
    destruct (T g1 a1 L1 S1) as (b1 & Q1 & R1). destruct (T g2 a2 L2 S2) as (b2 & Q2 & R2).
    apply (E g1 g2 b1 b2 i); auto.
Qed.

(* a future that holds no listener on this event (before and after) changes otherwise *)
Lemma InvB_frame wk l nid look look' fid :
  InvB wk l nid look ->
  (forall f, look fid = Some f -> lis f = None) ->
  (forall g, g <> fid -> look' g = look g) ->
  (forall f', look' fid = Some f' -> lis f' = None) ->
  InvB wk l nid look'.
Proof.
  intros [A B C D E] NL HF1 HF2. constructor; auto.
  - intros e He. destruct (C e He) as (g & fg & Lg & Sg & Ok).
    assert (g <> fid) by (intro; subst g; rewrite (NL fg Lg) in Sg; discriminate).
    exists g, fg. rewrite (HF1 g H). auto.
  - intros g fg i Lg Sg. destruct (Nat.eq_dec g fid) as [->|N]; [rewrite (HF2 fg Lg) in Sg; discriminate|].
    rewrite (HF1 g N) in Lg. apply (D g fg i Lg Sg).
  - intros g1 g2 a1 a2 i L1 L2 S1 S2.
    destruct (Nat.eq_dec g1 fid) as [->|N1]; [rewrite (HF2 a1 L1) in S1; discriminate|].
    destruct (Nat.eq_dec g2 fid) as [->|N2]; [rewrite (HF2 a2 L2) in S2; discriminate|].
    rewrite (HF1 _ N1) in L1. rewrite (HF1 _ N2) in L2. apply (E g1 g2 a1 a2 i); auto.
Qed.

(* the future [fid] changes without touching its listener on this event or its poll bookkeeping *)
Lemma InvB_same wk l nid look look' fid f f' :
  InvB wk l nid look -> look fid = Some f -> look' fid = Some f' ->
  (forall g, g <> fid -> look' g = look g) ->
  lis f' = lis f -> meta f' = meta f ->
  InvB wk l nid look'.
Proof.
  intros [A B C D E] L L' HF1 HL HM. constructor; auto.
  - intros e He. destruct (C e He) as (g & fg & Lg & Sg & Ok).
    destruct (Nat.eq_dec g fid) as [->|N].
    + rewrite L in Lg. inversion Lg; subst fg. exists fid, f'. split; [exact L'|]. rewrite HL, HM. split; assumption.
    + exists g, fg. rewrite (HF1 g N). auto.
  - intros g fg i Lg Sg. destruct (Nat.eq_dec g fid) as [->|N].
    + rewrite L' in Lg. inversion Lg; subst fg. rewrite HL in Sg. apply (D fid f i L Sg).
    + rewrite (HF1 g N) in Lg. apply (D g fg i Lg Sg).
  - intros g1 g2 a1 a2 i L1 L2 S1 S2.
    assert (T : forall g a, look' g = Some a -> lis a = Some i -> exists a0, look g = Some a0 /\ lis a0 = Some i).
    { intros g a La Sa. destruct (Nat.eq_dec g fid) as [->|N].
      - rewrite L' in La. inversion La; subst a. exists f. split; [exact L | rewrite <- HL; exact Sa].
      - exists a. rewrite <- (HF1 g N). split; assumption. }
    destruct (T g1 a1 L1 S1) as (b1 & M1 & T1). destruct (T g2 a2 L2 S2) as (b2 & M2 & T2).
    apply (E g1 g2 b1 b2 i); assumption.
Qed.

(* the future [fid] drops its listener on this event (cancellation, or completion without polling it):
   the entry is removed and a notification it holds is forwarded *)
Lemma InvB_drop_own wk l nid look look' fid f :
  InvB wk l nid look -> look fid = Some f ->
  (forall g, g <> fid -> look' g = look g) ->
  (forall f', look' fid = Some f' -> lis f' = None) ->
  InvB (wk ++ snd (ev_drop_opt (lis f) l)) (fst (ev_drop_opt (lis f) l)) nid look' /\
  ((l = [] \/ has_notified l = true) ->
   fst (ev_drop_opt (lis f) l) = [] \/ has_notified (fst (ev_drop_opt (lis f) l)) = true).
Proof.
  intros I L HF1 HF2. destruct (lis f) as [id|] eqn:Ls; cbn [ev_drop_opt fst snd].
  2:{ rewrite app_nil_r. split; [|auto].
      apply (InvB_frame wk l nid look look' fid); auto. intros f0 L0. rewrite L in L0. inversion L0; subst. exact Ls. }
  pose proof (InvB_remove wk l nid look look' fid f id I L Ls HF1 HF2) as IR.
  pose proof (ib_nodup _ _ _ _ I) as ND.
  unfold ev_drop. destruct (ev_find id l) as [[|w0|a]|] eqn:Fd; cbn [fst snd].
  - rewrite app_nil_r. split; [exact IR|]. intros [E|H]; [rewrite E in Fd; discriminate|].
    right. apply has_notified_remove; auto. intros st Q. rewrite Fd in Q. inversion Q; subst. exact Logic.I.
  - rewrite app_nil_r. split; [exact IR|]. intros [E|H]; [rewrite E in Fd; discriminate|].
    right. apply has_notified_remove; auto. intros st Q. rewrite Fd in Q. inversion Q; subst. exact Logic.I.
  - split; [apply InvB_notify; exact IR|]. intros _.
    destruct (ev_remove id l) as [|e r] eqn:Q; [left; destruct a; reflexivity|]. right.
    destruct a.
    + unfold ev_notify. apply mark_has; [lia | discriminate].
    + apply notify_has; [lia | discriminate].
  - exfalso. pose proof (ib_listed _ _ _ _ I fid f id L Ls) as Hin. apply ev_find_None in Fd. contradiction.
Qed.

(* at the end of an operation the wakers called become woken flags *)
Lemma InvB_wake wk l nid (look : look_t) (look' : look_t) (h : F -> F) :
  (forall k, look' k = option_map h (look k)) ->
  (forall f, lis (h f) = lis f) -> (forall f, meta (h f) = meta_wake wk (meta f)) ->
  InvB wk l nid look -> InvB [] l nid look'.
Proof.
  intros LK HL HM [A B C D E]. constructor; auto.
  - intros e He. destruct (C e He) as (g & fg & Lg & Sg & Ok). exists g, (h fg). rewrite LK, Lg.
    split; [reflexivity|]. split; [rewrite HL; exact Sg|]. rewrite HM. apply entry_ok_wake. exact Ok.
  - intros g fg i Lg Sg. rewrite LK in Lg. destruct (look g) as [f0|] eqn:Q; [|discriminate]. inversion Lg; subst.
    rewrite HL in Sg. apply (D g f0 i Q Sg).
  - intros g1 g2 a1 a2 i L1 L2 S1 S2. rewrite LK in L1, L2.
    destruct (look g1) as [b1|] eqn:Q1; [|discriminate]. destruct (look g2) as [b2|] eqn:Q2; [|discriminate].
    inversion L1; inversion L2; subst. rewrite HL in S1, S2. apply (E g1 g2 b1 b2 i); auto.
Qed.

(* a notified entry means a woken owner *)
Lemma InvB_notified_woken l nid look e : InvB [] l nid look -> In e l -> is_notified e = true ->
  exists fid f, look fid = Some f /\ fm_st (meta f) = FPending /\ fm_woken (meta f) = true.
Proof.
  intros [A B C D E] He Ne. destruct (C e He) as (g & fg & Lg & Sg & Ok). exists g, fg.
  split; [exact Lg|]. split; [apply Ok | apply (entry_ok_nil_woken e); assumption].
Qed.
End Own.

