(* OnceSettle.v — C17 for the OnceCell: re-polling woken futures settles after a bounded number of polls.
   Potential: Phi = (#pending flagged woken) + 2 * (#notified entries of both events) + 3 * (#pending)
                    + (if Initialized then 0 else 3 * #entries of both events)
   (the last term pays for the one broadcast that initialisation performs). *)
From AL Require Import Base Api OnceApi BaseFacts ApiFacts EventFacts OwnUpd BarrierInv OnceInv Settle.
From Coq Require Import Lia.

Definition oh_wake (wk : list waker) (f : ofut) : ofut := mkOfut (of_st f) (meta_wake wk (of_meta f)).
Lemma oh_wake_meta wk f : of_meta (oh_wake wk f) = meta_wake wk (of_meta f). Proof. reflexivity. Qed.

Definition oW (x : oworld) : N := cW ofut of_meta (o_futs x).
Definition oP (x : oworld) : N := cP ofut of_meta (o_futs x).
Definition sL (s : sh) : N := N.of_nat (length (se0 s)) + N.of_nat (length (se1 s)).
Definition sN (s : sh) : N := cN (se0 s) + cN (se1 s).
Definition extra (s : sh) : N := if sw0 s =? 2 then 0 else 3 * sL s.
Definition oPhi (x : oworld) : N := oW x + 2 * sN (o_sh x) + 3 * oP x + extra (o_sh x).
Definition oWOK (x : oworld) : Prop := wakers_ok ofut of_meta (o_futs x).

Lemma o_wake_all_eq wk x : o_futs (o_wake_all wk x) = wake_all ofut oh_wake wk (o_futs x).
Proof. reflexivity. Qed.

Lemma ophi_final x fid k f f' x1 : NoDup (map fst (o_futs x)) -> oWOK x -> (k < 4)%nat ->
  alookup fid (o_futs x) = Some f -> fm_w (of_meta f') = Some (wtag fid k) ->
  o_futs x1 = aupdate fid f' (o_futs x) ->
  oPhi (o_wake_all (swk (o_sh x1)) x1) + wW ofut of_meta f + 3 * wP ofut of_meta f <=
  oW x + wW ofut of_meta f' + N.of_nat (length (swk (o_sh x1))) + 2 * sN (o_sh x1) + 3 * (oP x + wP ofut of_meta f') + extra (o_sh x1).
Proof.
  intros ND WO K4 L Hw EF. unfold oPhi, oW, oP. rewrite o_wake_all_eq. change (o_sh (o_wake_all (swk (o_sh x1)) x1)) with (o_sh x1). rewrite EF.
  destruct (upd_wake_counts ofut of_meta oh_wake oh_wake_meta (o_futs x) fid k f f' (swk (o_sh x1)) ND WO K4 L Hw) as (UW & UP). lia.
Qed.

Lemma notify_len n a l : length (fst (ev_notify n a l)) = length l.
Proof. pose proof (notify_rel n a l) as R. destruct (ev_notify n a l) as [l' ws]. cbn [fst]. apply upd_ids in R. assert (H : length (map eid l') = length (map eid l)) by (rewrite R; reflexivity). rewrite !map_length in H. exact H. Qed.

Lemma remove_len id l : In id (map eid l) -> S (length (ev_remove id l)) = length l.
Proof.
  induction l as [|e r IH]; [intros []|]. cbn [ev_remove map]. destruct (Nat.eqb (eid e) id) eqn:Q.
  - intros _. reflexivity.
  - intros [H|H]; [apply Nat.eqb_neq in Q; contradiction|]. cbn [length]. rewrite (IH H). reflexivity.
Qed.
Lemma set_len id st l : length (ev_set id st l) = length l.
Proof. induction l as [|e r IH]; [reflexivity|]. cbn [ev_set]. destruct (Nat.eqb (eid e) id); cbn [length]; [reflexivity | rewrite IH; reflexivity]. Qed.

(* what the end of an initialiser's run does to the counts (entered with no wakers recorded) *)
Lemma finish_counts k r y : swk (o_sh y) = [] ->
  let s := o_sh y in let s' := o_sh (fst (init_finish k r None y)) in
  sL s' = sL s /\ N.of_nat (length (swk s')) + sN s <= sN s' /\
  match r with
  | OOk _ => sw0 s' = 2
  | _ => sw0 s' = 0 /\ sN s' <= sN s + 1
  end.
Proof.
  intros WK. cbv zeta. unfold init_finish. destruct r as [v|e|]; cbn [fst o_sh o_upd o_note_init drop_listener_opt].
  - set (s1 := store W0 ST_INIT (o_sh y)).
    destruct (notify0_proj usize_max true s1) as (A1 & A2 & A3 & A4 & A5 & A6). set (s2 := notify E0 usize_max true s1) in *.
    destruct (notify1_proj usize_max true s2) as (B1 & B2 & B3 & B4 & B5 & B6). set (s3 := notify E1 usize_max true s2) in *.
    change (se0 s1) with (se0 (o_sh y)) in *. change (se1 s1) with (se1 (o_sh y)) in *. change (swk s1) with (swk (o_sh y)) in *. change (sw0 s1) with 2 in *.
    rewrite A3 in B1, B2.
    pose proof (notify_count usize_max true (se0 (o_sh y))) as C0. pose proof (notify_count usize_max true (se1 (o_sh y))) as C1.
    pose proof (notify_len usize_max true (se0 (o_sh y))) as L0. pose proof (notify_len usize_max true (se1 (o_sh y))) as L1.
    destruct (ev_notify usize_max true (se0 (o_sh y))) as [l0 w0]. destruct (ev_notify usize_max true (se1 (o_sh y))) as [l1 w1]. cbn [fst snd] in *.
    destruct C0 as (C0 & _). destruct C1 as (C1 & _).
    unfold sL, sN. rewrite ?B1, ?B3, ?A1, ?A3, ?B2, ?A2, ?WK, ?B6, ?A6. cbn [app]. rewrite app_length, L0, L1. split; [reflexivity|]. split; [lia | reflexivity].
  - unfold guard_drop. set (s1 := store W0 ST_UNINIT (o_sh y)).
    destruct (notify0_proj 1 false s1) as (A1 & A2 & A3 & A4 & A5 & A6).
    change (se0 s1) with (se0 (o_sh y)) in *. change (se1 s1) with (se1 (o_sh y)) in *. change (swk s1) with (swk (o_sh y)) in *. change (sw0 s1) with 0 in *.
    pose proof (notify_count 1 false (se0 (o_sh y))) as C0. pose proof (notify_len 1 false (se0 (o_sh y))) as L0.
    destruct (ev_notify 1 false (se0 (o_sh y))) as [l0 w0]. cbn [fst snd] in *. destruct C0 as (C0 & C0' & _).
    unfold sL, sN. rewrite A1, A2, A3, A6, WK. cbn [app]. rewrite L0. split; [reflexivity|]. split; [lia|]. split; [reflexivity | lia].
  - unfold guard_drop. set (s1 := store W0 ST_UNINIT (o_sh y)).
    destruct (notify0_proj 1 false s1) as (A1 & A2 & A3 & A4 & A5 & A6).
    change (se0 s1) with (se0 (o_sh y)) in *. change (se1 s1) with (se1 (o_sh y)) in *. change (swk s1) with (swk (o_sh y)) in *. change (sw0 s1) with 0 in *.
    pose proof (notify_count 1 false (se0 (o_sh y))) as C0. pose proof (notify_len 1 false (se0 (o_sh y))) as L0.
    destruct (ev_notify 1 false (se0 (o_sh y))) as [l0 w0]. cbn [fst snd] in *. destruct C0 as (C0 & C0' & _).
    unfold sL, sN. rewrite A1, A2, A3, A6, WK. cbn [app]. rewrite L0. split; [reflexivity|]. split; [lia|]. split; [reflexivity | lia].
Qed.

(* ---------- the futures list through one operation ---------- *)
Lemma init_finish_futs' k r el y : o_futs (fst (init_finish k r el y)) = o_futs y.
Proof. destruct r; reflexivity. Qed.
Lemma init_loop_futs fuel w k gate : forall el x, o_futs (fst (init_loop fuel w k gate el x)) = o_futs x.
Proof.
  induction fuel as [|fuel IH]; intros el x; [reflexivity|]. rewrite iloop_S. cbv zeta.
  destruct (getw W0 (o_sh x) =? ST_INIT); [reflexivity|]. destruct (getw W0 (o_sh x) =? ST_INITING).
  - destruct el as [id|].
    + destruct (poll_listener E0 id w (o_sh x)) as [s r]. destruct r; [rewrite IH; reflexivity | reflexivity].
    + destruct (listen E0 (o_sh x)) as [s id]. rewrite IH. reflexivity.
  - destruct (getw W0 (o_sh x) =? ST_UNINIT); [|reflexivity].
    destruct (cas W0 ST_UNINIT ST_INITING (o_sh x)) as [s prev]. destruct (negb (prev =? ST_UNINIT)); [rewrite IH; reflexivity|].
    destruct k as [| |v]; [destruct gate as [r|]; [rewrite init_finish_futs'; reflexivity | reflexivity] | destruct gate as [r|]; [rewrite init_finish_futs'; reflexivity | reflexivity] | rewrite init_finish_futs'; reflexivity].
Qed.
Lemma init_poll_futs w k ist gate x : o_futs (fst (init_poll w k ist gate x)) = o_futs x.
Proof.
  unfold init_poll. destruct ist as [|id|el|].
  - destruct (getw W0 (o_sh x) =? ST_INIT); [reflexivity | apply init_loop_futs].
  - destruct (poll_listener E0 id w (o_sh x)) as [s r]. destruct r; [rewrite init_loop_futs; reflexivity | reflexivity].
  - destruct gate as [r|]; [apply init_finish_futs' | reflexivity].
  - reflexivity.
Qed.

(* a valid poll replaces the polled future by one that carries the poll's waker *)
Lemma poll_futs x fid kk f : alookup fid (o_futs x) = Some f -> o_alive x = true ->
  fstatus_eqb (fm_st (of_meta f)) FDone || Nat.leb 4 kk = false ->
  (exists st m, o_futs (fst (ostep_core x (OPoll fid kk))) = aupdate fid (mkOfut st (mkMeta m (Some (wtag fid kk)) false)) (o_futs x)) \/
  o_futs (fst (ostep_core x (OPoll fid kk))) = o_futs x.
Proof.
  intros L Al V. unfold ostep_core. rewrite Al. cbn [negb]. cbv zeta. rewrite L, V.
  destruct (of_st f) as [ws|k ist gate].
  - destruct ws as [|id|]; [| |right; reflexivity].
    + destruct (getw W0 (o_sh x) =? ST_INIT); [left; eexists; eexists; reflexivity|].
      destruct (listen E1 (o_sh x)) as [s id]. destruct (getw W0 s =? ST_INIT); [left; eexists; eexists; reflexivity|].
      destruct (poll_listener E1 id (wtag fid kk) s) as [s2 r]. destruct r; left; eexists; eexists; reflexivity.
    + destruct (poll_listener E1 id (wtag fid kk) (o_sh x)) as [s2 r]. destruct r; left; eexists; eexists; reflexivity.
  - pose proof (init_poll_futs (wtag fid kk) k ist gate x) as IF. destruct (init_poll (wtag fid kk) k ist gate x) as [x' ir]. cbn [fst] in IF.
    destruct ir as [ist'|r ran]; [left; cbn [fst o_futs o_upd]; rewrite IF; eexists; eexists; reflexivity|].
    destruct k as [| |v]; [| |destruct ran]; left; cbn [fst o_futs o_upd o_add_drop]; rewrite IF; eexists; eexists; reflexivity.
Qed.

Lemma oWOK_step x o : NoDup (map fst (o_futs x)) -> oWOK x -> oWOK (fst (ostep x o)).
Proof.
  intros ND WO. unfold ostep. set (x0 := o_upd x (set_wk [] (o_sh x)) (o_value x) (o_futs x)).
  assert (W0' : oWOK x0) by exact WO. assert (ND0 : NoDup (map fst (o_futs x0))) by exact ND.
  assert (CORE : oWOK (fst (ostep_core x0 o))).
  { revert W0' ND0. generalize x0. clear. intros x WO ND.
    destruct (o_alive x) eqn:Al; [|unfold ostep_core; rewrite Al; exact WO].
    destruct o as [|k|fid kk|fid r|fid| | |].
    - unfold ostep_core. rewrite Al. cbn [negb fst]. unfold oWOK. cbn [o_futs]. apply wakers_ok_app; [exact WO | reflexivity].
    - unfold ostep_core. rewrite Al. cbn [negb fst]. unfold oWOK. cbn [o_futs]. apply wakers_ok_app; [exact WO | reflexivity].
    - destruct (alookup fid (o_futs x)) as [f|] eqn:L; [|unfold ostep_core; rewrite Al; cbn [negb]; cbv zeta; rewrite L; exact WO].
      destruct (fstatus_eqb (fm_st (of_meta f)) FDone || Nat.leb 4 kk) eqn:V; [unfold ostep_core; rewrite Al; cbn [negb]; cbv zeta; rewrite L, V; exact WO|].
      pose proof V as V'. apply Bool.orb_false_iff in V'. destruct V' as (_ & V2). apply Nat.leb_gt in V2.
      destruct (poll_futs x fid kk f L Al V) as [(st & m & E)|E]; unfold oWOK; rewrite E; [|exact WO].
      apply wakers_ok_aupdate; [exact WO|]. intros w Hw. cbn in Hw. inversion Hw. exists kk. split; [exact V2 | reflexivity].
    - unfold ostep_core. rewrite Al. cbn [negb]. cbv zeta.
      destruct (alookup fid (o_futs x)) as [[[st|k ist [g|]] m]|] eqn:L; try exact WO.
      destruct (_ && _); [|exact WO]. cbn [fst]. unfold oWOK. cbn [o_futs o_upd].
      apply wakers_ok_aupdate; [exact WO|]. intros w Hw. cbn in Hw. apply (WO fid _ w (alookup_In _ _ _ L)). exact Hw.
    - unfold ostep_core. rewrite Al. cbn [negb]. cbv zeta. destruct (alookup fid (o_futs x)) as [f|] eqn:L; [|exact WO].
      cbn [fst]. unfold oWOK. cbn [o_futs o_upd].
      assert (E : o_futs (ofut_drop (of_st f) x) = o_futs x).
      { unfold ofut_drop. destruct (of_st f) as [[|id|]|k [|id|el|] g]; try reflexivity; destruct k; reflexivity. }
      rewrite E. apply wakers_ok_aremove. exact WO.
    - unfold ostep_core. rewrite Al. cbn [negb]. cbv zeta. destruct (getw W0 (o_sh x) =? ST_INIT); exact WO.
    - unfold ostep_core. rewrite Al. cbn [negb]. cbv zeta. destruct (o_futs x) as [|p l] eqn:F; [|exact WO].
      destruct (getw W0 (o_sh x) =? ST_INIT); [intros k f w [] | exact WO].
    - unfold ostep_core. rewrite Al. cbn [negb]. cbv zeta. destruct (o_futs x) as [|p l] eqn:F; [intros k f w [] | exact WO]. }
  destruct (ostep_core x0 o) as [x1 r]. cbn [fst] in *. unfold oWOK. rewrite o_wake_all_eq. apply wakers_ok_wake; [apply oh_wake_meta | exact CORE].
Qed.

(* ---------- one settle poll decreases the potential ---------- *)
Lemma settle_final x fid k f f' x1 : NoDup (map fst (o_futs x)) -> oWOK x -> (k < 4)%nat ->
  alookup fid (o_futs x) = Some f -> wW ofut of_meta f = 1 -> wP ofut of_meta f = 1 ->
  fm_w (of_meta f') = Some (wtag fid k) -> wW ofut of_meta f' = 0 ->
  o_futs x1 = aupdate fid f' (o_futs x) ->
  N.of_nat (length (swk (o_sh x1))) + 2 * sN (o_sh x1) + 3 * wP ofut of_meta f' + extra (o_sh x1) <= 2 * sN (o_sh x) + extra (o_sh x) + 3 ->
  oPhi (o_wake_all (swk (o_sh x1)) x1) + 1 <= oPhi x.
Proof.
  intros ND WO K4 L WF PF Hw WF' EF NUM. pose proof (ophi_final x fid k f f' x1 ND WO K4 L Hw EF) as PB.
  rewrite WF, PF, WF' in PB. unfold oPhi at 2. lia.
Qed.

Lemma cN_le_len l : cN l <= N.of_nat (length l).
Proof. unfold cN. pose proof (count_le_len l). lia. Qed.
Lemma sN_le_sL s : sN s <= sL s.
Proof. unfold sN, sL. pose proof (cN_le_len (se0 s)). pose proof (cN_le_len (se1 s)). lia. Qed.

Lemma add_drop_wake wk y : o_wake_all wk (o_add_drop y) = o_add_drop (o_wake_all wk y).
Proof. reflexivity. Qed.
Lemma oPhi_add_drop y : oPhi (o_add_drop y) = oPhi y.
Proof. reflexivity. Qed.

(* the tail shared by every completed init poll *)
Lemma finish_poll_phi x fid k f kd gate y r ran : NoDup (map fst (o_futs x)) -> oWOK x -> (k < 4)%nat ->
  alookup fid (o_futs x) = Some f -> wW ofut of_meta f = 1 -> wP ofut of_meta f = 1 -> o_futs y = o_futs x ->
  N.of_nat (length (swk (o_sh y))) + 2 * sN (o_sh y) + extra (o_sh y) <= 2 * sN (o_sh x) + extra (o_sh x) + 3 ->
  let x1 := fst (finish_poll fid (wtag fid k) kd gate (y, IRDone r ran)) in
  oPhi (o_wake_all (swk (o_sh x1)) x1) + 1 <= oPhi x.
Proof.
  intros ND WO K4 L WF PF EF NUM. cbv zeta.
  set (f' := mkOfut (OFInit kd IFin gate) (mkMeta FDone (Some (wtag fid k)) false)).
  assert (G : oPhi (o_wake_all (swk (o_sh y)) (o_upd y (o_sh y) (o_value y) (aupdate fid f' (o_futs y)))) + 1 <= oPhi x).
  { apply (settle_final x fid k f f' (o_upd y (o_sh y) (o_value y) (aupdate fid f' (o_futs y))) ND WO K4 L WF PF eq_refl eq_refl); [cbn [o_futs o_upd]; rewrite EF; reflexivity|].
    cbn [o_sh o_upd]. change (wP ofut of_meta f') with 0. lia. }
  unfold finish_poll. destruct kd as [| |v]; cbn [fst]; try exact G. destruct ran; cbn [fst]; [exact G|].
  change (o_sh (o_upd (o_add_drop y) (o_sh (o_add_drop y)) (o_value (o_add_drop y)) (aupdate fid f' (o_futs (o_add_drop y))))) with (o_sh y). exact G.
Qed.

Lemma sN_sete0 l s : sN (sete E0 l s) = cN l + cN (se1 s). Proof. reflexivity. Qed.
Lemma sN_sete1 l s : sN (sete E1 l s) = cN (se0 s) + cN l. Proof. reflexivity. Qed.

(* entering initialize_or_wait without a listener, from the store [s0] (swk = []) whose active_initializers list is l0 *)
Lemma enter_phi x fid k f kd ist0 gate l0 : OInv x -> oWOK x -> (k < 4)%nat ->
  alookup fid (o_futs x) = Some f -> of_st f = OFInit kd ist0 gate -> wW ofut of_meta f = 1 -> wP ofut of_meta f = 1 ->
  cN l0 + 1 <= cN (se0 (o_sh x)) -> N.of_nat (length l0) + 1 <= N.of_nat (length (se0 (o_sh x))) ->
  let xr := o_upd x (sete E0 l0 (set_wk [] (o_sh x))) (o_value x) (o_futs x) in
  let x1 := fst (finish_poll fid (wtag fid k) kd gate (enter (wtag fid k) kd gate xr)) in
  oPhi (o_wake_all (swk (o_sh x1)) x1) + 1 <= oPhi x.
Proof.
  intros HX WO K4 L St WF PF CN LN xr. cbv zeta. pose proof HX as [W V2 V0 Ini R I0 I1 Sh [K1 K2] Er A0 AN NN].
  assert (SNr : sN (o_sh xr) + 1 <= sN (o_sh x)) by (unfold xr, sN; cbn [o_sh o_upd se0 se1 sete set_wk]; lia).
  assert (SLr : sL (o_sh xr) + 1 <= sL (o_sh x)) by (unfold xr, sL; cbn [o_sh o_upd se0 se1 sete set_wk]; lia).
  unfold enter. change (sw0 (o_sh xr)) with (sw0 (o_sh x)).
  destruct W as [Z|[Z|Z]]; rewrite Z.
  - change (0 =? 2) with false. change (0 =? 1) with false. cbv iota zeta.
    set (y := o_note_start (o_upd xr (setw W0 1 (o_sh xr)) (o_value xr) (o_futs xr))).
    assert (EX : extra (o_sh x) = 3 * sL (o_sh x)) by (unfold extra; rewrite Z; reflexivity).
    assert (FIN : forall r, let x1 := fst (finish_poll fid (wtag fid k) kd gate (init_finish kd r None y)) in oPhi (o_wake_all (swk (o_sh x1)) x1) + 1 <= oPhi x).
    { intro r. pose proof (finish_counts kd r y eq_refl) as FC. cbv zeta in FC. pose proof (init_finish_futs' kd r None y) as FF.
      destruct (init_finish kd r None y) as [y' ir] eqn:E. cbn [fst] in FC, FF.
      assert (exists rr ran, ir = IRDone rr ran) as (rr & ran & ->) by (unfold init_finish in E; destruct r; inversion E; eexists; eexists; reflexivity).
      apply (finish_poll_phi x fid k f kd gate y' rr ran K1 WO K4 L WF PF); [rewrite FF; reflexivity|].
      destruct FC as (FL & FN & FR). change (sL (o_sh y)) with (sL (o_sh xr)) in FL. change (sN (o_sh y)) with (sN (o_sh xr)) in FN.
      pose proof (sN_le_sL (o_sh y')) as SL'. destruct r as [v|e|].
      - unfold extra at 1. rewrite FR. change (2 =? 2) with true. cbv iota. rewrite EX. lia.
      - destruct FR as (FR & FB). unfold extra at 1. rewrite FR. change (0 =? 2) with false. cbv iota. rewrite EX. change (sN (o_sh y)) with (sN (o_sh xr)) in FB. lia.
      - destruct FR as (FR & FB). unfold extra at 1. rewrite FR. change (0 =? 2) with false. cbv iota. rewrite EX. change (sN (o_sh y)) with (sN (o_sh xr)) in FB. lia. }
    destruct gate as [r|]; [destruct kd; apply FIN|].
    assert (PEND : let x1 := fst (finish_poll fid (wtag fid k) kd None (y, IRPending (IRunning None))) in oPhi (o_wake_all (swk (o_sh x1)) x1) + 1 <= oPhi x).
    { cbv zeta. cbn [finish_poll fst]. set (f' := mkOfut (OFInit kd (IRunning None) None) (mkMeta FPending (Some (wtag fid k)) false)).
      apply (settle_final x fid k f f' (o_upd y (o_sh y) (o_value y) (aupdate fid f' (o_futs y))) K1 WO K4 L WF PF eq_refl eq_refl); [reflexivity|].
      cbn [o_sh o_upd]. change (wP ofut of_meta f') with 1. change (swk (o_sh y)) with (@nil waker). change (sN (o_sh y)) with (sN (o_sh xr)).
      assert (EY : extra (o_sh y) = 3 * sL (o_sh xr)) by reflexivity. rewrite EY, EX. cbn [length]. lia. }
    destruct kd as [| |v]; [exact PEND | exact PEND | apply FIN].
  - change (1 =? 2) with false. change (1 =? 1) with true. cbv iota. cbn [finish_poll fst].
    set (f' := mkOfut (OFInit kd (IWait (snid (o_sh xr))) gate) (mkMeta FPending (Some (wtag fid k)) false)).
    match goal with |- oPhi (o_wake_all _ ?x1) + 1 <= _ => apply (settle_final x fid k f f' x1 K1 WO K4 L WF PF eq_refl eq_refl); [reflexivity|] end.
    cbn [o_sh o_upd]. change (wP ofut of_meta f') with 1.
    match goal with |- context [extra ?s] => assert (EY : extra s = 3 * (sL (o_sh xr) + 1) /\ sN s = sN (o_sh xr)) end.
    { unfold extra, sL, sN, xr. cbn [o_sh o_upd sw0 se0 se1 set_nid sete set_wk]. rewrite Z. change (1 =? 2) with false. cbv iota. rewrite app_length, cN_app. cbn [length is_notified est]. split; lia. }
    destruct EY as (EY & EN). assert (EX : extra (o_sh x) = 3 * sL (o_sh x)) by (unfold extra; rewrite Z; reflexivity).
    rewrite EY, EN, EX. match goal with |- context [length (swk ?s)] => change (swk s) with (@nil waker) end. cbn [length]. lia.
  - change (2 =? 2) with true. cbv iota.
    apply (finish_poll_phi x fid k f kd gate _ (RVal (cell_val xr)) false K1 WO K4 L WF PF); [reflexivity|].
    cbn [o_sh o_upd]. assert (EY : extra (o_sh xr) = 0) by (unfold extra; change (sw0 (o_sh xr)) with (sw0 (o_sh x)); rewrite Z; reflexivity).
    rewrite EY. match goal with |- context [length (swk ?s)] => change (swk s) with (@nil waker) end. cbn [length]. lia.
Qed.

Lemma once_settle_step x fid k f : OInv x -> oWOK x -> o_alive x = true ->
  alookup fid (o_futs x) = Some f -> fm_st (of_meta f) = FPending -> fm_woken (of_meta f) = true -> (k < 4)%nat ->
  oPhi (fst (ostep x (OPoll fid k))) + 1 <= oPhi x.
Proof.
  intros HX WO Al L P Wk K4. pose proof HX as [W V2 V0 Ini R I0 I1 Sh [K1 K2] Er A0 AN NN].
  assert (WF : wW ofut of_meta f = 1) by (unfold wW, pendb; rewrite P, Wk; reflexivity).
  assert (PF : wP ofut of_meta f = 1) by (unfold wP, pendb; rewrite P; reflexivity).
  pose proof (Sh fid f L) as SP. unfold oshape1 in SP. rewrite P in SP.
  unfold ostep. set (x0 := o_upd x (set_wk [] (o_sh x)) (o_value x) (o_futs x)).
  unfold ostep_core. change (o_alive x0) with (o_alive x). rewrite Al. cbn [negb]. cbv zeta. change (o_futs x0) with (o_futs x). rewrite L.
  assert (V : fstatus_eqb (fm_st (of_meta f)) FDone || Nat.leb 4 k = false).
  { apply Bool.orb_false_iff. split; [rewrite P; reflexivity | apply Nat.leb_gt; exact K4]. }
  rewrite V. change (o_sh x0) with (set_wk [] (o_sh x)). change (o_value x0) with (o_value x).
  destruct SP as [(id & St)|[(kd & id & g & St)|(kd & g & St)]]; rewrite St.
  - (* a waiter on passive_waiters *)
    assert (Ls : olis1 f = Some id) by (unfold olis1; rewrite St; reflexivity).
    pose proof (ib_listed _ _ _ _ _ _ _ I1 fid f id L Ls) as Hin.
    unfold poll_listener, ev_poll. cbn [gete]. change (se1 (set_wk [] (o_sh x))) with (se1 (o_sh x)).
    pose proof (cN_remove id (se1 (o_sh x))) as CR. unfold notified_at in CR.
    destruct (ev_find id (se1 (o_sh x))) as [[|w0|a]|] eqn:Fd; [| | |exfalso; apply ev_find_None in Fd; contradiction].
    1,2: cbv beta iota zeta; cbn [andb fst];
      set (f' := mkOfut (OFWait (WAwait id)) (mkMeta FPending (Some (wtag fid k)) false));
      match goal with |- oPhi (o_wake_all _ ?x1) + 1 <= _ => apply (settle_final x fid k f f' x1 K1 WO K4 L WF PF eq_refl eq_refl); [reflexivity|] end;
      cbn [o_sh o_upd]; change (wP ofut of_meta f') with 1;
      match goal with |- context [extra ?s] => assert (EY : extra s = extra (o_sh x) /\ sN s = sN (o_sh x)) end;
      [ unfold extra, sL, sN; cbn [sw0 se0 se1 sete set_wk]; rewrite set_len; rewrite (cN_set_task id (wtag fid k)) by (unfold notified_at; rewrite Fd; reflexivity); split; reflexivity
      | destruct EY as (EY & EN); rewrite EY, EN; match goal with |- context [length (swk ?s)] => change (swk s) with (@nil waker) end; cbn [length]; lia ].
    (* notified: the cell is initialised *)
    assert (Z : sw0 (o_sh x) = 2) by (destruct (N.eq_dec (sw0 (o_sh x)) 2) as [Z|Z]; [exact Z|]; exfalso; apply (nn_find id _ a (NN Z) Fd)).
    cbv beta iota zeta. cbn [getw sw0 sete set_wk]. rewrite Z. change (2 =? ST_INIT) with true. cbn [andb negb fst].
    set (f' := mkOfut (OFWait WFin) (mkMeta FDone (Some (wtag fid k)) false)).
    match goal with |- oPhi (o_wake_all _ ?x1) + 1 <= _ => apply (settle_final x fid k f f' x1 K1 WO K4 L WF PF eq_refl eq_refl); [reflexivity|] end.
    cbn [o_sh o_upd]. change (wP ofut of_meta f') with 0.
    match goal with |- context [extra ?s] => assert (EY : extra s = 0 /\ sN s + 1 = sN (o_sh x)) end.
    { unfold extra, sN. cbn [sw0 se0 se1 sete set_wk]. split; [reflexivity | lia]. }
    destruct EY as (EY & EN). rewrite EY. match goal with |- context [length (swk ?s)] => change (swk s) with (@nil waker) end. cbn [length]. lia.
  - (* queued on active_initializers *)
    assert (Ls : olis0 f = Some id) by (unfold olis0; rewrite St; reflexivity).
    pose proof (ib_listed _ _ _ _ _ _ _ I0 fid f id L Ls) as Hin.
    change (init_poll (wtag fid k) kd (IWait id) g x0) with (init_poll (wtag fid k) kd (IWait id) g x0).
    unfold init_poll. unfold poll_listener, ev_poll. cbn [gete]. change (se0 (o_sh x0)) with (se0 (o_sh x)).
    pose proof (cN_remove id (se0 (o_sh x))) as CR. unfold notified_at in CR.
    destruct (ev_find id (se0 (o_sh x))) as [[|w0|a]|] eqn:Fd; [| | |exfalso; apply ev_find_None in Fd; contradiction].
    1,2: cbv beta iota zeta; cbn [fst];
      set (f' := mkOfut (OFInit kd (IWait id) g) (mkMeta FPending (Some (wtag fid k)) false));
      match goal with |- oPhi (o_wake_all _ ?x1) + 1 <= _ => apply (settle_final x fid k f f' x1 K1 WO K4 L WF PF eq_refl eq_refl); [reflexivity|] end;
      cbn [fst o_sh o_upd]; change (wP ofut of_meta f') with 1;
      match goal with |- context [extra ?s] => assert (EY : extra s = extra (o_sh x) /\ sN s = sN (o_sh x)) end;
      [ unfold extra, sL, sN, x0; cbn [o_sh o_upd sw0 se0 se1 sete set_wk]; rewrite set_len; rewrite (cN_set_task id (wtag fid k)) by (unfold notified_at; rewrite Fd; reflexivity); split; reflexivity
      | destruct EY as (EY & EN); rewrite EY, EN; match goal with |- context [length (swk ?s)] => change (swk s) with (@nil waker) end; cbn [length]; lia ].
    (* notified: its turn *)
    cbv beta iota zeta. change OFUEL with (S (S 6)).
    rewrite enter_paths; cbn [o_sh o_upd se0 sete snid sw0]; [|exact W | intros i Hi; apply ids_remove_incl in Hi; apply (ib_fresh _ _ _ _ _ _ _ I0); exact Hi].
    pose proof (enter_phi x fid k f kd (IWait id) g (ev_remove id (se0 (o_sh x))) HX WO K4 L St WF PF) as EP. cbv zeta in EP.
    assert (LN : N.of_nat (length (ev_remove id (se0 (o_sh x)))) + 1 <= N.of_nat (length (se0 (o_sh x)))) by (pose proof (remove_len id _ Hin); lia).
    specialize (EP ltac:(lia) LN).
    match goal with |- context [enter ?w0 ?k0 ?g0 ?a] => change a with (o_upd x (sete E0 (ev_remove id (se0 (o_sh x))) (set_wk [] (o_sh x))) (o_value x) (o_futs x)) end.
    unfold finish_poll in EP.
    destruct (enter (wtag fid k) kd g (o_upd x (sete E0 (ev_remove id (se0 (o_sh x))) (set_wk [] (o_sh x))) (o_value x) (o_futs x))) as [y ir].
    destruct ir as [ist'|r ran]; [exact EP|]. destruct kd as [| |v]; [exact EP | exact EP | destruct ran; exact EP].
  - (* running its closure: woken by the closure's future completing *)
    unfold init_poll. destruct g as [r|].
    + pose proof (finish_counts kd r x0 eq_refl) as FC. cbv zeta in FC. pose proof (init_finish_futs' kd r None x0) as FF.
      assert (Z : sw0 (o_sh x) = 1).
      { pose proof (asum_In running fid f (o_futs x) (alookup_In _ _ _ L)) as LE. unfold running in LE at 1. rewrite St in LE. unfold nrun in R. rewrite R in LE.
        destruct (sw0 (o_sh x) =? 1) eqn:Q; [apply N.eqb_eq in Q; exact Q | lia]. }
      destruct (init_finish kd r None x0) as [y' ir] eqn:E. cbn [fst] in FC, FF.
      assert (exists rr ran, ir = IRDone rr ran) as (rr & ran & ->) by (unfold init_finish in E; destruct r; inversion E; eexists; eexists; reflexivity).
      pose proof (finish_poll_phi x fid k f kd (Some r) y' rr ran K1 WO K4 L WF PF) as FP. cbv zeta in FP.
      destruct FC as (FL & FN & FR). change (sL (o_sh x0)) with (sL (o_sh x)) in FL. change (sN (o_sh x0)) with (sN (o_sh x)) in FN.
      assert (EX : extra (o_sh x) = 3 * sL (o_sh x)) by (unfold extra; rewrite Z; reflexivity).
      pose proof (sN_le_sL (o_sh y')) as SL'.
      assert (NUM : N.of_nat (length (swk (o_sh y'))) + 2 * sN (o_sh y') + extra (o_sh y') <= 2 * sN (o_sh x) + extra (o_sh x) + 3).
      { destruct r as [v|e|].
        - unfold extra at 1. rewrite FR. change (2 =? 2) with true. cbv iota. rewrite EX. lia.
        - destruct FR as (FR & FB). unfold extra at 1. rewrite FR. change (0 =? 2) with false. cbv iota. rewrite EX. change (sN (o_sh x0)) with (sN (o_sh x)) in FB. lia.
        - destruct FR as (FR & FB). unfold extra at 1. rewrite FR. change (0 =? 2) with false. cbv iota. rewrite EX. change (sN (o_sh x0)) with (sN (o_sh x)) in FB. lia. }
      specialize (FP ltac:(rewrite FF; reflexivity) NUM). unfold finish_poll in FP.
      destruct kd as [| |v]; [exact FP | exact FP | destruct ran; exact FP].
    + (* the flag was stale *)
      cbn [fst]. set (f' := mkOfut (OFInit kd (IRunning None) None) (mkMeta FPending (Some (wtag fid k)) false)).
      match goal with |- oPhi (o_wake_all _ ?x1) + 1 <= _ => apply (settle_final x fid k f f' x1 K1 WO K4 L WF PF eq_refl eq_refl); [reflexivity|] end.
      cbn [fst o_sh o_upd]. change (wP ofut of_meta f') with 1. change (sN (o_sh x0)) with (sN (o_sh x)). change (extra (o_sh x0)) with (extra (o_sh x)).
      match goal with |- context [length (swk ?s)] => change (swk s) with (@nil waker) end. cbn [length]. lia.
Qed.

Fixpoint osettle_run (x : oworld) (ops : list oop) : Prop :=
  match ops with
  | [] => True
  | o :: r => (exists fid k f, o = OPoll fid k /\ (k < 4)%nat /\ o_alive x = true /\ alookup fid (o_futs x) = Some f /\
                               fm_st (of_meta f) = FPending /\ fm_woken (of_meta f) = true) /\ osettle_run (fst (ostep x o)) r
  end.

Lemma once_settle_gen ops : forall x, OInv x -> oWOK x -> N.of_nat (snid (o_sh x)) + N.of_nat (length ops) < usize_max ->
  osettle_run x ops -> N.of_nat (length ops) <= oPhi x.
Proof.
  induction ops as [|o r IH]; intros x HX WO B SR; [cbn; lia|]. destruct SR as ((fid & k & f & -> & K4 & Al & L & P & Wk) & SR).
  pose proof (once_settle_step x fid k f HX WO Al L P Wk K4) as ST. cbn [length] in *.
  assert (RM : oroom x) by (unfold oroom; clear - B; lia).
  destruct (ostep_ok x (OPoll fid k) HX RM) as (Q1 & Q2).
  specialize (IH _ Q1 (oWOK_step x (OPoll fid k) (proj1 (oi_keys _ _ HX)) WO)).
  assert (N.of_nat (length r) <= oPhi (fst (ostep x (OPoll fid k)))) by (apply IH; [clear - B Q2; lia | exact SR]). lia.
Qed.

Lemma run_oWOK ops : N.of_nat (length ops) < ONCE_BOUND -> oWOK (orun ops) /\ (snid (o_sh (orun ops)) <= length ops)%nat.
Proof.
  intro B. unfold orun.
  assert (G : forall l x, OInv x -> oWOK x -> N.of_nat (snid (o_sh x)) + N.of_nat (length l) < usize_max ->
     oWOK (fold_left (fun x o => fst (ostep x o)) l x) /\ (snid (o_sh (fold_left (fun x o => fst (ostep x o)) l x)) <= snid (o_sh x) + length l)%nat).
  { induction l as [|o l IH]; intros x HX WO B1; cbn [fold_left length] in *; [split; [exact WO | lia]|].
    assert (RM : oroom x) by (unfold oroom; clear - B1; lia).
    destruct (ostep_ok x o HX RM) as (Q1 & Q2).
    destruct (IH _ Q1 (oWOK_step x o (proj1 (oi_keys _ _ HX)) WO)) as (A1 & A2); [clear - B1 Q2; lia|]. split; [exact A1 | lia]. }
  destruct (G ops ow0 OInv_init) as (A1 & A2).
  - intros k f w [].
  - cbn. unfold ONCE_BOUND in B. change usize_max with 18446744073709551615. clear - B. lia.
  - cbn in A2. split; [exact A1 | lia].
Qed.

Lemma oW_le_oP x : oW x <= oP x.
Proof. unfold oW, oP, cW, cP. induction (o_futs x) as [|[k f] l IH]; cbn [asum]; [lia|]. unfold wW, wP in *. destruct (pendb (of_meta f)); destruct (fm_woken (of_meta f)); cbn; lia. Qed.

(* C17 for the OnceCell: from any reachable state, however the woken futures are re-polled, at most
   4 * pending + 5 * listeners polls happen before no pending future is flagged woken *)
Theorem once_settle_bound ops0 ops : N.of_nat (length ops0) + N.of_nat (length ops) + 1 < ONCE_BOUND ->
  osettle_run (orun ops0) ops ->
  N.of_nat (length ops) <= 4 * oP (orun ops0) + 5 * sL (o_sh (orun ops0)).
Proof.
  intros B SR. assert (B0 : N.of_nat (length ops0) < ONCE_BOUND) by (clear - B; lia).
  destruct (run_oWOK ops0 B0) as (WO & SN).
  pose proof (once_settle_gen ops _ (run_OInv ops0 B0) WO) as G.
  assert (N.of_nat (length ops) <= oPhi (orun ops0)).
  { apply G; [|exact SR]. unfold ONCE_BOUND in B. change usize_max with 18446744073709551615. clear - B SN. lia. }
  unfold oPhi in H. pose proof (oW_le_oP (orun ops0)). pose proof (sN_le_sL (o_sh (orun ops0))).
  assert (extra (o_sh (orun ops0)) <= 3 * sL (o_sh (orun ops0))) by (unfold extra; destruct (sw0 (o_sh (orun ops0)) =? 2); lia). lia.
Qed.
