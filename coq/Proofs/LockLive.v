(* LockLive.v — what one poll / one drop of a lock future (the Mutex's, or the inner mutex's of RwLock
   and Barrier) does to the ownership invariant of the lock_ops event (W0 / E0), generic in the type of
   the futures that embed the lock future. *)
From AL Require Import Base Api Mutex BaseFacts ApiFacts EventFacts MutexWord MutexPaths.
From Coq Require Import Lia.

Definition lock_lis (l : lockfut) : option nat := match l with Some a => a_lis a | None => None end.
(* a lock future at rest: never polled, or pending with a listener, or completed without one *)
Definition lock_rest (l : lockfut) : Prop :=
  l = None \/ (exists id st, l = Some (mkAcq true (Some id) st)) \/ (exists st, l = Some (mkAcq false None st)).
Definition lock_pending (l : lockfut) : Prop := exists id st, l = Some (mkAcq true (Some id) st).

Definition avail0 (s : sh) : Prop := sw0 s mod 2 = 0 -> se0 s = [] \/ has_notified (se0 s) = true.

Lemma has_notified_set id w l : NoDup (map eid l) -> has_notified l = true ->
  (match ev_find id l with Some (Notified _) => False | _ => True end) ->
  has_notified (ev_set id (Task w) l) = true.
Proof.
  intros ND H NF. unfold has_notified in *. apply existsb_exists in H. destruct H as (e & He & Ne).
  apply existsb_exists. exists e. split; [|exact Ne]. apply In_set_keep; [exact He|].
  intro Q. destruct e as [i st]. cbn in Q. subst i. rewrite (In_find _ _ _ ND He) in NF.
  unfold is_notified in Ne. cbn in Ne. destruct st; try discriminate. contradiction.
Qed.

Section LockLive.
Variable F : Type.
Variable lis : F -> option nat.
Variable meta : F -> fmeta.
Notation Inv := (InvB F lis meta).

(* the store pieces of the first-poll slow path *)
Lemma become_starved_err s : sw0 s <= usize_max / 2 -> serr (become_starved s) = serr s.
Proof.
  intro H. unfold become_starved, fetch_add. cbn [getw].
  destruct (usize_max / 2 <? sw0 s) eqn:Q; [apply N.ltb_lt in Q; lia | reflexivity].
Qed.

Lemma reg_starved_proj w s : fresh0 s ->
  let s' := fst (poll_listener E0 (snid s) w (become_starved (fst (listen E0 s)))) in
  se0 s' = se0 s ++ [mkEntry (snid s) (Task w)] /\ snid s' = S (snid s) /\ sw0 s' = wadd (sw0 s) 2 /\
  swk s' = swk s /\ (sw0 s <= usize_max / 2 -> serr s' = serr s).
Proof.
  intro Fr. cbn zeta. set (s1 := fst (listen E0 s)).
  destruct (become_starved_facts s1) as (B1 & B2 & B3 & B4 & _).
  assert (NF : ~ In (snid s) (map eid (se0 s))) by (intro H; apply Fr in H; lia).
  assert (E1 : se0 s1 = se0 s ++ [mkEntry (snid s) Created]) by reflexivity.
  unfold poll_listener. cbn [gete]. unfold ev_poll. rewrite B1, E1.
  rewrite (find_app_fresh _ _ _ NF). rewrite (set_app_fresh _ _ _ _ NF). cbn [fst].
  split; [reflexivity|]. split; [exact B2|]. split; [exact B3|]. split; [exact B4|].
  intro H. cbn [serr sete]. apply (become_starved_err s1). exact H.
Qed.

(* ---- polling ---- *)
Lemma lock_poll_live wk look look' fid f0 f' w l s :
  Inv wk (se0 s) (snid s) look -> swk s = wk -> look fid = Some f0 -> lis f0 = lock_lis l ->
  (l = None \/ lock_pending l) ->
  avail0 s -> (sw0 s mod 2 = 0 -> 2 <= sw0 s -> se0 s <> []) ->
  sw0 s <= usize_max / 2 -> serr s = false -> lticket l <= sw0 s ->
  let '(l', s', r) := lock_poll W0 E0 w l s in
  (forall g, g <> fid -> look' g = look g) -> look' fid = Some f' -> lis f' = lock_lis l' ->
  (r = false -> fm_st (meta f') = FPending /\ fm_w (meta f') = Some w) ->
  Inv (swk s') (se0 s') (snid s') look' /\ avail0 s' /\ serr s' = false /\
  (if r then lock_lis l' = None else lock_pending l').
Proof.
  intros I WK L Ls Hl Av Hne Bd Er Htk.
  pose proof (ib_fresh _ _ _ _ _ _ _ I) as Fr. pose proof (ib_nodup _ _ _ _ _ _ _ I) as ND.
  assert (Bd2 : sw0 s + 2 < USZ). { rewrite USZ_val. change (usize_max / 2) with 9223372036854775807 in Bd. lia. }
  assert (Bd4 : sw0 s + 4 < USZ). { rewrite USZ_val. change (usize_max / 2) with 9223372036854775807 in Bd. lia. }
  destruct Hl as [->|(id & st & ->)].
  - (* first poll *)
    cbn [lock_poll lock_lis] in *.
    pose proof (try_lock_spec W0 s) as T. destruct (try_lock W0 s) as [s1 ok]. destruct T as (T1 & T2 & _ & RS).
    cbn [getw] in *. destruct ok.
    + destruct (T1 eq_refl) as (Z & O). destruct RS as (E0' & _ & _ & Ni & _ & Wk & Err).
      intros HF1 L' Ls' _. cbn [lock_lis] in Ls'.
      split; [|split; [|split; [congruence | reflexivity]]].
      * rewrite E0', Ni, Wk, WK. apply (InvB_frame F lis meta wk _ _ look look' fid); auto.
        -- intros f L0. rewrite L in L0. inversion L0; subst. exact Ls.
        -- intros f1 L1. rewrite L' in L1. inversion L1; subst. exact Ls'.
      * intro Ev. rewrite O in Ev. discriminate.
    + destruct (T2 eq_refl) as (NZ & ->).
      rewrite (first_paths w s Fr NZ). unfold first_spec.
      destruct (sw0 s =? 1) eqn:One.
      * destruct (do_reg_proj w s Fr) as (P1 & P2 & [Q0 _ _ _ _ Qk Qe _]).
        intros HF1 L' Ls' HP. cbn [lock_lis a_lis] in Ls'. destruct (HP eq_refl) as (HP1 & HP2).
        split; [|split; [|split; [congruence | exists (snid s), false; reflexivity]]].
        -- rewrite P1, P2, Qk, WK. apply (InvB_append F lis meta wk _ _ look look' fid f' w I); auto.
           intros f L0. rewrite L in L0. inversion L0; subst. exact Ls.
        -- intro Ev. rewrite Q0 in Ev. assert (sw0 s = 1) by lia. rewrite H in Ev. discriminate.
      * destruct (reg_starved_proj w s Fr) as (P1 & P2 & P3 & P4 & P5).
        intros HF1 L' Ls' HP. cbn [lock_lis a_lis] in Ls'. destruct (HP eq_refl) as (HP1 & HP2).
        split; [|split; [|split; [rewrite (P5 Bd); exact Er | exists (snid s), true; reflexivity]]].
        -- rewrite P1, P2, P4, WK. apply (InvB_append F lis meta wk _ _ look look' fid f' w I); auto.
           intros f L0. rewrite L in L0. inversion L0; subst. exact Ls.
        -- intro Ev. rewrite P3 in Ev. rewrite wadd_small in Ev by exact Bd2.
           replace (sw0 s + 2) with (sw0 s + 1 * 2) in Ev by lia. rewrite N.mod_add in Ev by lia.
           rewrite P1. right. rewrite has_notified_app. apply Bool.orb_true_iff. left.
           assert (2 <= sw0 s) by lia.
           destruct (Av Ev) as [E|H']; [exfalso; apply (Hne Ev H); exact E | exact H'].
  - (* a later poll *)
    cbn [lock_poll lock_lis a_lis] in *.
    assert (Hin : In id (map eid (se0 s))) by (apply (ib_listed _ _ _ _ _ _ _ I fid f0 id L Ls)).
    rewrite (later_paths w st id s Fr Hin Bd2). unfold later_spec.
    destruct (poll_proj id w s ND Hin) as (PE & PN & [P0 _ _ _ _ Pk Pe _]).
    set (s1 := fst (poll_listener E0 id w s)) in *.
    destruct (notified id s) eqn:Nt; cbn [negb].
    + (* the notification is consumed *)
      set (mid := fun g => if Nat.eqb g fid then None else look g).
      assert (I1 : Inv wk (se0 s1) (snid s1) mid).
      { rewrite PE, PN. apply (InvB_remove F lis meta wk _ _ look mid fid f0 id I L Ls).
        - intros g N. unfold mid. destruct (Nat.eqb g fid) eqn:Q; [apply Nat.eqb_eq in Q; contradiction | reflexivity].
        - intros f1 L1. unfold mid in L1. rewrite Nat.eqb_refl in L1. discriminate. }
      assert (MIDN : forall f, mid fid = Some f -> lis f = None) by (intros f1 L1; unfold mid in L1; rewrite Nat.eqb_refl in L1; discriminate).
      assert (MID' : forall g, g <> fid -> look' g = look g -> look' g = mid g).
      { intros g N E. unfold mid. destruct (Nat.eqb g fid) eqn:Q; [apply Nat.eqb_eq in Q; contradiction | exact E]. }
      assert (Fr1 : fresh0 s1) by (intros i Hi; rewrite PN; apply Fr; rewrite PE in Hi; apply ids_remove_incl in Hi; exact Hi).
      assert (WK1 : swk s1 = wk) by congruence.
      assert (Er1 : serr s1 = false) by congruence.
      (* completing: the future ends without listener *)
      assert (READY : forall wk' l' nid' s', Inv wk' l' nid' mid -> swk s' = wk' -> se0 s' = l' -> snid s' = nid' ->
                 forall a', a_lis a' = None ->
                 (forall g, g <> fid -> look' g = look g) -> look' fid = Some f' -> lis f' = lock_lis (Some a') ->
                 Inv (swk s') (se0 s') (snid s') look').
      { intros wk' l' nid' s' I' W' E' N' a' La HF1 L' Ls'. rewrite W', E', N'.
        apply (InvB_frame F lis meta wk' l' nid' mid look' fid I'); auto.
        intros f1 L1. rewrite L' in L1. inversion L1; subst. rewrite Ls'. exact La. }
      (* re-registering: a fresh entry with the new waker *)
      assert (REREG : forall wk' s', Inv wk' (se0 s') (snid s') mid -> swk s' = wk' -> fresh0 s' ->
                 forall st', (forall g, g <> fid -> look' g = look g) -> look' fid = Some f' ->
                 lis f' = lock_lis (Some (mkAcq true (Some (snid s')) st')) ->
                 fm_st (meta f') = FPending /\ fm_w (meta f') = Some w ->
                 Inv (swk (do_reg w s')) (se0 (do_reg w s')) (snid (do_reg w s')) look').
      { intros wk' s' I' W' F' st' HF1 L' Ls' (HP1 & HP2). destruct (do_reg_proj w s' F') as (P1 & P2 & [_ _ _ _ _ Qk _ _]).
        rewrite P1, P2, Qk, W'. apply (InvB_append F lis meta wk' _ _ mid look' fid f' w I'); auto. }
      destruct st.
      * (* starved *)
        cbn [a_starved]. assert (T2 : 2 <= sw0 s) by (cbn [lticket ticket a_mutex a_starved andb] in Htk; exact Htk).
        destruct (mod2_cases (sw0 s)) as [Ev|Od]; rewrite ?Ev, ?Od.
        -- replace (0 =? 0) with true by reflexivity.
           set (s2 := fst (fetch_or W0 1 s1)).
           assert (V2 : getw W0 s2 = sw0 s + 1) by (unfold s2; rewrite fetch_or_fst; rewrite getw_setw_same; cbn [getw]; rewrite P0; apply lor_1_even; exact Ev).
           pose proof (take_mutex_spec W0 (set_lis None (mkAcq true (Some id) true)) s2) as TM. cbn [ticket set_lis a_mutex a_starved andb] in TM.
           rewrite V2 in TM.
           destruct (take_mutex W0 (set_lis None (mkAcq true (Some id) true)) s2) as [a' s3].
           destruct TM as (M1 & M2 & M3 & M4 & _ & (ME0 & _) & MK & MN & MR & _); [lia | lia |].
           intros HF1 L' Ls' _.
           assert (E2 : se0 s2 = se0 s1 /\ snid s2 = snid s1 /\ swk s2 = swk s1 /\ serr s2 = serr s1) by (unfold s2; rewrite fetch_or_fst; repeat split).
           destruct E2 as (E2a & E2b & E2c & E2d).
           split; [|split; [|split; [congruence | cbn [lock_lis]; rewrite M3; reflexivity]]].
           ++ apply (READY wk (se0 s1) (snid s1) s3 I1) with (a' := a'); auto; try congruence.
           ++ intro Ev3. exfalso. cbn [getw] in M1. rewrite M1 in Ev3.
              replace (sw0 s + 1 - 2) with (sw0 s - 1) in Ev3 by (clear - T2; lia).
              assert (O1 : 1 <= sw0 s) by (clear - T2; lia).
              apply (odd_not_even _ (even_minus1_odd _ Ev O1) Ev3).
        -- replace (1 =? 0) with false by reflexivity.
           intros HF1 L' Ls' HP. destruct (do_reg_proj w s1 Fr1) as (Q1 & Q2 & [Q0 _ _ _ _ Qk Qe _]).
           split; [|split; [|split; [congruence | exists (snid s1), true; reflexivity]]].
           ++ apply (REREG wk s1 I1 WK1 Fr1 true); auto.
           ++ intro Ev3. rewrite Q0, P0, Od in Ev3. discriminate.
      * (* not starved *)
        cbn [a_starved].
        destruct (sw0 s =? 0) eqn:Z.
        -- (* lock acquired *)
           assert (Z' : sw0 s = 0) by lia.
           pose proof (take_mutex_spec W0 (set_lis None (mkAcq true (Some id) false)) (setw W0 1 s1)) as TM.
           cbn [ticket set_lis a_mutex a_starved andb] in TM. rewrite getw_setw_same in TM.
           destruct (take_mutex W0 (set_lis None (mkAcq true (Some id) false)) (setw W0 1 s1)) as [a' s3].
           destruct TM as (M1 & M2 & M3 & M4 & _ & (ME0 & _) & MK & MN & MR & _); [lia | rewrite USZ_val; lia |].
           intros HF1 L' Ls' _.
           split; [|split; [|split; [cbn in MR; congruence | cbn [lock_lis]; rewrite M3; reflexivity]]].
           ++ apply (READY wk (se0 s1) (snid s1) s3 I1) with (a' := a'); auto; cbn in *; try congruence.
           ++ intro Ev3. cbn [getw] in M1. rewrite M1 in Ev3. discriminate.
        -- destruct (sw0 s =? 1) eqn:One.
           ++ (* held, nobody starved: the clock decides *)
              assert (V1' : sw0 s = 1) by lia.
              set (s2 := fst (oracle s1)).
              assert (O2 : se0 s2 = se0 s1 /\ snid s2 = snid s1 /\ swk s2 = swk s1 /\ serr s2 = serr s1 /\ sw0 s2 = sw0 s1).
              { unfold s2, oracle. destruct (sorc s1); repeat split. }
              destruct O2 as (O2a & O2b & O2c & O2d & O2e).
              assert (I2 : Inv wk (se0 s2) (snid s2) mid) by (rewrite O2a, O2b; exact I1).
              assert (Fr2 : fresh0 s2) by (apply (fresh0_same s1); auto).
              destruct (snd (oracle s1)).
              ** set (s3 := become_starved s2).
                 destruct (become_starved_facts s2) as (B1 & B2 & B3 & B4 & _). fold s3 in B1, B2, B3, B4.
                 assert (I3 : Inv wk (se0 s3) (snid s3) mid) by (rewrite B1, B2; exact I2).
                 assert (Fr3 : fresh0 s3) by (apply (fresh0_same s2); auto).
                 intros HF1 L' Ls' HP. destruct (do_reg_proj w s3 Fr3) as (Q1 & Q2 & [Q0 _ _ _ _ Qk Qe _]).
                 split; [|split; [|split; [|exists (snid s3), true; rewrite B2; reflexivity]]].
                 --- apply (REREG wk s3 I3) with (st' := true); auto; try congruence.
                 --- intro Ev3. rewrite Q0, B3, O2e, P0, V1' in Ev3. rewrite wadd_small in Ev3 by (rewrite USZ_val; lia). discriminate.
                 --- rewrite Qe. unfold s3. rewrite become_starved_err by (rewrite O2e, P0; exact Bd). congruence.
              ** intros HF1 L' Ls' HP. destruct (do_reg_proj w s2 Fr2) as (Q1 & Q2 & [Q0 _ _ _ _ Qk Qe _]).
                 split; [|split; [|split; [congruence | exists (snid s2), false; reflexivity]]].
                 --- apply (REREG wk s2 I2) with (st' := false); auto; congruence.
                 --- intro Ev3. rewrite Q0, O2e, P0, V1' in Ev3. discriminate.
           ++ (* somebody else is starved: pass the notification on and take a ticket *)
              assert (V2 : 2 <= sw0 s) by lia.
              set (s2 := notify E0 1 false s1).
              destruct (notify_proj 1 false s1) as (N1 & N2 & N3 & N4 & N5 & _). fold s2 in N1, N2, N3, N4, N5.
              assert (I2 : Inv (swk s2) (se0 s2) (snid s2) mid).
              { rewrite N1, N2, N3, WK1. apply InvB_notify. exact I1. }
              set (s3 := become_starved s2).
              destruct (become_starved_facts s2) as (B1 & B2 & B3 & B4 & _). fold s3 in B1, B2, B3, B4.
              assert (I3 : Inv (swk s3) (se0 s3) (snid s3) mid) by (rewrite B1, B2, B4; exact I2).
              assert (Fr3 : fresh0 s3) by (apply (fresh0_same s2); auto; apply notify_keeps_fresh; exact Fr1).
              assert (V3 : sw0 s3 = sw0 s + 2) by (rewrite B3, N4, P0; apply wadd_small; exact Bd2).
              assert (Er3 : serr s3 = false) by (unfold s3; rewrite become_starved_err by (rewrite N4, P0; exact Bd); congruence).
              destruct ((sw0 s + 2) mod 2 =? 1) eqn:Par.
              ** intros HF1 L' Ls' HP. destruct (do_reg_proj w s3 Fr3) as (Q1 & Q2 & [Q0 _ _ _ _ Qk Qe _]).
                 split; [|split; [|split; [congruence | exists (snid s3), true; reflexivity]]].
                 --- apply (REREG (swk s3) s3 I3) with (st' := true); auto.
                 --- intro Ev3. rewrite Q0, V3 in Ev3. lia.
              ** (* even: listen, notify once more, poll the own entry *)
                 assert (Ev : (sw0 s + 2) mod 2 = 0) by (destruct (mod2_cases (sw0 s + 2)) as [E|O]; [exact E | rewrite O in Par; discriminate]).
                 set (s4 := fst (listen E0 s3)).
                 assert (E4 : se0 s4 = se0 s3 ++ [mkEntry (snid s3) Created]) by reflexivity.
                 assert (S4a : serr s4 = serr s3) by reflexivity. assert (S4b : snid s4 = S (snid s3)) by reflexivity.
                 assert (S4c : swk s4 = swk s3) by reflexivity. assert (S4d : sw0 s4 = sw0 s3) by reflexivity.
                 assert (NF3 : ~ In (snid s3) (map eid (se0 s3))) by (intro H; apply Fr3 in H; lia).
                 set (s5 := notify E0 1 false s4).
                 destruct (notify_proj 1 false s4) as (M1 & M2 & M3 & M4 & M5 & _). fold s5 in M1, M2, M3, M4, M5.
                 destruct (se0 s3) as [|e3 r3] eqn:L3.
                 --- (* alone in the queue: the own fresh entry takes the notification, the lock is acquired *)
                     assert (E5 : se0 s5 = [mkEntry (snid s3) (Notified false)]).
                     { rewrite M1, E4. cbn. reflexivity. }
                     assert (K5 : swk s5 = swk s3) by (rewrite M3, E4, S4c; cbn; rewrite app_nil_r; reflexivity).
                     assert (Nt5 : notified (snid s3) s5 = true) by (unfold notified; rewrite E5; cbn; rewrite Nat.eqb_refl; reflexivity).
                     rewrite Nt5.
                     set (s6 := fst (poll_listener E0 (snid s3) w s5)).
                     assert (E6 : se0 s6 = [] /\ snid s6 = snid s5 /\ swk s6 = swk s5 /\ serr s6 = serr s5 /\ sw0 s6 = sw0 s5).
                     { unfold s6, poll_listener. cbn [gete]. unfold ev_poll. rewrite E5. cbn [ev_find eid est]. rewrite Nat.eqb_refl. cbn [ev_remove eid]. rewrite Nat.eqb_refl. repeat split. }
                     destruct E6 as (E6a & E6b & E6c & E6d & E6e).
                     set (s7 := fst (fetch_or W0 1 s6)).
                     assert (V7 : getw W0 s7 = sw0 s + 2 + 1).
                     { unfold s7. rewrite fetch_or_fst, getw_setw_same. cbn [getw]. rewrite E6e, M4, S4d, V3. apply lor_1_even. exact Ev. }
                     pose proof (take_mutex_spec W0 (mkAcq true None true) s7) as TM. cbn [ticket a_mutex a_starved andb] in TM. rewrite V7 in TM.
                     destruct (take_mutex W0 (mkAcq true None true) s7) as [a' s8].
                     assert (A1 : 2 <= sw0 s + 2 + 1) by (clear; lia). assert (A2 : sw0 s + 2 + 1 < USZ) by (clear - Bd4; lia).
                     destruct TM as (T1 & T2' & T3 & T4 & _ & (TE0 & _) & TK & TN & TR & _); [exact A1 | exact A2 |].
                     assert (E7 : se0 s7 = se0 s6 /\ snid s7 = snid s6 /\ swk s7 = swk s6 /\ serr s7 = serr s6) by (unfold s7; rewrite fetch_or_fst; repeat split).
                     destruct E7 as (E7a & E7b & E7c & E7d).
                     intros HF1 L' Ls' _.
                     assert (I8 : Inv (swk s3) [] (S (snid s3)) mid) by (apply (InvB_nid F lis meta _ _ (snid s3)); [clear; lia | exact I3]).
                     split; [|split; [|split; [congruence | cbn [lock_lis]; rewrite T3; reflexivity]]].
                     +++ apply (READY (swk s3) [] (S (snid s3)) s8 I8) with (a' := a'); auto; try congruence.
                     +++ intro Ev8. cbn [getw] in T1. rewrite T1 in Ev8. exfalso.
                         replace (sw0 s + 2 + 1 - 2) with (sw0 s + 1) in Ev8 by (clear; lia).
                         rewrite plus2_mod in Ev. apply (odd_not_even _ (even_plus1_odd _ Ev) Ev8).
                 --- (* others are queued: one of them is notified; we wait in line *)
                     assert (Q2 : se0 s2 = e3 :: r3) by (first [ rewrite <- B1; exact L3 | symmetry; exact B1 ]).
                     assert (H3 : has_notified (e3 :: r3) = true).
                     { rewrite <- Q2, N1. destruct (se0 s1) as [|e1 r1] eqn:Q; [rewrite N1 in Q2; cbn in Q2; discriminate|].
                       apply notify_has; [clear; lia | discriminate]. }
                     assert (E5 : se0 s5 = (e3 :: r3) ++ [mkEntry (snid s3) Created] /\ swk s5 = swk s3).
                     { rewrite M1, M3, E4, S4c. rewrite notify1_noop by (rewrite has_notified_app, H3; reflexivity). cbn [fst snd]. rewrite app_nil_r. split; reflexivity. }
                     destruct E5 as (E5 & K5).
                     assert (Nt5 : notified (snid s3) s5 = false).
                     { unfold notified. rewrite E5. rewrite (find_app_fresh _ _ _ NF3). reflexivity. }
                     rewrite Nt5.
                     set (s6 := fst (poll_listener E0 (snid s3) w s5)).
                     assert (E6 : se0 s6 = (e3 :: r3) ++ [mkEntry (snid s3) (Task w)] /\ snid s6 = S (snid s3) /\ swk s6 = swk s3 /\ serr s6 = serr s3 /\ sw0 s6 = sw0 s3).
                     { unfold s6, poll_listener. cbn [gete]. unfold ev_poll. rewrite E5. rewrite (find_app_fresh _ _ _ NF3). rewrite (set_app_fresh _ _ _ _ NF3).
                       cbn [fst se0 sete snid swk serr sw0]. rewrite M2, K5, M5, M4, S4a, S4b, S4d. repeat split. }
                     destruct E6 as (E6a & E6b & E6c & E6d & E6e).
                     intros HF1 L' Ls' HP. destruct (HP eq_refl) as (HP1 & HP2). cbn [lock_lis a_lis] in Ls'.
                     split; [|split; [|split; [congruence | exists (snid s3), true; reflexivity]]].
                     +++ rewrite E6a, E6b, E6c. apply (InvB_append F lis meta (swk s3) (e3 :: r3) (snid s3) mid look' fid f' w I3); auto.
                     +++ intros _. right. rewrite E6a. rewrite has_notified_app, H3. reflexivity.

    + (* not notified: the waker is (re)registered *)
      intros HF1 L' Ls' HP. cbn [lock_lis a_lis] in Ls'. destruct (HP eq_refl) as (HP1 & HP2).
      split; [|split; [|split; [congruence | exists id, st; reflexivity]]].
      * fold s1. rewrite PE, PN, Pk, WK. apply (InvB_set_task F lis meta wk _ _ look look' fid f0 f' id w I); auto.
      * fold s1. intro Ev. rewrite P0 in Ev. rewrite PE. destruct (Av Ev) as [E|H']; [rewrite E in Hin; contradiction|].
        right. apply has_notified_set; auto. unfold notified in Nt. destruct (ev_find id (se0 s)) as [[| |]|]; auto. discriminate.
Qed.
(* ---- cancellation / drop of a lock future ---- *)
Lemma drop_opt_proj o s :
  se0 (drop_listener_opt E0 o s) = fst (ev_drop_opt o (se0 s)) /\ swk (drop_listener_opt E0 o s) = swk s ++ snd (ev_drop_opt o (se0 s)) /\
  snid (drop_listener_opt E0 o s) = snid s /\ serr (drop_listener_opt E0 o s) = serr s /\ sw0 (drop_listener_opt E0 o s) = sw0 s.
Proof.
  destruct o as [id|]; unfold drop_listener_opt, ev_drop_opt; [|cbn; rewrite app_nil_r; repeat split].
  unfold drop_listener. cbn [gete]. destruct (ev_drop id (se0 s)); repeat split.
Qed.

Lemma lock_drop_live wk look look' fid f0 l s :
  Inv wk (se0 s) (snid s) look -> swk s = wk -> look fid = Some f0 -> lis f0 = lock_lis l ->
  lticket l <= sw0 s -> sw0 s < USZ -> avail0 s ->
  (forall g, g <> fid -> look' g = look g) -> (forall f', look' fid = Some f' -> lis f' = None) ->
  let s' := lock_drop W0 E0 l s in
  Inv (swk s') (se0 s') (snid s') look' /\ avail0 s' /\ serr s' = serr s.
Proof.
  intros I WK L Ls Ht Bd Av HF1 HF2. cbn zeta.
  destruct (InvB_drop_own F lis meta wk (se0 s) (snid s) look look' fid f0 I L HF1 HF2) as (I' & Av').
  destruct l as [a|]; cbn [lock_drop].
  - unfold acq_drop.
    pose proof (take_mutex_spec W0 a s) as TM. cbn [lticket] in Ht. cbn [getw] in TM.
    destruct (take_mutex W0 a s) as [a' s1].
    destruct TM as (M1 & M2 & M3 & M4 & _ & (ME0 & _) & MK & MN & MR & _); [exact Ht | exact Bd |].
    destruct (drop_opt_proj (a_lis a') s1) as (D1 & D2 & D3 & D4 & D5).
    rewrite M3 in *. cbn [lock_lis] in Ls. rewrite Ls in I', Av'.
    split; [|split].
    + rewrite D1, D2, D3, ME0, MK, MN, WK. exact I'.
    + unfold avail0. rewrite D1, D5, ME0. cbn [getw] in M1. rewrite M1. intro Ev. apply Av'. apply Av.
      pose proof (ticket_even_l (Some a)) as TE. cbn [lticket] in TE.
      pose proof (N.div_mod (sw0 s) 2). pose proof (N.div_mod (ticket a) 2).
      destruct (mod2_cases (sw0 s)) as [E|O]; [exact E|]. exfalso.
      replace (sw0 s - ticket a) with (1 + (sw0 s / 2 - ticket a / 2) * 2) in Ev by lia. rewrite N.mod_add in Ev by lia. discriminate.
    + congruence.
  - cbn [lock_lis] in Ls. rewrite Ls in I', Av'. cbn [ev_drop_opt fst snd] in I', Av'. rewrite app_nil_r in I'.
    split; [rewrite WK; exact I' | split; [exact Av | reflexivity]].
Qed.
End LockLive.
