(* MutexInv.v — the counting invariant of the Mutex machine, for every history:
     state word = 2 * (starved, not yet completed or dropped lock operations) + (guards alive)
   and at most one guard is alive (C01); consequences for try_lock (C13, C14) and for
   the idle state (C10). *)
From AL Require Import Base Api Mutex MutexApi BaseFacts ApiFacts MutexWord.
From Coq Require Import Lia.

Arguments lock_poll : simpl never.
Arguments lock_drop : simpl never.
Arguments try_lock : simpl never.
Arguments unlock : simpl never.
Arguments notify : simpl never.
Arguments wtag : simpl never.

Definition ftick (f : mfut) : N := lticket (mf_lock f).
Fixpoint tickets (l : list (nat * mfut)) : N :=
  match l with [] => 0 | (_, f) :: r => ftick f + tickets r end.

Definition fut_ok (f : mfut) : Prop :=
  match fm_st (mf_meta f) with
  | FDone => ftick f = 0
  | _ => lock_live (mf_lock f)
  end.

Definition WInv (x : mworld) : Prop :=
  sw0 (m_sh x) = tickets (m_futs x) + N.of_nat (length (m_guards x)) /\
  (length (m_guards x) <= 1)%nat /\
  Forall (fun p => fut_ok (snd p)) (m_futs x).

Lemma ticket_le a : ticket a <= 2.
Proof. unfold ticket. destruct (a_mutex a && a_starved a); lia. Qed.
Lemma ticket_even a : ticket a mod 2 = 0.
Proof. unfold ticket. destruct (a_mutex a && a_starved a); reflexivity. Qed.
Lemma ftick_le f : ftick f <= 2.
Proof. unfold ftick, lticket. destruct (mf_lock f); [apply ticket_le | lia]. Qed.
Lemma ftick_even f : ftick f mod 2 = 0.
Proof. unfold ftick, lticket. destruct (mf_lock f); [apply ticket_even | reflexivity]. Qed.
Lemma tickets_le l : tickets l <= 2 * N.of_nat (length l).
Proof. induction l as [|[k f] r IH]; cbn [tickets length]; [lia|]. pose proof (ftick_le f). lia. Qed.
Lemma tickets_even l : tickets l mod 2 = 0.
Proof.
  induction l as [|[k f] r IH]; cbn [tickets]; [reflexivity|].
  rewrite N.add_mod by lia. rewrite ftick_even, IH. reflexivity.
Qed.
Lemma tickets_app l1 l2 : tickets (l1 ++ l2) = tickets l1 + tickets l2.
Proof. induction l1 as [|[k f] r IH]; cbn [tickets app]; [lia|]. rewrite IH. lia. Qed.
Lemma tickets_aupdate k f f' l : alookup k l = Some f ->
  tickets (aupdate k f' l) + ftick f = tickets l + ftick f'.
Proof.
  induction l as [|[k' v] r IH]; cbn [alookup aupdate tickets]; [discriminate|].
  destruct (Nat.eqb k k').
  - intro H; inversion H; subst. cbn [tickets]. lia.
  - intro H. cbn [tickets]. specialize (IH H). lia.
Qed.
Lemma tickets_aremove k f l : alookup k l = Some f -> tickets (aremove k l) + ftick f = tickets l.
Proof.
  induction l as [|[k' v] r IH]; cbn [alookup aremove tickets]; [discriminate|].
  destruct (Nat.eqb k k').
  - intro H; inversion H; subst. lia.
  - intro H. cbn [tickets]. specialize (IH H). lia.
Qed.
Lemma tickets_In k f l : In (k, f) l -> ftick f <= tickets l.
Proof.
  induction l as [|[k' v] r IH]; cbn [In tickets]; [contradiction|].
  intros [H|H]; [inversion H; subst; lia | specialize (IH H); lia].
Qed.

(* parity: the word is even exactly when no guard is alive *)
Lemma WInv_even x : WInv x -> sw0 (m_sh x) mod 2 = 0 -> length (m_guards x) = 0%nat.
Proof.
  intros (E & G & _) Ev. rewrite E in Ev. rewrite N.add_mod in Ev by lia.
  rewrite tickets_even in Ev. rewrite N.add_0_l, N.mod_mod in Ev by lia.
  destruct (length (m_guards x)) as [|[|n]]; [reflexivity | discriminate | lia].
Qed.

(* bookkeeping that WInv does not look at *)
Lemma WInv_inc x : WInv (m_inc x) <-> WInv x. Proof. reflexivity. Qed.
Lemma WInv_dec x : WInv (m_dec x) <-> WInv x. Proof. reflexivity. Qed.
Lemma fut_ok_wake wk f :
  fut_ok (mkMfut (mf_arc f) (mf_lock f) (mf_owns f) (meta_wake wk (mf_meta f))) <-> fut_ok f.
Proof.
  unfold fut_ok, meta_wake. cbn. destruct (mf_meta f) as [st w wo]. cbn.
  destruct st; try reflexivity. destruct w; try reflexivity. destruct (mem_nat w wk); reflexivity.
Qed.
Lemma tickets_wake wk l :
  tickets (map (fun p => (fst p, mkMfut (mf_arc (snd p)) (mf_lock (snd p)) (mf_owns (snd p))
                                   (meta_wake wk (mf_meta (snd p))))) l) = tickets l.
Proof. induction l as [|[k f] r IH]; cbn; [reflexivity|]. unfold ftick at 1. cbn. fold (ftick f). congruence. Qed.
Lemma WInv_wake wk x : WInv x -> WInv (m_wake_all wk x).
Proof.
  intros (E & G & F). unfold WInv, m_wake_all, m_set_futs. cbn [m_sh m_futs m_guards].
  rewrite tickets_wake. split; [exact E|]. split; [exact G|].
  rewrite Forall_forall in *. intros p Hp. apply in_map_iff in Hp. destruct Hp as ([k f] & <- & Hin).
  cbn [snd fst]. apply fut_ok_wake. apply (F (k, f) Hin).
Qed.

Definition small (x : mworld) : Prop := 2 * N.of_nat (length (m_futs x)) + 4 < USZ.

Lemma step_core_WInv x o : WInv x -> small x -> WInv (fst (mstep_core x o)).
Proof.
  intros (E & G & F) B. unfold small in B. pose proof (tickets_le (m_futs x)) as TL.
  assert (Wb : sw0 (m_sh x) + 2 < USZ) by (rewrite E; lia).
  unfold mstep_core. destruct o; cbv beta iota zeta.
  - (* MLock *)
    destruct (Nat.eqb (m_handles x) 0); [split; auto|].
    assert (W : WInv (mkMw (m_sh x) (m_futs x ++ [(m_nf x, mkMfut arc lock_new arc meta0)]) (m_guards x)
                      (S (m_nf x)) (m_ng x) (m_handles x) (m_strong x) (m_dropped x))).
    { unfold WInv. cbn [m_sh m_futs m_guards]. rewrite tickets_app. cbn. split; [rewrite E; cbn; lia|].
      split; [exact G|]. apply Forall_app. split; [exact F|]. constructor; [exact I|constructor]. }
    destruct arc; cbn [fst]; [apply WInv_inc|]; exact W.
  - (* MPoll *)
    destruct (alookup f (m_futs x)) as [fu|] eqn:L; [|split; auto].
    destruct (fstatus_eqb (fm_st (mf_meta fu)) FDone || Nat.leb 4 k) eqn:V; [split; auto|].
    apply Bool.orb_false_iff in V. destruct V as (V1 & _).
    pose proof (Forall_lookup _ _ _ _ F L) as Ok. cbn [snd] in Ok.
    assert (Live : lock_live (mf_lock fu)).
    { unfold fut_ok in Ok. destruct (fm_st (mf_meta fu)); [exact Ok | exact Ok | discriminate]. }
    pose proof (tickets_In _ _ _ (alookup_In _ _ _ L)) as Tin. unfold ftick in Tin.
    assert (Tw : lticket (mf_lock fu) <= getw W0 (m_sh x)) by (cbn [getw]; rewrite E; lia).
    pose proof (lock_poll_spec W0 E0 (wtag f k) (mf_lock fu) (m_sh x) Live Tw Wb) as P.
    destruct (lock_poll W0 E0 (wtag f k) (mf_lock fu) (m_sh x)) as [[l s'] r].
    destruct P as (P & _). cbn [getw] in P. destruct r; cbn [fst].
    + destruct P as (P1 & P2 & P3).
      assert (G0 : length (m_guards x) = 0%nat) by (apply (WInv_even x); [repeat split; auto | exact P1]).
      unfold WInv. cbn [m_sh m_futs m_guards]. rewrite app_length, G0. cbn [length Nat.add].
      pose proof (tickets_aupdate f fu (mkMfut (mf_arc fu) l false (mkMeta FDone (Some (wtag f k)) false)) _ L) as TU.
      unfold ftick in TU. cbn [mf_lock] in TU. rewrite G0 in E. cbn in E.
      split; [|split; [lia|]].
      * change (N.of_nat 1) with 1. lia.
      * apply Forall_aupdate; [exact F|]. cbn [snd]. unfold fut_ok. cbn. exact P3.
    + destruct P as (P1 & P2 & P3).
      unfold WInv, m_set_futs, m_set_sh. cbn [m_sh m_futs m_guards].
      pose proof (tickets_aupdate f fu (mkMfut (mf_arc fu) l (mf_owns fu) (mkMeta FPending (Some (wtag f k)) false)) _ L) as TU.
      unfold ftick in TU. cbn [mf_lock] in TU.
      split; [lia|]. split; [exact G|].
      apply Forall_aupdate; [exact F|]. cbn [snd]. unfold fut_ok. cbn. exact P2.
  - (* MDropFut *)
    destruct (alookup f (m_futs x)) as [fu|] eqn:L; [|split; auto].
    pose proof (tickets_In _ _ _ (alookup_In _ _ _ L)) as Tin. unfold ftick in Tin.
    assert (Tw : lticket (mf_lock fu) <= getw W0 (m_sh x)) by (cbn [getw]; rewrite E; lia).
    assert (Wb' : getw W0 (m_sh x) < USZ) by (cbn [getw]; lia).
    pose proof (lock_drop_spec W0 E0 (mf_lock fu) (m_sh x) Tw Wb') as (D & _). cbn [getw] in D.
    pose proof (tickets_aremove f fu _ L) as TR. unfold ftick in TR.
    assert (W : WInv (m_set_futs (aremove f (m_futs x)) (m_set_sh (lock_drop W0 E0 (mf_lock fu) (m_sh x)) x))).
    { unfold WInv, m_set_futs, m_set_sh. cbn [m_sh m_futs m_guards].
      split; [lia|]. split; [exact G|]. apply Forall_aremove. exact F. }
    destruct (mf_owns fu); cbn [fst]; [apply WInv_dec|]; exact W.
  - (* MTry *)
    destruct (Nat.eqb (m_handles x) 0); [split; auto|].
    pose proof (try_lock_spec W0 (m_sh x)) as T. destruct (try_lock W0 (m_sh x)) as [s' ok].
    destruct T as (T1 & T2 & _). cbn [getw] in *. destruct ok.
    + destruct (T1 eq_refl) as (Z & O).
      assert (G0 : length (m_guards x) = 0%nat).
      { apply (WInv_even x); [repeat split; auto | rewrite Z; reflexivity]. }
      assert (W : WInv (mkMw s' (m_futs x) (m_guards x ++ [(m_ng x, arc)]) (m_nf x) (S (m_ng x))
                        (m_handles x) (m_strong x) (m_dropped x))).
      { unfold WInv. cbn [m_sh m_futs m_guards]. rewrite app_length, G0. cbn [length Nat.add].
        rewrite G0 in E. cbn in E. split; [change (N.of_nat 1) with 1; lia|]. split; [lia | exact F]. }
      destruct arc; cbn [fst]; [apply WInv_inc|]; exact W.
    + destruct (T2 eq_refl) as (_ & ->). cbn [fst]. repeat split; auto.
  - (* MDropGuard *)
    destruct (alookup g (m_guards x)) as [arc|] eqn:L; [|split; auto].
    pose proof (alookup_aremove_length _ _ _ L) as Len.
    assert (U1 : 1 <= getw W0 (m_sh x)) by (cbn [getw]; rewrite E; lia).
    assert (U2 : getw W0 (m_sh x) < USZ) by (cbn [getw]; lia).
    pose proof (unlock_word W0 E0 (m_sh x) U1 U2) as (D & _). cbn [getw] in D.
    assert (W : WInv (mkMw (unlock W0 E0 (m_sh x)) (m_futs x) (aremove g (m_guards x)) (m_nf x) (m_ng x)
                      (m_handles x) (m_strong x) (m_dropped x))).
    { unfold WInv. cbn [m_sh m_futs m_guards]. split; [lia|]. split; [lia | exact F]. }
    destruct arc; cbn [fst]; [apply WInv_dec|]; exact W.
  - (* MSetOracle *) cbn [fst]. unfold WInv, m_set_sh. cbn [m_sh m_futs m_guards]. repeat split; auto.
  - (* MCloneArc *) destruct (Nat.eqb (m_handles x) 0); cbn [fst]; repeat split; auto.
  - (* MDropArc *)
    destruct (Nat.eqb (m_handles x) 0); [split; auto|].
    destruct (Nat.eqb (m_handles x) 1 && borrowed_alive x); cbn [fst]; repeat split; auto.
Qed.

Lemma step_WInv x o : WInv x -> small x -> WInv (fst (mstep x o)).
Proof.
  intros I B. unfold mstep.
  set (x0 := m_set_sh (set_wk [] (m_sh x)) x).
  assert (I0 : WInv x0) by exact I.
  assert (B0 : small x0) by exact B.
  pose proof (step_core_WInv x0 o I0 B0) as H.
  destruct (mstep_core x0 o) as [x1 r]. cbn [fst] in *. apply WInv_wake. exact H.
Qed.

Lemma futs_grow x o : (length (m_futs (fst (mstep x o))) <= S (length (m_futs x)))%nat.
Proof.
  unfold mstep.
  set (x0 := m_set_sh (set_wk [] (m_sh x)) x).
  assert (L0 : length (m_futs x0) = length (m_futs x)) by reflexivity.
  destruct (mstep_core x0 o) as [x1 r] eqn:E. cbn [fst].
  unfold m_wake_all, m_set_futs. cbn [m_futs]. rewrite map_length. rewrite <- L0. clear L0.
  revert E. generalize x0. clear x x0. intros x E. unfold mstep_core in E.
  destruct o; cbv beta iota zeta in E.
  all: repeat match type of E with
       | context [match ?d with _ => _ end] => destruct d eqn:?
       end; inversion E; subst; unfold m_inc, m_dec, m_set_futs, m_set_sh; cbn [m_futs];
       rewrite ?app_length, ?aupdate_length; cbn [length]; try lia.
  all: match goal with H : alookup ?k ?l = Some _ |- _ => pose proof (alookup_aremove_length _ _ _ H); lia end.
Qed.

Lemma run_futs ops : forall x, (length (m_futs (fold_left (fun x o => fst (mstep x o)) ops x)) <= length ops + length (m_futs x))%nat.
Proof.
  induction ops as [|o ops IH]; intro x; cbn [fold_left length]; [lia|].
  specialize (IH (fst (mstep x o))). pose proof (futs_grow x o). lia.
Qed.

Definition OPS_BOUND : N := 4611686018427387904.   (* 2^62 *)

Lemma run_WInv_gen ops : forall x, WInv x ->
  2 * N.of_nat (length ops + length (m_futs x)) + 4 < USZ ->
  WInv (fold_left (fun x o => fst (mstep x o)) ops x).
Proof.
  induction ops as [|o ops IH]; intros x I B; cbn [fold_left]; [exact I|].
  apply IH.
  - apply step_WInv; [exact I|]. unfold small. cbn [length] in B. lia.
  - pose proof (futs_grow x o). cbn [length] in B. lia.
Qed.

Lemma WInv_init : WInv mw0.
Proof. unfold WInv. cbn. repeat split; auto. Qed.

Theorem run_WInv ops : N.of_nat (length ops) < OPS_BOUND -> WInv (mrun ops).
Proof.
  intro B. apply run_WInv_gen; [apply WInv_init|].
  cbn [mw0 m_futs length]. unfold OPS_BOUND in B. rewrite USZ_val. lia.
Qed.

(* ---- consequences ---- *)
Theorem mutex_at_most_one_guard ops :
  N.of_nat (length ops) < OPS_BOUND -> (length (m_guards (mrun ops)) <= 1)%nat.
Proof. intro B. apply (run_WInv ops B). Qed.

Definition starved_alive (x : mworld) : Prop := exists fid f, In (fid, f) (m_futs x) /\ ftick f = 2.

(* the result of a try_lock / try_lock_arc in state x *)
Lemma try_result x arc : WInv x -> m_handles x <> 0%nat ->
  o_res (snd (mstep x (MTry arc))) = if sw0 (m_sh x) =? 0 then RSome (m_ng x) else RNone.
Proof.
  intros I H. unfold mstep, mstep_core. cbv beta iota zeta.
  cbn [m_set_sh m_handles m_sh m_ng m_futs m_guards m_nf m_strong m_dropped].
  destruct (Nat.eqb (m_handles x) 0) eqn:E; [apply Nat.eqb_eq in E; contradiction|].
  pose proof (try_lock_spec W0 (set_wk [] (m_sh x))) as T.
  destruct (try_lock W0 (set_wk [] (m_sh x))) as [s' ok]. destruct T as (T1 & T2 & _).
  cbn [getw] in *. change (sw0 (set_wk [] (m_sh x))) with (sw0 (m_sh x)) in *.
  destruct ok.
  - destruct (T1 eq_refl) as (Z & _). rewrite Z. destruct arc; reflexivity.
  - destruct (T2 eq_refl) as (NZ & _). destruct (sw0 (m_sh x) =? 0) eqn:Q; [lia | reflexivity].
Qed.

Theorem starved_closes_fast_path x arc :
  WInv x -> m_handles x <> 0%nat -> starved_alive x ->
  o_res (snd (mstep x (MTry arc))) = RNone.
Proof.
  intros I H (fid & f & Hin & T). rewrite (try_result x arc I H).
  destruct I as (E & _). pose proof (tickets_In _ _ _ Hin). rewrite T in H0.
  destruct (sw0 (m_sh x) =? 0) eqn:Q; [lia | reflexivity].
Qed.

Theorem try_lock_exact x arc :
  WInv x -> m_handles x <> 0%nat ->
  (o_res (snd (mstep x (MTry arc))) = RSome (m_ng x) <->
   (m_guards x = [] /\ tickets (m_futs x) = 0)).
Proof.
  intros I H. rewrite (try_result x arc I H). destruct I as (E & G & _).
  destruct (sw0 (m_sh x) =? 0) eqn:Q.
  - split; [intros _|reflexivity]. assert (Z : sw0 (m_sh x) = 0) by lia. rewrite E in Z.
    split; [|lia]. destruct (m_guards x); [reflexivity|cbn in Z; lia].
  - split; [discriminate|]. intros (G0 & T0). rewrite G0, T0 in E. cbn in E. lia.
Qed.

Theorem idle_word x : WInv x -> m_futs x = [] -> m_guards x = [] -> sw0 (m_sh x) = 0.
Proof. intros (E & _) F G. rewrite E, F, G. reflexivity. Qed.
