(* RwInv.v — the counting invariant of the RwLock machine for every history:
     state      = 2 * (read + upgradable guards) + (write guards + waiting writers + pending upgrades)
     mutex word = tickets of queued lock operations + (upgradable + write guards + waiting writers + pending upgrades)
   at most one of {upgradable guard, write guard, writer waiting for readers, pending upgrade} exists,
   and a write guard excludes every reader. Consequences: C02, C11, parts of C10 / C14. *)
From AL Require Import Base Api Mutex RwLock RwApi BaseFacts ApiFacts MutexWord RwWord.
From Coq Require Import Lia.

Arguments lock_poll : simpl never.
Arguments lock_drop : simpl never.
Arguments try_lock : simpl never.
Arguments unlock : simpl never.
Arguments notify : simpl never.
Arguments wtag : simpl never.
Arguments rfut_poll : simpl never.
Arguments rfut_drop : simpl never.
Arguments rw_try_read : simpl never.
Arguments rw_try_write : simpl never.
Arguments rw_try_upgradable_read : simpl never.
Arguments rw_try_upgrade : simpl never.
Arguments rw_upgrade_start : simpl never.
Arguments rw_downgrade_upgradable_read : simpl never.
Arguments rw_downgrade_write : simpl never.
Arguments rw_downgrade_to_upgradable : simpl never.
Arguments rw_read_unlock : simpl never.
Arguments rw_upgradable_read_unlock : simpl never.
Arguments rw_write_unlock : simpl never.

Definition itick (f : rfut) : N :=
  match rf_st f with FUpRead l => lticket l | FWrite _ ws => wtick ws | _ => 0 end.
Definition fhold (f : rfut) : N :=
  match rf_st f with FWrite _ ws => hold_ws ws | FUpgrade true _ => 1 | _ => 0 end.
Definition isk (k : gkind) (v : gkind * bool) : N := if gkind_eqb (fst v) k then 1 else 0.

Definition nR (x : rworld) := asum (isk GR) (r_guards x).
Definition nU (x : rworld) := asum (isk GU) (r_guards x).
Definition nW (x : rworld) := asum (isk GW) (r_guards x).
Definition nH (x : rworld) := asum fhold (r_futs x).
Definition nT (x : rworld) := asum itick (r_futs x).

Definition st_live (st : rfutst) : Prop :=
  match st with
  | FRead _ _ => True
  | FUpRead l => lock_live l
  | FWrite _ ws => ws_live ws /\ ws <> WAcquired
  | FUpgrade hl _ => hl = true
  end.
Definition fut_ok (f : rfut) : Prop :=
  match fm_st (rf_meta f) with
  | FDone => itick f = 0 /\ fhold f = 0
  | _ => st_live (rf_st f)
  end.

Definition RInv (x : rworld) : Prop :=
  sw1 (r_sh x) = 2 * (nR x + nU x) + nW x + nH x /\
  sw0 (r_sh x) = nT x + nU x + nW x + nH x /\
  nU x + nW x + nH x <= 1 /\
  (1 <= nW x -> nR x = 0) /\
  Forall (fun p => fut_ok (snd p)) (r_futs x).

Definition small (x : rworld) : Prop :=
  2 * N.of_nat (length (r_futs x)) + 2 * N.of_nat (length (r_guards x)) + 8 < USZ.

Lemma itick_le f : itick f <= 2.
Proof. unfold itick. destruct (rf_st f) as [| l | nr [l| |] |]; cbn; try lia; apply ticket_le_l. Qed.
Lemma itick_even f : itick f mod 2 = 0.
Proof. unfold itick. destruct (rf_st f) as [| l | nr [l| |] |]; cbn; try reflexivity; apply ticket_even_l. Qed.
Lemma nT_even l : asum itick l mod 2 = 0.
Proof.
  induction l as [|[k f] r IH]; cbn [asum]; [reflexivity|].
  rewrite N.add_mod by lia. rewrite itick_even, IH. reflexivity.
Qed.
Lemma isk_le k v : isk k v <= 1.
Proof. unfold isk. destruct (gkind_eqb (fst v) k); lia. Qed.
Lemma guards_total l : asum (isk GR) l + asum (isk GU) l + asum (isk GW) l = N.of_nat (length l).
Proof.
  induction l as [|[k [gk a]] r IH]; [reflexivity|].
  cbn [asum length]. rewrite Nat2N.inj_succ. unfold isk at 1 3 5. cbn [fst].
  destruct gk; cbn [gkind_eqb]; lia.
Qed.

(* the mutex word is even exactly when nobody holds the inner mutex *)
Lemma RInv_mutex_even x : RInv x -> sw0 (r_sh x) mod 2 = 0 -> nU x + nW x + nH x = 0.
Proof.
  intros (_ & E0 & Le & _) Ev. rewrite E0 in Ev.
  replace (nT x + nU x + nW x + nH x) with (nT x + (nU x + nW x + nH x)) in Ev by lia.
  rewrite N.add_mod in Ev by lia. unfold nT in Ev. rewrite nT_even in Ev.
  rewrite N.add_0_l, N.mod_mod in Ev by lia.
  assert (nU x + nW x + nH x = 0 \/ nU x + nW x + nH x = 1) as [Z|O] by lia; [exact Z|].
  rewrite O in Ev. discriminate.
Qed.

(* bookkeeping invisible to RInv *)
Lemma RInv_inc x : RInv (r_inc x) <-> RInv x. Proof. reflexivity. Qed.
Lemma RInv_dec x : RInv (r_dec x) <-> RInv x. Proof. reflexivity. Qed.
Lemma RInv_bump_g x : RInv (r_bump_g x) <-> RInv x. Proof. reflexivity. Qed.
Lemma RInv_bump_f x : RInv (r_bump_f x) <-> RInv x. Proof. reflexivity. Qed.
Lemma RInv_set_handles h x : RInv (r_set_handles h x) <-> RInv x. Proof. reflexivity. Qed.
Lemma RInv_set_val v x : RInv (r_set_val v x) <-> RInv x. Proof. reflexivity. Qed.

Lemma fut_ok_wake wk f :
  fut_ok (mkRfut (rf_arc f) (rf_st f) (rf_owns f) (meta_wake wk (rf_meta f))) <-> fut_ok f.
Proof.
  unfold fut_ok, meta_wake, itick, fhold. cbn. destruct (rf_meta f) as [st w wo]. cbn.
  destruct st; try reflexivity. destruct w as [w0|]; try reflexivity. destruct (mem_nat w0 wk); reflexivity.
Qed.
Lemma RInv_wake wk x : RInv x -> RInv (r_wake_all wk x).
Proof.
  intros (E1 & E0 & Le & Ex & F). unfold RInv, r_wake_all, r_upd, nR, nU, nW, nH, nT in *.
  cbn [r_sh r_futs r_guards].
  rewrite !(asum_map _ (fun f => mkRfut (rf_arc f) (rf_st f) (rf_owns f) (meta_wake wk (rf_meta f)))) by reflexivity.
  repeat split; auto.
  rewrite Forall_forall in *. intros p Hp. apply in_map_iff in Hp. destruct Hp as ([k f] & <- & Hin).
  cbn [snd fst]. apply fut_ok_wake. apply (F (k, f) Hin).
Qed.

(* ---- helper facts ---- *)
Lemma bounds x : RInv x -> small x ->
  sw0 (r_sh x) + 2 < USZ /\ sw1 (r_sh x) + 4 < USZ.
Proof.
  intros (E1 & E0 & Le & _) B. unfold small in B.
  pose proof (asum_le itick 2 (r_futs x) itick_le) as TL.
  pose proof (guards_total (r_guards x)) as GT. unfold nR, nU, nW, nT, nH in *. split; lia.
Qed.

Lemma isk_eval k k' a : isk k (k', a) = if gkind_eqb k' k then 1 else 0.
Proof. reflexivity. Qed.
Ltac gsum3 L v' :=
  let A := fresh "SR" in let B := fresh "SU" in let C := fresh "SW" in
  pose proof (asum_aupdate (isk GR) _ _ v' _ L) as A;
  pose proof (asum_aupdate (isk GU) _ _ v' _ L) as B;
  pose proof (asum_aupdate (isk GW) _ _ v' _ L) as C;
  rewrite !isk_eval in A, B, C; cbn [gkind_eqb] in A, B, C.
Ltac grem3 L :=
  let A := fresh "SR" in let B := fresh "SU" in let C := fresh "SW" in
  pose proof (asum_aremove (isk GR) _ _ _ L) as A;
  pose proof (asum_aremove (isk GU) _ _ _ L) as B;
  pose proof (asum_aremove (isk GW) _ _ _ L) as C;
  rewrite !isk_eval in A, B, C; cbn [gkind_eqb] in A, B, C.
Ltac gapp := rewrite ?asum_app; cbn [asum]; rewrite ?isk_eval; cbn [gkind_eqb].

Lemma step_start x k arc : RInv x -> RInv (fst (rstep_core x (RStart k arc))).
Proof.
  intros I. unfold rstep_core. cbv beta iota zeta.
  destruct (Nat.eqb (r_handles x) 0); [exact I|]. cbn [fst]. apply RInv_bump_f.
  destruct I as (E1 & E0 & Le & Ex & F). unfold RInv, nR, nU, nW, nH, nT in *. cbn [r_sh r_futs r_guards r_upd].
  rewrite !asum_app. cbn [asum].
  destruct k; unfold fhold, itick in *; cbn [rf_st hold_ws wtick lticket lock_new];
    (split; [lia|]; split; [lia|]; split; [lia|]; split; [exact Ex|];
     apply Forall_app; split; [exact F|]; constructor; [|constructor]; unfold fut_ok; cbn; auto).
  split; [exact I | discriminate].
Qed.

Lemma step_upgrade x g : RInv x -> small x -> RInv (fst (rstep_core x (RUpgrade g))).
Proof.
  intros I B. unfold rstep_core. cbv beta iota zeta.
  destruct (alookup g (r_guards x)) as [[[| |] arc]|] eqn:L; try exact I. cbn [fst]. apply RInv_bump_f.
  destruct (bounds x I B) as (B0 & B1).
  destruct I as (E1 & E0 & Le & Ex & F). grem3 L.
  assert (U1 : 1 <= nU x) by (unfold nU; lia).
  destruct (upgrade_start_spec (r_sh x)) as (A1 & A0); [rewrite E1; lia | lia |].
  unfold RInv, nR, nU, nW, nH, nT in *. cbn [r_sh r_futs r_guards r_upd].
  rewrite !asum_app. cbn [asum]. unfold fhold, itick in *. cbn [rf_st].
  rewrite A1, A0. split; [lia|]. split; [lia|]. split; [lia|]. split; [intro; lia|].
  apply Forall_app; split; [exact F|]. constructor; [|constructor]. unfold fut_ok; cbn. reflexivity.
Qed.

(* a pending/unpolled future is live; its tickets are part of the mutex word *)
Lemma fut_live_of x f fu : RInv x -> alookup f (r_futs x) = Some fu ->
  fstatus_eqb (fm_st (rf_meta fu)) FDone = false ->
  st_live (rf_st fu) /\ itick fu <= sw0 (r_sh x) /\ fhold fu <= nH x.
Proof.
  intros (E1 & E0 & Le & Ex & F) L V.
  pose proof (Forall_lookup _ _ _ _ F L) as Ok. cbn [snd] in Ok. unfold fut_ok in Ok.
  pose proof (asum_In itick _ _ _ (alookup_In _ _ _ L)) as Ti.
  pose proof (asum_In fhold _ _ _ (alookup_In _ _ _ L)) as Hi.
  unfold nT, nH in *. split; [|split; [lia | exact Hi]].
  destruct (fm_st (rf_meta fu)); [exact Ok | exact Ok | discriminate].
Qed.

Lemma step_poll x f k : RInv x -> small x -> RInv (fst (rstep_core x (RPoll f k))).
Proof.
  intros I B. unfold rstep_core. cbv beta iota zeta.
  destruct (alookup f (r_futs x)) as [fu|] eqn:L; [|exact I].
  destruct (fstatus_eqb (fm_st (rf_meta fu)) FDone || Nat.leb 4 k) eqn:V; [exact I|].
  apply Bool.orb_false_iff in V. destruct V as (V1 & _).
  destruct (fut_live_of x f fu I L V1) as (Live & Ti & Hi).
  destruct (bounds x I B) as (B0 & B1).
  pose proof (RInv_mutex_even x I) as MEv.
  destruct I as (E1 & E0 & Le & Ex & F).
  pose proof (asum_aupdate itick f fu) as UT. pose proof (asum_aupdate fhold f fu) as UH.
  unfold rfut_poll. unfold itick, fhold in Ti, Hi.
  destruct (rf_st fu) as [c l | l | nr ws | hl l] eqn:ST; cbn [st_live] in Live.
  - (* read() *)
    pose proof (read_loop_spec RWFUEL (wtag f k) c l (r_sh x)) as P.
    destruct (read_loop RWFUEL (wtag f k) c l (r_sh x)) as [[c' l'] s'|[c' l'] s'|[c' l'] s'];
      (destruct P as (P1 & P2); [lia|]).
    + destruct P2 as (P2 & P3). cbn [fst].
      set (fu' := mkRfut (rf_arc fu) (FRead c' l') false (mkMeta FDone (Some (wtag f k)) false)).
      specialize (UT fu' _ L). specialize (UH fu' _ L).
      unfold itick, fhold in UT, UH. cbn [rf_st fu'] in UT, UH. rewrite ST in UT, UH.
      assert (W0 : nW x + nH x = 0).
      { rewrite E1 in P1. replace (2 * (nR x + nU x) + nW x + nH x) with ((nW x + nH x) + (nR x + nU x) * 2) in P1 by lia.
        rewrite N.mod_add in P1 by lia. assert (nW x + nH x <= 1) by lia.
        destruct (N.eq_dec (nW x + nH x) 0); [assumption|]. replace (nW x + nH x) with 1 in P1 by lia. discriminate. }
      assert (G : RInv (r_bump_g (r_upd x s' (aupdate f fu' (r_futs x)) (r_guards x ++ [(r_ng x, (GR, rf_arc fu))])))).
      { apply RInv_bump_g. unfold RInv, nR, nU, nW, nH, nT in *. cbn [r_sh r_futs r_guards r_upd]. gapp.
        fold itick in UT. fold fhold in UH.
        split; [lia|]. split; [lia|]. split; [lia|]. split; [intro; lia|].
        apply Forall_aupdate; [exact F|]. unfold fut_ok. cbn. split; reflexivity. }
      destruct (rf_arc fu && negb (rf_owns fu)); [apply RInv_inc|]; exact G.
    + cbn [fst].
      set (fu' := mkRfut (rf_arc fu) (FRead c' l') (rf_owns fu) (mkMeta FPending (Some (wtag f k)) false)).
      specialize (UT fu' _ L). specialize (UH fu' _ L).
      unfold itick, fhold in UT, UH. cbn [rf_st fu'] in UT, UH. rewrite ST in UT, UH.
      unfold RInv, nR, nU, nW, nH, nT in *. cbn [r_sh r_futs r_guards r_upd].
      fold itick in UT. fold fhold in UH.
      split; [lia|]. split; [lia|]. split; [lia|]. split; [exact Ex|].
      apply Forall_aupdate; [exact F|]. unfold fut_ok. cbn. exact I.
    + cbn [fst].
      set (fu' := mkRfut (rf_arc fu) (FRead c' l') (rf_owns fu) (mkMeta FPending (Some (wtag f k)) false)).
      specialize (UT fu' _ L). specialize (UH fu' _ L).
      unfold itick, fhold in UT, UH. cbn [rf_st fu'] in UT, UH. rewrite ST in UT, UH.
      unfold RInv, nR, nU, nW, nH, nT in *. cbn [r_sh r_futs r_guards r_upd]. autorewrite with sw.
      fold itick in UT. fold fhold in UH.
      change (sw1 (set_err s')) with (sw1 s'). change (sw0 (set_err s')) with (sw0 s').
      split; [lia|]. split; [lia|]. split; [lia|]. split; [exact Ex|].
      apply Forall_aupdate; [exact F|]. unfold fut_ok. cbn. exact I.
  - (* upgradable_read() *)
    assert (B1' : sw1 (r_sh x) + 2 < USZ) by lia.
    pose proof (upread_poll_spec (wtag f k) l (r_sh x) Live Ti B0 B1') as P.
    destruct (upread_poll (wtag f k) l (r_sh x)) as [[l' s'] r]. destruct r.
    + destruct P as (P1 & P2 & P3 & P4). specialize (MEv P1). cbn [fst].
      set (fu' := mkRfut (rf_arc fu) (FUpRead l') false (mkMeta FDone (Some (wtag f k)) false)).
      specialize (UT fu' _ L). specialize (UH fu' _ L).
      unfold itick, fhold in UT, UH. cbn [rf_st fu'] in UT, UH. rewrite ST in UT, UH.
      assert (G : RInv (r_bump_g (r_upd x s' (aupdate f fu' (r_futs x)) (r_guards x ++ [(r_ng x, (GU, rf_arc fu))])))).
      { apply RInv_bump_g. unfold RInv, nR, nU, nW, nH, nT in *. cbn [r_sh r_futs r_guards r_upd]. gapp.
        fold itick in UT. fold fhold in UH.
        split; [lia|]. split; [lia|]. split; [lia|]. split; [intro; lia|].
        apply Forall_aupdate; [exact F|]. unfold fut_ok, itick, fhold. cbn. split; [exact P3 | reflexivity]. }
      destruct (rf_arc fu && negb (rf_owns fu)); [apply RInv_inc|]; exact G.
    + destruct P as (P1 & P2 & P3 & P4). cbn [fst].
      set (fu' := mkRfut (rf_arc fu) (FUpRead l') (rf_owns fu) (mkMeta FPending (Some (wtag f k)) false)).
      specialize (UT fu' _ L). specialize (UH fu' _ L).
      unfold itick, fhold in UT, UH. cbn [rf_st fu'] in UT, UH. rewrite ST in UT, UH.
      unfold RInv, nR, nU, nW, nH, nT in *. cbn [r_sh r_futs r_guards r_upd].
      fold itick in UT. fold fhold in UH.
      split; [lia|]. split; [lia|]. split; [lia|]. split; [exact Ex|].
      apply Forall_aupdate; [exact F|]. unfold fut_ok. cbn. exact P2.
  - (* write() *)
    destruct Live as (Live & NA).
    assert (HB : ws <> WWaiting -> sw0 (r_sh x) + 2 < USZ /\ sw1 (r_sh x) + 2 < USZ /\ (sw0 (r_sh x) mod 2 = 0 -> sw1 (r_sh x) mod 2 = 0)).
    { intros _. split; [exact B0|]. split; [lia|]. intro Ev. specialize (MEv Ev).
      rewrite E1. replace (2 * (nR x + nU x) + nW x + nH x) with (0 + (nR x + nU x) * 2) by lia.
      rewrite N.mod_add by lia. reflexivity. }
    pose proof (write_loop_spec RWFUEL (wtag f k) nr ws (r_sh x) Live NA Ti HB) as P.
    cbv zeta in P. destruct P as (P0 & P1 & P2 & P3 & P5 & P4).
    destruct (write_loop RWFUEL (wtag f k) nr ws (r_sh x)) as [[nr' ws'] s'|[nr' ws'] s'|[nr' ws'] s'];
      cbn [sh_after ws_after held_after] in *; cbn [fst].
    + destruct P4 as (-> & P4).
      set (fu' := mkRfut (rf_arc fu) (FWrite nr' WAcquired) false (mkMeta FDone (Some (wtag f k)) false)).
      specialize (UT fu' _ L). specialize (UH fu' _ L).
      unfold itick, fhold in UT, UH. cbn [rf_st fu' wtick hold_ws] in UT, UH. rewrite ST in UT, UH.
      cbn [wtick hold_ws] in P0.
      assert (Z : hold_ws ws = 0 -> nU x + nW x + nH x = 0) by (intro Q; apply MEv, P3; auto).
      assert (HW : hold_ws ws = 0 \/ hold_ws ws = 1) by (destruct ws; cbn; auto).
      assert (G : RInv (r_bump_g (r_upd x s' (aupdate f fu' (r_futs x)) (r_guards x ++ [(r_ng x, (GW, rf_arc fu))])))).
      { apply RInv_bump_g. unfold RInv, nR, nU, nW, nH, nT in *. cbn [r_sh r_futs r_guards r_upd]. gapp.
        fold itick in UT. fold fhold in UH.
        split; [lia|]. split; [lia|]. split; [destruct HW as [Q|Q]; [specialize (Z Q)|]; lia|].
        split; [intro; lia|].
        apply Forall_aupdate; [exact F|]. unfold fut_ok, itick, fhold. cbn. split; reflexivity. }
      destruct (rf_arc fu && negb (rf_owns fu)); [apply RInv_inc|]; exact G.
    + set (fu' := mkRfut (rf_arc fu) (FWrite nr' ws') (rf_owns fu) (mkMeta FPending (Some (wtag f k)) false)).
      specialize (UT fu' _ L). specialize (UH fu' _ L).
      unfold itick, fhold in UT, UH. cbn [rf_st fu'] in UT, UH. rewrite ST in UT, UH.
      assert (Z : hold_ws ws = 0 -> hold_ws ws' = 1 -> nU x + nW x + nH x = 0) by (intros Q Q'; apply MEv, P3; auto).
      assert (HW : hold_ws ws = 0 \/ hold_ws ws = 1) by (destruct ws; cbn; auto).
      assert (HW' : hold_ws ws' = 0 \/ hold_ws ws' = 1) by (destruct ws'; cbn; auto).
      unfold RInv, nR, nU, nW, nH, nT in *. cbn [r_sh r_futs r_guards r_upd].
      fold itick in UT. fold fhold in UH.
      split; [lia|]. split; [lia|].
      split; [destruct HW as [Q|Q]; destruct HW' as [Q'|Q']; try specialize (Z Q Q'); lia|].
      split; [exact Ex|].
      apply Forall_aupdate; [exact F|]. unfold fut_ok. cbn. split; assumption.
    + set (fu' := mkRfut (rf_arc fu) (FWrite nr' ws') (rf_owns fu) (mkMeta FPending (Some (wtag f k)) false)).
      specialize (UT fu' _ L). specialize (UH fu' _ L).
      unfold itick, fhold in UT, UH. cbn [rf_st fu'] in UT, UH. rewrite ST in UT, UH.
      assert (Z : hold_ws ws = 0 -> hold_ws ws' = 1 -> nU x + nW x + nH x = 0) by (intros Q Q'; apply MEv, P3; auto).
      assert (HW : hold_ws ws = 0 \/ hold_ws ws = 1) by (destruct ws; cbn; auto).
      assert (HW' : hold_ws ws' = 0 \/ hold_ws ws' = 1) by (destruct ws'; cbn; auto).
      unfold RInv, nR, nU, nW, nH, nT in *. cbn [r_sh r_futs r_guards r_upd].
      change (sw1 (set_err s')) with (sw1 s'). change (sw0 (set_err s')) with (sw0 s').
      fold itick in UT. fold fhold in UH.
      split; [lia|]. split; [lia|].
      split; [destruct HW as [Q|Q]; destruct HW' as [Q'|Q']; try specialize (Z Q Q'); lia|].
      split; [exact Ex|].
      apply Forall_aupdate; [exact F|]. unfold fut_ok. cbn. split; assumption.
  - (* upgrade *)
    subst hl. cbn [negb].
    pose proof (upgrade_loop_spec RWFUEL (wtag f k) l (r_sh x)) as P.
    destruct (upgrade_loop RWFUEL (wtag f k) l (r_sh x)) as [l' s'|l' s'|l' s']; cbn [fst].
    + destruct P as (P1 & P2 & P3).
      set (fu' := mkRfut (rf_arc fu) (FUpgrade false l') false (mkMeta FDone (Some (wtag f k)) false)).
      specialize (UT fu' _ L). specialize (UH fu' _ L).
      unfold itick, fhold in UT, UH. cbn [rf_st fu'] in UT, UH. rewrite ST in UT, UH.
      assert (G : RInv (r_bump_g (r_upd x s' (aupdate f fu' (r_futs x)) (r_guards x ++ [(r_ng x, (GW, rf_arc fu))])))).
      { apply RInv_bump_g. unfold RInv, nR, nU, nW, nH, nT in *. cbn [r_sh r_futs r_guards r_upd]. gapp.
        fold itick in UT. fold fhold in UH.
        split; [lia|]. split; [lia|]. split; [lia|]. split; [intro; lia|].
        apply Forall_aupdate; [exact F|]. unfold fut_ok, itick, fhold. cbn. split; reflexivity. }
      destruct (rf_arc fu && negb (rf_owns fu)); [apply RInv_inc|]; exact G.
    + destruct P as (P1 & P2).
      set (fu' := mkRfut (rf_arc fu) (FUpgrade true l') (rf_owns fu) (mkMeta FPending (Some (wtag f k)) false)).
      specialize (UT fu' _ L). specialize (UH fu' _ L).
      unfold itick, fhold in UT, UH. cbn [rf_st fu'] in UT, UH. rewrite ST in UT, UH.
      unfold RInv, nR, nU, nW, nH, nT in *. cbn [r_sh r_futs r_guards r_upd].
      fold itick in UT. fold fhold in UH.
      split; [lia|]. split; [lia|]. split; [lia|]. split; [exact Ex|].
      apply Forall_aupdate; [exact F|]. unfold fut_ok. cbn. reflexivity.
    + destruct P as (P1 & P2).
      set (fu' := mkRfut (rf_arc fu) (FUpgrade true l') (rf_owns fu) (mkMeta FPending (Some (wtag f k)) false)).
      specialize (UT fu' _ L). specialize (UH fu' _ L).
      unfold itick, fhold in UT, UH. cbn [rf_st fu'] in UT, UH. rewrite ST in UT, UH.
      unfold RInv, nR, nU, nW, nH, nT in *. cbn [r_sh r_futs r_guards r_upd].
      change (sw1 (set_err s')) with (sw1 s'). change (sw0 (set_err s')) with (sw0 s').
      fold itick in UT. fold fhold in UH.
      split; [lia|]. split; [lia|]. split; [lia|]. split; [exact Ex|].
      apply Forall_aupdate; [exact F|]. unfold fut_ok. cbn. reflexivity.
Qed.

Lemma odd_when_held x : RInv x -> 1 <= nW x + nH x -> sw1 (r_sh x) mod 2 = 1 /\ 1 <= sw0 (r_sh x).
Proof.
  intros (E1 & E0 & Le & _) H. split; [|lia].
  rewrite E1. replace (2 * (nR x + nU x) + nW x + nH x) with (1 + (nR x + nU x) * 2) by lia.
  rewrite N.mod_add by lia. reflexivity.
Qed.

Lemma step_dropfut x f : RInv x -> small x -> RInv (fst (rstep_core x (RDropFut f))).
Proof.
  intros I B. unfold rstep_core. cbv beta iota zeta.
  destruct (alookup f (r_futs x)) as [fu|] eqn:L; [|exact I].
  destruct (bounds x I B) as (B0 & B1).
  pose proof (odd_when_held x I) as OW.
  pose proof I as (E1 & E0 & Le & Ex & F).
  pose proof (asum_aremove itick f fu _ L) as UT. pose proof (asum_aremove fhold f fu _ L) as UH.
  pose proof (asum_In itick _ _ _ (alookup_In _ _ _ L)) as Ti.
  pose proof (asum_In fhold _ _ _ (alookup_In _ _ _ L)) as Hi.
  assert (G : RInv (r_upd x (rfut_drop (rf_st fu) (r_sh x)) (aremove f (r_futs x)) (r_guards x))).
  { unfold rfut_drop.
    destruct (rf_st fu) as [c l | l | nr ws | hl l] eqn:ST.
    - assert (IT : itick fu = 0) by (unfold itick; rewrite ST; reflexivity).
      assert (FH : fhold fu = 0) by (unfold fhold; rewrite ST; reflexivity).
      unfold RInv, nR, nU, nW, nH, nT in *. cbn [r_sh r_futs r_guards r_upd]. autorewrite with sw.
      split; [lia|]. split; [lia|]. split; [lia|]. split; [exact Ex|]. apply Forall_aremove. exact F.
    - assert (IT : itick fu = lticket l) by (unfold itick; rewrite ST; reflexivity).
      assert (FH : fhold fu = 0) by (unfold fhold; rewrite ST; reflexivity).
      assert (Tl : lticket l <= getw W0 (r_sh x)) by (cbn [getw]; unfold nT in *; lia).
      assert (Bl : getw W0 (r_sh x) < USZ) by (cbn [getw]; lia).
      pose proof (lock_drop_spec W0 Base.E0 l (r_sh x) Tl Bl) as (D0 & Fr). cbn [getw] in D0.
      pose proof (wframe_W0_sw1 _ _ Fr) as D1.
      unfold RInv, nR, nU, nW, nH, nT in *. cbn [r_sh r_futs r_guards r_upd].
      split; [lia|]. split; [lia|]. split; [lia|]. split; [exact Ex|]. apply Forall_aremove. exact F.
    - assert (IT : itick fu = wtick ws) by (unfold itick; rewrite ST; reflexivity).
      assert (FH : fhold fu = hold_ws ws) by (unfold fhold; rewrite ST; reflexivity).
      assert (Tl : wtick ws <= sw0 (r_sh x)) by (unfold nT in *; lia).
      assert (Bl : sw0 (r_sh x) < USZ) by lia.
      assert (HW : ws = WWaiting -> sw1 (r_sh x) mod 2 = 1 /\ 1 <= sw0 (r_sh x)).
      { intros ->. apply OW. cbn [hold_ws] in FH. unfold nH. lia. }
      pose proof (write_drop_spec nr ws (r_sh x) Tl Bl HW) as (D0 & D1).
      unfold RInv, nR, nU, nW, nH, nT in *. cbn [r_sh r_futs r_guards r_upd].
      split; [lia|]. split; [lia|]. split; [lia|]. split; [exact Ex|]. apply Forall_aremove. exact F.
    - assert (IT : itick fu = 0) by (unfold itick; rewrite ST; reflexivity).
      assert (FH : fhold fu = if hl then 1 else 0) by (unfold fhold; rewrite ST; destruct hl; reflexivity).
      assert (Bl : sw0 (r_sh x) < USZ) by lia.
      assert (HW : hl = true -> sw1 (r_sh x) mod 2 = 1 /\ 1 <= sw0 (r_sh x)).
      { intros ->. apply OW. unfold nH. lia. }
      pose proof (upgrade_drop_spec hl l (r_sh x) Bl HW) as (D0 & D1).
      unfold RInv, nR, nU, nW, nH, nT in *. cbn [r_sh r_futs r_guards r_upd].
      split; [lia|]. split; [lia|]. split; [lia|]. split; [exact Ex|]. apply Forall_aremove. exact F. }
  destruct (rf_owns fu); cbn [fst]; [apply RInv_dec|]; exact G.
Qed.

Lemma step_try x k arc : RInv x -> small x -> RInv (fst (rstep_core x (RTry k arc))).
Proof.
  intros I B. unfold rstep_core. cbv beta iota zeta.
  destruct (Nat.eqb (r_handles x) 0); [exact I|].
  destruct (bounds x I B) as (B0 & B1).
  pose proof I as (E1 & E0 & Le & Ex & F).
  destruct k.
  - (* try_read *)
    assert (B1' : sw1 (r_sh x) + 2 < USZ) by lia.
    pose proof (try_read_spec (r_sh x) B1') as T. destruct (rw_try_read (r_sh x)) as [s' ok].
    destruct T as (T1 & T2 & T0 & _). destruct ok.
    + destruct (T1 eq_refl) as (Ev & P1).
      assert (W0 : nW x + nH x = 0).
      { rewrite E1 in Ev. replace (2 * (nR x + nU x) + nW x + nH x) with ((nW x + nH x) + (nR x + nU x) * 2) in Ev by lia.
        rewrite N.mod_add in Ev by lia. assert (nW x + nH x <= 1) by lia.
        destruct (N.eq_dec (nW x + nH x) 0); [assumption|]. replace (nW x + nH x) with 1 in Ev by lia. discriminate. }
      assert (G : RInv (r_bump_g (r_upd x s' (r_futs x) (r_guards x ++ [(r_ng x, (GR, arc))])))).
      { apply RInv_bump_g. unfold RInv, nR, nU, nW, nH, nT in *. cbn [r_sh r_futs r_guards r_upd]. gapp.
        split; [lia|]. split; [lia|]. split; [lia|]. split; [intro; lia | exact F]. }
      destruct arc; cbn [fst]; [apply RInv_inc|]; exact G.
    + destruct (T2 eq_refl) as (_ & P1). cbn [fst].
      unfold RInv, nR, nU, nW, nH, nT in *. cbn [r_sh r_futs r_guards r_upd].
      split; [lia|]. split; [lia|]. split; [lia|]. split; [exact Ex | exact F].
  - (* try_upgradable_read *)
    assert (B1' : sw1 (r_sh x) + 2 < USZ) by lia.
    pose proof (try_upgradable_read_spec (r_sh x) B1') as T. destruct (rw_try_upgradable_read (r_sh x)) as [s' ok].
    destruct T as (T1 & T2). destruct ok.
    + destruct (T1 eq_refl) as (Z & P0 & P1).
      assert (G : RInv (r_bump_g (r_upd x s' (r_futs x) (r_guards x ++ [(r_ng x, (GU, arc))])))).
      { apply RInv_bump_g. unfold RInv, nR, nU, nW, nH, nT in *. cbn [r_sh r_futs r_guards r_upd]. gapp.
        split; [lia|]. split; [lia|]. split; [lia|]. split; [intro; lia | exact F]. }
      destruct arc; cbn [fst]; [apply RInv_inc|]; exact G.
    + destruct (T2 eq_refl) as (P0 & P1). cbn [fst].
      unfold RInv, nR, nU, nW, nH, nT in *. cbn [r_sh r_futs r_guards r_upd].
      split; [lia|]. split; [lia|]. split; [lia|]. split; [exact Ex | exact F].
  - (* try_write *)
    assert (B0' : sw0 (r_sh x) < USZ) by lia.
    pose proof (try_write_spec (r_sh x) B0') as T. destruct (rw_try_write (r_sh x)) as [s' ok].
    destruct T as (T1 & T2). destruct ok.
    + destruct (T1 eq_refl) as (Z0 & P0 & Z1 & P1).
      assert (G : RInv (r_bump_g (r_upd x s' (r_futs x) (r_guards x ++ [(r_ng x, (GW, arc))])))).
      { apply RInv_bump_g. unfold RInv, nR, nU, nW, nH, nT in *. cbn [r_sh r_futs r_guards r_upd]. gapp.
        split; [lia|]. split; [lia|]. split; [lia|]. split; [intro; lia | exact F]. }
      destruct arc; cbn [fst]; [apply RInv_inc|]; exact G.
    + destruct (T2 eq_refl) as (P0 & P1). cbn [fst].
      unfold RInv, nR, nU, nW, nH, nT in *. cbn [r_sh r_futs r_guards r_upd].
      split; [lia|]. split; [lia|]. split; [lia|]. split; [exact Ex | exact F].
Qed.

Lemma step_tryupgrade x g : RInv x -> RInv (fst (rstep_core x (RTryUpgrade g))).
Proof.
  intros I. unfold rstep_core. cbv beta iota zeta.
  destruct (alookup g (r_guards x)) as [[[| |] arc]|] eqn:L; try exact I.
  pose proof I as (E1 & E0 & Le & Ex & F).
  pose proof (try_upgrade_spec (r_sh x)) as T. destruct (rw_try_upgrade (r_sh x)) as [s' ok].
  destruct T as (T1 & T2 & T0). destruct ok; cbn [fst].
  - destruct (T1 eq_refl) as (Z & P1). gsum3 L (GW, arc).
    unfold RInv, nR, nU, nW, nH, nT in *. cbn [r_sh r_futs r_guards r_upd].
    split; [lia|]. split; [lia|]. split; [lia|]. split; [intro; lia | exact F].
  - destruct (T2 eq_refl) as (_ & ->). exact I.
Qed.

Lemma step_downgrade x g : RInv x -> small x -> RInv (fst (rstep_core x (RDowngrade g))).
Proof.
  intros I B. unfold rstep_core. cbv beta iota zeta.
  destruct (bounds x I B) as (B0 & B1).
  pose proof I as (E1 & E0 & Le & Ex & F).
  destruct (alookup g (r_guards x)) as [[[| |] arc]|] eqn:L; try exact I; cbn [fst].
  - (* upgradable -> read *)
    gsum3 L (GR, arc).
    destruct (downgrade_upgradable_read_spec (r_sh x)) as (D1 & D0); [unfold nU in *; lia | lia |].
    unfold RInv, nR, nU, nW, nH, nT in *. cbn [r_sh r_futs r_guards r_upd].
    split; [lia|]. split; [lia|]. split; [lia|]. split; [intro; lia | exact F].
  - (* write -> read *)
    gsum3 L (GR, arc).
    destruct (downgrade_write_spec (r_sh x)) as (D1 & D0); [lia | unfold nW in *; lia | lia |].
    unfold RInv, nR, nU, nW, nH, nT in *. cbn [r_sh r_futs r_guards r_upd].
    assert (R0 : asum (isk GR) (r_guards x) = 0) by (apply Ex; lia).
    split; [lia|]. split; [lia|]. split; [lia|]. split; [intro; lia | exact F].
Qed.

Lemma step_downgradeup x g : RInv x -> small x -> RInv (fst (rstep_core x (RDowngradeUp g))).
Proof.
  intros I B. unfold rstep_core. cbv beta iota zeta.
  destruct (bounds x I B) as (B0 & B1).
  pose proof I as (E1 & E0 & Le & Ex & F).
  destruct (alookup g (r_guards x)) as [[[| |] arc]|] eqn:L; try exact I; cbn [fst].
  gsum3 L (GU, arc).
  destruct (downgrade_to_upgradable_spec (r_sh x)) as (D1 & D0); [lia|].
  unfold RInv, nR, nU, nW, nH, nT in *. cbn [r_sh r_futs r_guards r_upd].
  assert (R0 : asum (isk GR) (r_guards x) = 0) by (apply Ex; lia).
  split; [lia|]. split; [lia|]. split; [lia|]. split; [intro; lia | exact F].
Qed.

Lemma step_dropguard x g : RInv x -> small x -> RInv (fst (rstep_core x (RDropGuard g))).
Proof.
  intros I B. unfold rstep_core. cbv beta iota zeta.
  destruct (bounds x I B) as (B0 & B1).
  pose proof (odd_when_held x I) as OW.
  pose proof I as (E1 & E0 & Le & Ex & F).
  destruct (alookup g (r_guards x)) as [[gk arc]|] eqn:L; [|exact I].
  grem3 L.
  assert (G : RInv (r_upd x match gk with GR => rw_read_unlock (r_sh x) | GU => rw_upgradable_read_unlock (r_sh x)
                                     | GW => rw_write_unlock (r_sh x) end (r_futs x) (aremove g (r_guards x)))).
  { destruct gk; cbn [gkind_eqb] in *.
    - destruct (read_unlock_spec (r_sh x)) as (D1 & D0); [unfold nR in *; lia | lia |].
      unfold RInv, nR, nU, nW, nH, nT in *. cbn [r_sh r_futs r_guards r_upd].
      split; [lia|]. split; [lia|]. split; [lia|]. split; [intro; lia | exact F].
    - destruct (upgradable_read_unlock_spec (r_sh x)) as (D1 & D0); [unfold nU in *; lia | lia | unfold nU in *; lia | lia |].
      unfold RInv, nR, nU, nW, nH, nT in *. cbn [r_sh r_futs r_guards r_upd].
      split; [lia|]. split; [lia|]. split; [lia|]. split; [intro; lia | exact F].
    - destruct OW as (Od & H1); [unfold nW in *; lia|].
      destruct (write_unlock_spec (r_sh x) Od H1) as (D1 & D0); [lia|].
      unfold RInv, nR, nU, nW, nH, nT in *. cbn [r_sh r_futs r_guards r_upd].
      split; [lia|]. split; [lia|]. split; [lia|]. split; [intro; lia | exact F]. }
  destruct arc; cbn [fst]; [apply RInv_dec|]; exact G.
Qed.

Lemma step_core_RInv x o : RInv x -> small x -> RInv (fst (rstep_core x o)).
Proof.
  intros I B. destruct o.
  - apply step_start; assumption.
  - apply step_upgrade; assumption.
  - apply step_poll; assumption.
  - apply step_dropfut; assumption.
  - apply step_try; assumption.
  - apply step_tryupgrade; assumption.
  - apply step_downgrade; assumption.
  - apply step_downgradeup; assumption.
  - apply step_dropguard; assumption.
  - unfold rstep_core. cbv beta iota zeta. destruct (alookup g (r_guards x)); exact I.
  - unfold rstep_core. cbv beta iota zeta. destruct (alookup g (r_guards x)) as [[[| |] a]|]; cbn [fst]; try exact I.
  - unfold rstep_core. cbv beta iota zeta. destruct (Nat.eqb (r_handles x) 0); cbn [fst]; exact I.
  - unfold rstep_core. cbv beta iota zeta. destruct (Nat.eqb (r_handles x) 0); [exact I|].
    destruct (Nat.eqb (r_handles x) 1 && r_borrowed_alive x); cbn [fst]; exact I.
Qed.

Lemma small_x0 x : small x -> small (r_upd x (set_wk [] (r_sh x)) (r_futs x) (r_guards x)).
Proof. exact (fun H => H). Qed.

Lemma step_RInv x o : RInv x -> small x -> RInv (fst (rstep x o)).
Proof.
  intros I B. unfold rstep.
  set (x0 := r_upd x (set_wk [] (r_sh x)) (r_futs x) (r_guards x)).
  assert (I0 : RInv x0) by exact I.
  pose proof (step_core_RInv x0 o I0 (small_x0 x B)) as H.
  destruct (rstep_core x0 o) as [x1 r]. cbn [fst] in *. apply RInv_wake. exact H.
Qed.

Lemma sizes_grow x o :
  (length (r_futs (fst (rstep x o))) + length (r_guards (fst (rstep x o))) <= S (length (r_futs x) + length (r_guards x)))%nat.
Proof.
  unfold rstep.
  set (x0 := r_upd x (set_wk [] (r_sh x)) (r_futs x) (r_guards x)).
  assert (L0 : (length (r_futs x0) + length (r_guards x0) = length (r_futs x) + length (r_guards x))%nat) by reflexivity.
  destruct (rstep_core x0 o) as [x1 r] eqn:E. cbn [fst].
  unfold r_wake_all, r_upd. cbn [r_futs r_guards]. rewrite map_length. rewrite <- L0. clear L0.
  revert E. generalize x0. clear x x0. intros x E. unfold rstep_core in E.
  destruct o; cbv beta iota zeta in E.
  all: repeat match type of E with
       | context [match ?d with _ => _ end] => destruct d eqn:?
       end; inversion E; subst;
       unfold r_inc, r_dec, r_bump_g, r_bump_f, r_upd, r_set_handles, r_set_val; cbn [r_futs r_guards];
       rewrite ?app_length, ?aupdate_length; cbn [length]; try lia.
  all: repeat match goal with H : alookup ?k ?l = Some _ |- _ => pose proof (alookup_aremove_length _ _ _ H); clear H end; try lia.
Qed.

Lemma run_RInv_gen ops : forall x, RInv x ->
  2 * N.of_nat (length ops + (length (r_futs x) + length (r_guards x))) + 8 < USZ ->
  RInv (fold_left (fun x o => fst (rstep x o)) ops x).
Proof.
  induction ops as [|o ops IH]; intros x I B; cbn [fold_left]; [exact I|].
  apply IH.
  - apply step_RInv; [exact I|]. unfold small. cbn [length] in B. lia.
  - pose proof (sizes_grow x o). cbn [length] in B. lia.
Qed.

Lemma RInv_init : RInv rw0.
Proof. unfold RInv, nR, nU, nW, nH, nT. cbn. repeat split; auto; lia. Qed.

Definition OPS_BOUND : N := 4611686018427387904.   (* 2^62 *)

Theorem run_RInv ops : N.of_nat (length ops) < OPS_BOUND -> RInv (rrun ops).
Proof.
  intro B. apply run_RInv_gen; [apply RInv_init|].
  cbn [rw0 r_futs r_guards length]. unfold OPS_BOUND in B. rewrite USZ_val. lia.
Qed.

Lemma run_sizes ops : forall x,
  (length (r_futs (fold_left (fun x o => fst (rstep x o)) ops x)) +
   length (r_guards (fold_left (fun x o => fst (rstep x o)) ops x))
   <= length ops + (length (r_futs x) + length (r_guards x)))%nat.
Proof.
  induction ops as [|o l IH]; intro z; cbn [fold_left length]; [lia|].
  specialize (IH (fst (rstep z o))). pose proof (sizes_grow z o). lia.
Qed.
Lemma run_small ops : N.of_nat (length ops) < OPS_BOUND -> small (rrun ops).
Proof.
  intro B. unfold small, rrun. pose proof (run_sizes ops rw0) as S. cbn [rw0 r_futs r_guards length] in S.
  unfold OPS_BOUND in B. rewrite USZ_val. lia.
Qed.

(* ---- consequences ---- *)
(* C02: many readers xor one writer, at most one upgradable reader *)
Theorem rw_exclusion ops : N.of_nat (length ops) < OPS_BOUND ->
  let x := rrun ops in
  nW x <= 1 /\ nU x <= 1 /\ (nW x = 1 -> nR x = 0 /\ nU x = 0).
Proof.
  intros B x. destruct (run_RInv ops B) as (_ & _ & Le & Ex & _). fold x in Le, Ex.
  split; [lia|]. split; [lia|]. intro W1. split; [apply Ex; lia | lia].
Qed.

(* C11: at most one of {upgradable guard, write guard, writer waiting for readers, pending upgrade} *)
Theorem rw_single_converter ops : N.of_nat (length ops) < OPS_BOUND ->
  let x := rrun ops in nU x + nW x + nH x <= 1.
Proof. intros B x. apply (run_RInv ops B). Qed.

(* the protected value changes only through a write guard *)
Lemma value_changes_only_by_writer x o :
  r_val (fst (rstep x o)) <> r_val x ->
  exists g a, o = RBump g /\ alookup g (r_guards x) = Some (GW, a).
Proof.
  unfold rstep.
  set (x0 := r_upd x (set_wk [] (r_sh x)) (r_futs x) (r_guards x)).
  assert (V0 : r_val x0 = r_val x) by reflexivity.
  assert (G0 : r_guards x0 = r_guards x) by reflexivity.
  destruct (rstep_core x0 o) as [x1 r] eqn:E. cbn [fst].
  unfold r_wake_all, r_upd. cbn [r_val]. rewrite <- V0, <- G0. clear V0 G0.
  revert E. generalize x0. clear x x0. intros x E N. unfold rstep_core in E.
  destruct o; cbv beta iota zeta in E;
    try (exfalso; apply N; clear N;
         repeat match type of E with
         | context [match ?d with _ => _ end] => destruct d eqn:?
         end; inversion E; subst; reflexivity).
  destruct (alookup g (r_guards x)) as [[[| |] a]|] eqn:L; inversion E; subst; try (exfalso; apply N; reflexivity).
  exists g, a. split; [reflexivity | exact L].
Qed.

(* result of try_* in a state where somebody holds / waits for the write side *)
Lemma try_fails_when_writer x k arc : RInv x -> small x -> r_handles x <> 0%nat ->
  1 <= nW x + nH x -> o_res (snd (rstep x (RTry k arc))) = RNone.
Proof.
  intros I B Hh H1. destruct (bounds x I B) as (B0 & B1).
  destruct (odd_when_held x I H1) as (Od & S0).
  unfold rstep, rstep_core. cbv beta iota zeta. cbn [r_upd r_handles r_sh r_futs r_guards r_ng].
  destruct (Nat.eqb (r_handles x) 0) eqn:Eh; [apply Nat.eqb_eq in Eh; contradiction|].
  set (s0 := set_wk [] (r_sh x)).
  assert (A1 : sw1 s0 = sw1 (r_sh x)) by reflexivity. assert (A0 : sw0 s0 = sw0 (r_sh x)) by reflexivity.
  destruct k.
  - pose proof (try_read_spec s0) as T. destruct (rw_try_read s0) as [s' ok].
    destruct T as (T1 & _); [rewrite A1; lia|]. destruct ok; [|reflexivity].
    destruct (T1 eq_refl) as (Ev & _). rewrite A1, Od in Ev. discriminate.
  - pose proof (try_upgradable_read_spec s0) as T. destruct (rw_try_upgradable_read s0) as [s' ok].
    destruct T as (T1 & _); [rewrite A1; lia|]. destruct ok; [|reflexivity].
    destruct (T1 eq_refl) as (Z & _). rewrite A0 in Z. lia.
  - pose proof (try_write_spec s0) as T. destruct (rw_try_write s0) as [s' ok].
    destruct T as (T1 & _); [rewrite A0; lia|]. destruct ok; [|reflexivity].
    destruct (T1 eq_refl) as (Z & _). rewrite A0 in Z. lia.
Qed.

(* ---- C14: exact characterisation of the try_* results in reachable states ---- *)
Lemma try_read_result x arc : RInv x -> small x -> r_handles x <> 0%nat ->
  o_res (snd (rstep x (RTry KRead arc))) = if nW x + nH x =? 0 then RSome (r_ng x) else RNone.
Proof.
  intros I B Hh. destruct (bounds x I B) as (B0 & B1).
  destruct (nW x + nH x =? 0) eqn:Z.
  2:{ apply try_fails_when_writer; auto. lia. }
  assert (Z' : nW x + nH x = 0) by lia.
  pose proof I as (Q1 & Q0 & Le & Ex & F).
  unfold rstep, rstep_core. cbv beta iota zeta. cbn [r_upd r_handles r_sh r_futs r_guards r_ng].
  destruct (Nat.eqb (r_handles x) 0) eqn:Eh; [apply Nat.eqb_eq in Eh; contradiction|].
  set (s0 := set_wk [] (r_sh x)).
  assert (A1 : sw1 s0 = sw1 (r_sh x)) by reflexivity.
  pose proof (try_read_spec s0) as T. destruct (rw_try_read s0) as [s' ok].
  destruct T as (T1 & T2 & _); [rewrite A1; lia|]. destruct ok; [destruct arc; reflexivity|].
  destruct (T2 eq_refl) as (Od & _). rewrite A1, Q1 in Od.
  replace (2 * (nR x + nU x) + nW x + nH x) with (0 + (nR x + nU x) * 2) in Od by lia.
  rewrite N.mod_add in Od by lia. discriminate.
Qed.

Lemma try_write_result x arc : RInv x -> small x -> r_handles x <> 0%nat ->
  o_res (snd (rstep x (RTry KWrite arc))) =
  if (sw0 (r_sh x) =? 0) && (sw1 (r_sh x) =? 0) then RSome (r_ng x) else RNone.
Proof.
  intros I B Hh. destruct (bounds x I B) as (B0 & B1).
  unfold rstep, rstep_core. cbv beta iota zeta. cbn [r_upd r_handles r_sh r_futs r_guards r_ng].
  destruct (Nat.eqb (r_handles x) 0) eqn:Eh; [apply Nat.eqb_eq in Eh; contradiction|].
  set (s0 := set_wk [] (r_sh x)).
  assert (A1 : sw1 s0 = sw1 (r_sh x)) by reflexivity. assert (A0 : sw0 s0 = sw0 (r_sh x)) by reflexivity.
  unfold rw_try_write.
  pose proof (try_lock_spec W0 s0) as T. destruct (try_lock W0 s0) as [s1 ok].
  destruct T as (T1 & T2 & Fr & _). pose proof (wframe_W0_sw1 _ _ Fr) as C1. cbn [getw] in *.
  destruct ok; cbn [negb].
  - destruct (T1 eq_refl) as (Z & O). rewrite A0 in Z. rewrite Z. cbn [N.eqb andb].
    rewrite (surjective_pairing (cas W1 0 WRITER_BIT s1)). rewrite cas_snd. cbn [getw]. rewrite C1, A1.
    replace (0 =? 0) with true by reflexivity. cbn [andb].
    destruct (sw1 (r_sh x) =? 0); [destruct arc; reflexivity | reflexivity].
  - destruct (T2 eq_refl) as (NZ & _). rewrite A0 in NZ.
    destruct (sw0 (r_sh x) =? 0) eqn:Q; [lia | reflexivity].
Qed.

Lemma try_upread_result x arc : RInv x -> small x -> r_handles x <> 0%nat ->
  o_res (snd (rstep x (RTry KUpRead arc))) = if sw0 (r_sh x) =? 0 then RSome (r_ng x) else RNone.
Proof.
  intros I B Hh. destruct (bounds x I B) as (B0 & B1).
  unfold rstep, rstep_core. cbv beta iota zeta. cbn [r_upd r_handles r_sh r_futs r_guards r_ng].
  destruct (Nat.eqb (r_handles x) 0) eqn:Eh; [apply Nat.eqb_eq in Eh; contradiction|].
  set (s0 := set_wk [] (r_sh x)).
  assert (A0 : sw0 s0 = sw0 (r_sh x)) by reflexivity.
  unfold rw_try_upgradable_read.
  pose proof (try_lock_spec W0 s0) as T. destruct (try_lock W0 s0) as [s1 ok].
  destruct T as (T1 & T2 & _). cbn [getw] in *.
  destruct ok; cbn [negb].
  - destruct (T1 eq_refl) as (Z & _). rewrite A0 in Z. rewrite Z. destruct arc; reflexivity.
  - destruct (T2 eq_refl) as (NZ & _). rewrite A0 in NZ.
    destruct (sw0 (r_sh x) =? 0) eqn:Q; [lia | reflexivity].
Qed.

Lemma try_upgrade_result x g arc : alookup g (r_guards x) = Some (GU, arc) ->
  o_res (snd (rstep x (RTryUpgrade g))) = if sw1 (r_sh x) =? 2 then RSome g else RNone.
Proof.
  intro L. unfold rstep, rstep_core. cbv beta iota zeta. cbn [r_upd r_sh r_futs r_guards].
  rewrite L. unfold rw_try_upgrade, cas, ONE_READER, WRITER_BIT. cbn [getw].
  change (sw1 (set_wk [] (r_sh x))) with (sw1 (r_sh x)).
  destruct (sw1 (r_sh x) =? 2) eqn:Q; cbn; rewrite Q; reflexivity.
Qed.

(* try_upgrade fails exactly when another reader is alive *)
Lemma try_upgrade_exact x g arc : RInv x -> alookup g (r_guards x) = Some (GU, arc) ->
  (o_res (snd (rstep x (RTryUpgrade g))) = RSome g <-> nR x = 0).
Proof.
  intros (Q1 & Q0 & Le & Ex & F) L. rewrite (try_upgrade_result x g arc L).
  pose proof (asum_In (isk GU) _ _ _ (alookup_In _ _ _ L)) as U1. rewrite isk_eval in U1. cbn in U1.
  assert (HU : nU x = 1) by (unfold nU in *; lia).
  assert (W0 : nW x + nH x = 0) by lia.
  destruct (sw1 (r_sh x) =? 2) eqn:Q.
  - split; [intros _; lia | reflexivity].
  - split; [discriminate | intro R0; lia].
Qed.

(* try_* never register a listener: the identities of the registered entries do not change *)
Definition ev_ids (s : sh) := (map eid (se0 s), map eid (se1 s), map eid (se2 s)).
