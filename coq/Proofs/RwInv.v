(* RwInv.v — the counting invariant of the RwLock machine for every history:
     state      = 2 * (read + upgradable guards) + (write guards + waiting writers + pending upgrades)
     mutex word = tickets of queued lock operations + (upgradable + write guards + waiting writers + pending upgrades)
   at most one of {upgradable guard, write guard, writer waiting for readers, pending upgrade} exists,
   and a write guard excludes every reader. Consequences: C02, C11, parts of C10 / C14. *)
From AL Require Import Base Api Mutex RwLock RwApi BaseFacts ApiFacts MutexWord RwWord.
From Coq Require Import Lia.

Arguments lock_poll : simpl never.
Arguments lock_drop : simpl never.
Arguments try_lock : simpl never.
Arguments unlock : simpl never.
Arguments notify : simpl never.
Arguments wtag : simpl never.
Arguments rfut_poll : simpl never.
Arguments rfut_drop : simpl never.
Arguments rw_try_read : simpl never.
Arguments rw_try_write : simpl never.
Arguments rw_try_upgradable_read : simpl never.
Arguments rw_try_upgrade : simpl never.
Arguments rw_upgrade_start : simpl never.
Arguments rw_downgrade_upgradable_read : simpl never.
Arguments rw_downgrade_write : simpl never.
Arguments rw_downgrade_to_upgradable : simpl never.
Arguments rw_read_unlock : simpl never.
Arguments rw_upgradable_read_unlock : simpl never.
Arguments rw_write_unlock : simpl never.

Definition itick (f : rfut) : N :=
  match rf_st f with FUpRead l => lticket l | FWrite _ ws => wtick ws | _ => 0 end.
Definition fhold (f : rfut) : N :=
  match rf_st f with FWrite _ ws => hold_ws ws | FUpgrade true _ => 1 | _ => 0 end.
Definition isk (k : gkind) (v : gkind * bool) : N := if gkind_eqb (fst v) k then 1 else 0.

Definition nR (x : rworld) := asum (isk GR) (r_guards x).
Definition nU (x : rworld) := asum (isk GU) (r_guards x).
Definition nW (x : rworld) := asum (isk GW) (r_guards x).
Definition nH (x : rworld) := asum fhold (r_futs x).
Definition nT (x : rworld) := asum itick (r_futs x).

Definition st_live (st : rfutst) : Prop :=
  match st with
  | FRead _ _ => True
  | FUpRead l => lock_live l
  | FWrite _ ws => ws_live ws /\ ws <> WAcquired
  | FUpgrade hl _ => hl = true
  end.
Definition fut_ok (f : rfut) : Prop :=
  match fm_st (rf_meta f) with
  | FDone => itick f = 0 /\ fhold f = 0
  | _ => st_live (rf_st f)
  end.

Definition RInv (x : rworld) : Prop :=
  sw1 (r_sh x) = 2 * (nR x + nU x) + nW x + nH x /\
  sw0 (r_sh x) = nT x + nU x + nW x + nH x /\
  nU x + nW x + nH x <= 1 /\
  (1 <= nW x -> nR x = 0) /\
  Forall (fun p => fut_ok (snd p)) (r_futs x).

Definition small (x : rworld) : Prop :=
  2 * N.of_nat (length (r_futs x)) + 2 * N.of_nat (length (r_guards x)) + 8 < USZ.

Lemma itick_le f : itick f <= 2.
Proof. unfold itick. destruct (rf_st f) as [| l | nr [l| |] |]; cbn; try lia; apply ticket_le_l. Qed.
Lemma itick_even f : itick f mod 2 = 0.
Proof. unfold itick. destruct (rf_st f) as [| l | nr [l| |] |]; cbn; try reflexivity; apply ticket_even_l. Qed.
Lemma nT_even l : asum itick l mod 2 = 0.
Proof.
  induction l as [|[k f] r IH]; cbn [asum]; [reflexivity|].
  rewrite N.add_mod by lia. rewrite itick_even, IH. reflexivity.
Qed.
Lemma isk_le k v : isk k v <= 1.
Proof. unfold isk. destruct (gkind_eqb (fst v) k); lia. Qed.
Lemma guards_total l : asum (isk GR) l + asum (isk GU) l + asum (isk GW) l = N.of_nat (length l).
Proof.
  induction l as [|[k [gk a]] r IH]; [reflexivity|].
  cbn [asum length]. rewrite Nat2N.inj_succ. unfold isk at 1 3 5. cbn [fst].
  destruct gk; cbn [gkind_eqb]; lia.
Qed.

(* the mutex word is even exactly when nobody holds the inner mutex *)
Lemma RInv_mutex_even x : RInv x -> sw0 (r_sh x) mod 2 = 0 -> nU x + nW x + nH x = 0.
Proof.
  intros (_ & E0 & Le & _) Ev. rewrite E0 in Ev.
  replace (nT x + nU x + nW x + nH x) with (nT x + (nU x + nW x + nH x)) in Ev by lia.
  rewrite N.add_mod in Ev by lia. unfold nT in Ev. rewrite nT_even in Ev.
  rewrite N.add_0_l, N.mod_mod in Ev by lia.
  assert (nU x + nW x + nH x = 0 \/ nU x + nW x + nH x = 1) as [Z|O] by lia; [exact Z|].
  rewrite O in Ev. discriminate.
Qed.

(* bookkeeping invisible to RInv *)
Lemma RInv_inc x : RInv (r_inc x) <-> RInv x. Proof. reflexivity. Qed.
Lemma RInv_dec x : RInv (r_dec x) <-> RInv x. Proof. reflexivity. Qed.
Lemma RInv_bump_g x : RInv (r_bump_g x) <-> RInv x. Proof. reflexivity. Qed.
Lemma RInv_bump_f x : RInv (r_bump_f x) <-> RInv x. Proof. reflexivity. Qed.
Lemma RInv_set_handles h x : RInv (r_set_handles h x) <-> RInv x. Proof. reflexivity. Qed.
Lemma RInv_set_val v x : RInv (r_set_val v x) <-> RInv x. Proof. reflexivity. Qed.

Lemma fut_ok_wake wk f :
  fut_ok (mkRfut (rf_arc f) (rf_st f) (rf_owns f) (meta_wake wk (rf_meta f))) <-> fut_ok f.
Proof.
  unfold fut_ok, meta_wake, itick, fhold. cbn. destruct (rf_meta f) as [st w wo]. cbn.
  destruct st; try reflexivity. destruct w as [w0|]; try reflexivity. destruct (mem_nat w0 wk); reflexivity.
Qed.
Lemma RInv_wake wk x : RInv x -> RInv (r_wake_all wk x).
Proof.
  intros (E1 & E0 & Le & Ex & F). unfold RInv, r_wake_all, r_upd, nR, nU, nW, nH, nT in *.
  cbn [r_sh r_futs r_guards].
  rewrite !(asum_map _ (fun f => mkRfut (rf_arc f) (rf_st f) (rf_owns f) (meta_wake wk (rf_meta f)))) by reflexivity.
  repeat split; auto.
  rewrite Forall_forall in *. intros p Hp. apply in_map_iff in Hp. destruct Hp as ([k f] & <- & Hin).
  cbn [snd fst]. apply fut_ok_wake. apply (F (k, f) Hin).
Qed.

(* ---- helper facts ---- *)
Lemma bounds x : RInv x -> small x ->
  sw0 (r_sh x) + 2 < USZ /\ sw1 (r_sh x) + 4 < USZ.
Proof.
  intros (E1 & E0 & Le & _) B. unfold small in B.
  pose proof (asum_le itick 2 (r_futs x) itick_le) as TL.
  pose proof (guards_total (r_guards x)) as GT. unfold nR, nU, nW, nT, nH in *. split; lia.
Qed.

Lemma isk_eval k k' a : isk k (k', a) = if gkind_eqb k' k then 1 else 0.
Proof. reflexivity. Qed.
Ltac gsum3 L v' :=
  let A := fresh "SR" in let B := fresh "SU" in let C := fresh "SW" in
  pose proof (asum_aupdate (isk GR) _ _ v' _ L) as A;
  pose proof (asum_aupdate (isk GU) _ _ v' _ L) as B;
  pose proof (asum_aupdate (isk GW) _ _ v' _ L) as C;
  rewrite !isk_eval in A, B, C; cbn [gkind_eqb] in A, B, C.
Ltac grem3 L :=
  let A := fresh "SR" in let B := fresh "SU" in let C := fresh "SW" in
  pose proof (asum_aremove (isk GR) _ _ _ L) as A;
  pose proof (asum_aremove (isk GU) _ _ _ L) as B;
  pose proof (asum_aremove (isk GW) _ _ _ L) as C;
  rewrite !isk_eval in A, B, C; cbn [gkind_eqb] in A, B, C.
Ltac gapp := rewrite ?asum_app; cbn [asum]; rewrite ?isk_eval; cbn [gkind_eqb].

Lemma step_start x k arc : RInv x -> RInv (fst (rstep_core x (RStart k arc))).
Proof.
  intros I. unfold rstep_core. cbv beta iota zeta.
  destruct (Nat.eqb (r_handles x) 0); [exact I|]. cbn [fst]. apply RInv_bump_f.
  destruct I as (E1 & E0 & Le & Ex & F). unfold RInv, nR, nU, nW, nH, nT in *. cbn [r_sh r_futs r_guards r_upd].
  rewrite !asum_app. cbn [asum].
  destruct k; unfold fhold, itick in *; cbn [rf_st hold_ws wtick lticket lock_new];
    (split; [lia|]; split; [lia|]; split; [lia|]; split; [exact Ex|];
     apply Forall_app; split; [exact F|]; constructor; [|constructor]; unfold fut_ok; cbn; auto).
  split; [exact I | discriminate].
Qed.

Lemma step_upgrade x g : RInv x -> small x -> RInv (fst (rstep_core x (RUpgrade g))).
Proof.
  intros I B. unfold rstep_core. cbv beta iota zeta.
  destruct (alookup g (r_guards x)) as [[[| |] arc]|] eqn:L; try exact I. cbn [fst]. apply RInv_bump_f.
  destruct (bounds x I B) as (B0 & B1).
  destruct I as (E1 & E0 & Le & Ex & F). grem3 L.
  assert (U1 : 1 <= nU x) by (unfold nU; lia).
  destruct (upgrade_start_spec (r_sh x)) as (A1 & A0); [rewrite E1; lia | lia |].
  unfold RInv, nR, nU, nW, nH, nT in *. cbn [r_sh r_futs r_guards r_upd].
  rewrite !asum_app. cbn [asum]. unfold fhold, itick in *. cbn [rf_st].
  rewrite A1, A0. split; [lia|]. split; [lia|]. split; [lia|]. split; [intro; lia|].
  apply Forall_app; split; [exact F|]. constructor; [|constructor]. unfold fut_ok; cbn. reflexivity.
Qed.
