(* MutexWord.v — what the Mutex code does to its state word (generic in the word
   and event it uses, so the facts also serve RwLock's and Barrier's inner mutex). *)
From AL Require Import Base Mutex BaseFacts.
From Coq Require Import Lia.

Ltac dstep e s1 r :=
  let L := fresh "L" in
  destruct e as [s1 r] eqn:L;
  let L1 := fresh "L1" in pose proof (f_equal fst L) as L1; cbn [fst] in L1;
  let L2 := fresh "L2" in pose proof (f_equal snd L) as L2; cbn [snd] in L2;
  subst s1; subst r; clear L.

Section MW.
Variables (mw : wid) (me : evid).

(* every word other than the mutex's keeps its value *)
Definition wframe (s s' : sh) : Prop := forall w', w' <> mw -> getw w' s' = getw w' s.
Lemma wframe_refl s : wframe s s. Proof. intros w' _. reflexivity. Qed.
Lemma wframe_trans a b c : wframe a b -> wframe b c -> wframe a c.
Proof. intros H1 H2 w' N. rewrite H2, H1; auto. Qed.
Lemma wframe_words s s' : same_words s s' -> wframe s s'.
Proof. intros H w' _. apply same_words_getw. exact H. Qed.
Lemma wframe_setw v s : wframe s (setw mw v s).
Proof. intros w' N. apply getw_setw_other. exact N. Qed.

Local Hint Resolve wframe_refl wframe_setw : wf.
Ltac wf := repeat first [ apply wframe_refl | apply wframe_setw
  | (eapply wframe_trans; [| apply wframe_setw])
  | (eapply wframe_trans; [| apply wframe_words; solve [auto with sw]]) ].

Ltac fin := repeat match goal with H : _ /\ _ |- _ => destruct H end;
  repeat split; auto; try lia; try congruence; try (eapply wframe_trans; eassumption).

Lemma try_lock_spec s :
  let '(s', ok) := try_lock mw s in
  (ok = true -> getw mw s = 0 /\ getw mw s' = 1) /\
  (ok = false -> getw mw s <> 0 /\ s' = s) /\ wframe s s' /\ rest_same s s'.
Proof.
  unfold try_lock. dstep (cas mw 0 1 s) s1 r. rewrite cas_fst, cas_snd.
  destruct (getw mw s =? 0) eqn:E.
  - split; [intros _; split; [lia | apply getw_setw_same]|].
    split; [discriminate|]. split; [apply wframe_setw | apply rest_same_setw].
  - split; [discriminate|]. split; [intros _; split; [lia | reflexivity]|].
    split; [apply wframe_refl | repeat split].
Qed.

Lemma unlock_word s : 1 <= getw mw s -> getw mw s < USZ ->
  getw mw (unlock mw me s) = getw mw s - 1 /\ wframe s (unlock mw me s).
Proof.
  intros H1 H2. unfold unlock. dstep (fetch_sub mw 1 s) s1 r. rewrite fetch_sub_fst.
  autorewrite with sw. split; [apply wsub_small; auto|].
  intros w' N. autorewrite with sw. apply getw_setw_other. exact N.
Qed.

Definition ticket (a : acq) : N := if a_mutex a && a_starved a then 2 else 0.

Lemma take_mutex_spec a s : ticket a <= getw mw s -> getw mw s < USZ ->
  let '(a', s') := take_mutex mw a s in
  getw mw s' = getw mw s - ticket a /\ a_mutex a' = false /\ a_lis a' = a_lis a /\
  a_starved a' = a_starved a /\ wframe s s' /\ same_events s s' /\ swk s' = swk s /\ snid s' = snid s
  /\ serr s' = serr s /\ sorc s' = sorc s.
Proof.
  intros H1 H2. unfold take_mutex, ticket in *.
  destruct (a_mutex a && a_starved a).
  - rewrite fetch_sub_fst. rewrite getw_setw_same. rewrite wsub_small by auto.
    repeat split; auto with wf; destruct mw; reflexivity.
  - repeat split; auto with wf. lia.
Qed.

(* ---- the hot loop ---- *)
Lemma unstarved_spec fuel w : forall a s,
  a_starved a = false -> a_mutex a = true -> getw mw s < USZ ->
  match unstarved mw me fuel w a s with
  | LReady a' s' => getw mw s = 0 /\ getw mw s' = 1 /\ a_mutex a' = false /\ a_starved a' = false /\ wframe s s'
  | LPending a' s' | LFuel a' s' | LBreak a' s' =>
      getw mw s' = getw mw s /\ a_mutex a' = true /\ a_starved a' = false /\ wframe s s'
  end.
Proof.
  induction fuel as [|fuel IH]; intros a s Hs Hm Hb; cbn [unstarved].
  { repeat split; auto with wf. }
  destruct (a_lis a) as [id|].
  - (* listener present: poll it *)
    dstep (poll_listener me id w s) s1 r.
    destruct (snd (poll_listener me id w s)); cbn [negb].
    2:{ autorewrite with sw. repeat split; auto. apply wframe_words; auto with sw. }
    set (s1 := fst (poll_listener me id w s)).
    assert (G1 : getw mw s1 = getw mw s) by (unfold s1; autorewrite with sw; reflexivity).
    assert (F1 : wframe s s1) by (apply wframe_words; unfold s1; auto with sw).
    dstep (cas mw 0 1 s1) s2 prev. rewrite cas_snd, cas_fst.
    destruct (getw mw s1 =? 0) eqn:E0.
    + (* acquired *)
      assert (T : ticket (set_lis None a) = 0).
      { unfold ticket, set_lis. cbn. rewrite Hs, Bool.andb_false_r. reflexivity. }
      pose proof (take_mutex_spec (set_lis None a) (setw mw 1 s1)) as TM.
      rewrite T, getw_setw_same in TM.
      destruct (take_mutex mw (set_lis None a) (setw mw 1 s1)) as [a' s'].
      destruct TM as (P1 & P2 & P3 & P4 & P5 & _); [lia | rewrite USZ_val; lia |].
      repeat split; try lia; auto.
      * rewrite P4. exact Hs.
      * eapply wframe_trans; [exact F1|]. eapply wframe_trans; [apply wframe_setw | exact P5].
    + destruct (getw mw s1 =? 1) eqn:E1.
      * (* held, nobody starved: consult the clock *)
        dstep (oracle s1) s2 b.
        set (s2 := fst (oracle s1)).
        assert (G2 : getw mw s2 = getw mw s) by (unfold s2; autorewrite with sw; exact G1).
        assert (F2 : wframe s s2).
        { eapply wframe_trans; [exact F1|]. apply wframe_words. unfold s2. auto with sw. }
        destruct (snd (oracle s1)).
        -- repeat split; auto.
        -- specialize (IH (set_lis None a) s2). cbn [a_starved a_mutex set_lis] in IH.
           specialize (IH Hs Hm). rewrite G2 in IH. specialize (IH Hb).
           destruct (unstarved mw me fuel w (set_lis None a) s2) as [a' s'|a' s'|a' s'|a' s']; fin.
      * (* somebody is starved: pass the notification on and break *)
        autorewrite with sw. repeat split; auto.
        eapply wframe_trans; [exact F1|]. apply wframe_words. auto with sw.
  - (* no listener: register, then try *)
    dstep (listen me s) s1 lid.
    set (s1 := fst (listen me s)).
    assert (G1 : getw mw s1 = getw mw s) by (unfold s1; autorewrite with sw; reflexivity).
    assert (F1 : wframe s s1) by (apply wframe_words; unfold s1; auto with sw).
    dstep (cas mw 0 1 s1) s2 prev. rewrite cas_snd, cas_fst.
    destruct (getw mw s1 =? 0) eqn:E0.
    + set (a1 := set_lis None (set_lis (Some (snd (listen me s))) a)).
      set (sd := drop_listener me (snd (listen me s)) (setw mw 1 s1)).
      assert (GD : getw mw sd = 1) by (unfold sd; rewrite getw_drop_listener, getw_setw_same; reflexivity).
      assert (T : ticket a1 = 0).
      { unfold ticket, a1, set_lis. cbn. rewrite Hs, Bool.andb_false_r. reflexivity. }
      pose proof (take_mutex_spec a1 sd) as TM.
      rewrite T, GD in TM.
      destruct (take_mutex mw a1 sd) as [a' s'].
      destruct TM as (P1 & P2 & P3 & P4 & P5 & _); [lia | rewrite USZ_val; lia |].
      repeat split; try lia; auto.
      * rewrite P4. exact Hs.
      * eapply wframe_trans; [exact F1|]. eapply wframe_trans; [apply wframe_setw|]. eapply wframe_trans; [|exact P5].
        apply wframe_words. unfold sd. apply drop_listener_words.
    + destruct (getw mw s1 =? 1) eqn:E1.
      * specialize (IH (set_lis (Some (snd (listen me s))) a) s1). cbn [a_starved a_mutex set_lis] in IH.
        specialize (IH Hs Hm). rewrite G1 in IH. specialize (IH Hb).
        destruct (unstarved mw me fuel w (set_lis (Some (snd (listen me s))) a) s1) as [a' s'|a' s'|a' s'|a' s']; fin.
      * repeat split; auto.
Qed.

(* ---- the fair loop ---- *)
Lemma starved_spec fuel w : forall a s,
  a_starved a = true -> a_mutex a = true -> 2 <= getw mw s -> getw mw s < USZ ->
  match starved_loop mw me fuel w a s with
  | LReady a' s' => getw mw s mod 2 = 0 /\ getw mw s' = getw mw s - 1 /\ a_mutex a' = false /\ wframe s s'
  | LPending a' s' | LFuel a' s' =>
      getw mw s' = getw mw s /\ a_mutex a' = true /\ a_starved a' = true /\ wframe s s'
  | LBreak _ _ => False
  end.
Proof.
  induction fuel as [|fuel IH]; intros a s Hs Hm H2 Hb; cbn [starved_loop].
  { repeat split; auto with wf. }
  destruct (a_lis a) as [id|].
  - dstep (poll_listener me id w s) s1 r.
    destruct (snd (poll_listener me id w s)); cbn [negb].
    2:{ autorewrite with sw. repeat split; auto. apply wframe_words; auto with sw. }
    set (s1 := fst (poll_listener me id w s)).
    assert (G1 : getw mw s1 = getw mw s) by (unfold s1; autorewrite with sw; reflexivity).
    assert (F1 : wframe s s1) by (apply wframe_words; unfold s1; auto with sw).
    dstep (fetch_or mw 1 s1) s2 prev. rewrite fetch_or_snd, fetch_or_fst. rewrite G1.
    destruct (mod2_cases (getw mw s)) as [Ev|Od]; rewrite ?Ev, ?Od; cbn [N.eqb].
    + rewrite lor_1_even by exact Ev.
      replace (0 =? 0) with true by reflexivity.
      assert (T : ticket (set_lis None a) = 2).
      { unfold ticket, set_lis. cbn. rewrite Hs, Hm. reflexivity. }
      pose proof (take_mutex_spec (set_lis None a) (setw mw (getw mw s + 1) s1)) as TM.
      rewrite T, getw_setw_same in TM.
      destruct (take_mutex mw (set_lis None a) (setw mw (getw mw s + 1) s1)) as [a' s'].
      destruct TM as (P1 & P2 & P3 & P4 & P5 & _); [lia | |].
      { pose proof (N.mod_upper_bound (getw mw s) 2). rewrite USZ_val in *.
        assert (getw mw s <> 18446744073709551615).
        { intro X. rewrite X in Ev. vm_compute in Ev. discriminate. } lia. }
      repeat split; try lia; auto.
      eapply wframe_trans; [exact F1|]. eapply wframe_trans; [apply wframe_setw | exact P5].
    + rewrite lor_1_odd by exact Od.
      replace (1 =? 0) with false by reflexivity.
      assert (Eq : setw mw (getw mw s) s1 = s1).
      { rewrite <- G1. destruct s1, mw; reflexivity. }
      rewrite Eq.
      specialize (IH (set_lis None a) s1). cbn [a_starved a_mutex set_lis] in IH.
      specialize (IH Hs Hm). rewrite G1 in IH. specialize (IH H2 Hb).
      destruct (starved_loop mw me fuel w (set_lis None a) s1) as [a' s'|a' s'|a' s'|a' s']; fin.
  - dstep (listen me s) s1 lid.
    set (s1 := fst (listen me s)).
    assert (G1 : getw mw s1 = getw mw s) by (unfold s1; autorewrite with sw; reflexivity).
    assert (F1 : wframe s s1) by (apply wframe_words; unfold s1; auto with sw).
    dstep (cas mw 2 3 s1) s2 prev. rewrite cas_snd, cas_fst. rewrite G1.
    set (a1 := set_lis (Some (snd (listen me s))) a).
    destruct (getw mw s =? 2) eqn:E2.
    + set (a0 := set_lis None a1).
      set (sd := drop_listener me (snd (listen me s)) (setw mw 3 s1)).
      assert (GD : getw mw sd = 3) by (unfold sd; rewrite getw_drop_listener, getw_setw_same; reflexivity).
      assert (T : ticket a0 = 2).
      { unfold ticket, a0, a1, set_lis. cbn. rewrite Hs, Hm. reflexivity. }
      pose proof (take_mutex_spec a0 sd) as TM.
      rewrite T, GD in TM.
      destruct (take_mutex mw a0 sd) as [a' s'].
      destruct TM as (P1 & P2 & P3 & P4 & P5 & _); [lia | rewrite USZ_val; lia |].
      assert (getw mw s = 2) by lia.
      repeat split; try lia; auto; try (rewrite H; reflexivity);
        (eapply wframe_trans; [exact F1|]; eapply wframe_trans; [apply wframe_setw|]; eapply wframe_trans; [|exact P5];
         apply wframe_words; unfold sd; apply drop_listener_words).
    + destruct (getw mw s mod 2 =? 1) eqn:Od.
      * specialize (IH a1 s1). cbn [a_starved a_mutex set_lis a1] in IH.
        specialize (IH Hs Hm). rewrite G1 in IH. specialize (IH H2 Hb).
        destruct (starved_loop mw me fuel w a1 s1) as [a' s'|a' s'|a' s'|a' s']; fin.
      * set (s2 := notify me 1 false s1).
        assert (G2 : getw mw s2 = getw mw s) by (unfold s2; autorewrite with sw; exact G1).
        assert (F2 : wframe s s2).
        { eapply wframe_trans; [exact F1|]. apply wframe_words. unfold s2. auto with sw. }
        specialize (IH a1 s2). cbn [a_starved a_mutex set_lis a1] in IH.
        specialize (IH Hs Hm). rewrite G2 in IH. specialize (IH H2 Hb).
        destruct (starved_loop mw me fuel w a1 s2) as [a' s'|a' s'|a' s'|a' s']; fin.
Qed.

(* ---- AcquireSlow::poll_with_strategy ----
   [ticket a] is the part of the word that belongs to this future (2 once it is starved). *)
Lemma acq_poll_spec w a s :
  a_mutex a = true -> ticket a <= getw mw s -> getw mw s + 2 < USZ ->
  let '(a', s', r) := acq_poll mw me w a s in
  (if r then getw mw s mod 2 = 0 /\ getw mw s' + ticket a = getw mw s + 1 /\ a_mutex a' = false
   else getw mw s' + ticket a = getw mw s + ticket a' /\ a_mutex a' = true /\
        (a_starved a = true -> a_starved a' = true)) /\
  wframe s s'.
Proof.
  intros Hm Ht Hb. unfold acq_poll. rewrite Hm. cbn [negb].
  destruct (a_starved a) eqn:Hs.
  - (* already starved *)
    assert (T : ticket a = 2) by (unfold ticket; rewrite Hm, Hs; reflexivity).
    pose proof (starved_spec FUEL w a s Hs Hm) as S. rewrite T in Ht.
    specialize (S Ht). assert (Hb' : getw mw s < USZ) by lia. specialize (S Hb').
    destruct (starved_loop mw me FUEL w a s) as [a' s'|a' s'|a' s'|a' s']; try contradiction.
    + destruct S as (S1 & S2 & S3 & S4). rewrite T. repeat split; auto; try lia.
    + destruct S as (S1 & S2 & S3 & S4). split; [|exact S4].
      assert (T' : ticket a' = 2) by (unfold ticket; rewrite S2, S3; reflexivity).
      rewrite T, T'. repeat split; auto; try lia.
    + destruct S as (S1 & S2 & S3 & S4). split.
      * assert (T' : ticket a' = 2) by (unfold ticket; rewrite S2, S3; reflexivity).
        rewrite T, T'. autorewrite with sw. repeat split; auto; try lia.
      * intros w' N. autorewrite with sw. apply S4. exact N.
  - (* not starved yet *)
    assert (T : ticket a = 0) by (unfold ticket; rewrite Hs, Bool.andb_false_r; reflexivity).
    pose proof (unstarved_spec FUEL w a s Hs Hm) as U.
    assert (Hb' : getw mw s < USZ) by lia. specialize (U Hb').
    destruct (unstarved mw me FUEL w a s) as [a' s'|a' s'|a' s'|a' s'].
    + destruct U as (U1 & U2 & U3 & U4 & U5). rewrite T. split; [|exact U5].
      repeat split; auto; try lia; try (rewrite U1; reflexivity).
    + destruct U as (U1 & U2 & U3 & U4). split; [|exact U4].
      assert (T' : ticket a' = 0) by (unfold ticket; rewrite U3, Bool.andb_false_r; reflexivity).
      rewrite T, T'. repeat split; auto; try lia; try (intro; discriminate).
    + (* break: become starved, then the fair loop *)
      destruct U as (U1 & U2 & U3 & U4).
      dstep (fetch_add mw 2 s') s2 prev. rewrite fetch_add_snd, fetch_add_fst. rewrite U1.
      set (s2 := setw mw (wadd (getw mw s) 2) s').
      set (s3 := if usize_max / 2 <? getw mw s then set_err s2 else s2).
      assert (G3 : getw mw s3 = getw mw s + 2).
      { unfold s3. destruct (usize_max / 2 <? getw mw s); autorewrite with sw; unfold s2;
          rewrite getw_setw_same; apply wadd_small; lia. }
      assert (F3 : wframe s s3).
      { eapply wframe_trans; [exact U4|]. unfold s3.
        destruct (usize_max / 2 <? getw mw s).
        - intros w' N. autorewrite with sw. unfold s2. apply getw_setw_other. exact N.
        - unfold s2. apply wframe_setw. }
      assert (Hs' : a_starved (set_starved a') = true) by reflexivity.
      assert (Hm' : a_mutex (set_starved a') = true) by exact U2.
      pose proof (starved_spec FUEL w (set_starved a') s3 Hs' Hm') as S.
      rewrite G3 in S. assert (X1 : 2 <= getw mw s + 2) by lia. specialize (S X1 Hb).
      destruct (starved_loop mw me FUEL w (set_starved a') s3) as [a2 s4|a2 s4|a2 s4|a2 s4]; try contradiction.
      * destruct S as (S1 & S2 & S3 & S4). rewrite T. split; [|eapply wframe_trans; eassumption].
        replace (getw mw s + 2) with (getw mw s + 1 * 2) in S1 by lia.
        rewrite N.mod_add in S1 by lia.
        repeat split; auto; try lia.
      * destruct S as (S1 & S2 & S3 & S4). split; [|eapply wframe_trans; eassumption].
        assert (T' : ticket a2 = 2) by (unfold ticket; rewrite S2, S3; reflexivity).
        rewrite T, T'. repeat split; auto; try lia; try (intro; discriminate).
      * destruct S as (S1 & S2 & S3 & S4). split.
        -- assert (T' : ticket a2 = 2) by (unfold ticket; rewrite S2, S3; reflexivity).
           rewrite T, T'. autorewrite with sw. repeat split; auto; try lia; try (intro; discriminate).
        -- intros w' N. autorewrite with sw. rewrite S4, F3; auto.
    + destruct U as (U1 & U2 & U3 & U4). split.
      * assert (T' : ticket a' = 0) by (unfold ticket; rewrite U3, Bool.andb_false_r; reflexivity).
        rewrite T, T'. autorewrite with sw. repeat split; auto; try lia; try (intro; discriminate).
      * intros w' N. autorewrite with sw. apply U4. exact N.
Qed.

Lemma acq_drop_spec a s : ticket a <= getw mw s -> getw mw s < USZ ->
  getw mw (acq_drop mw me a s) = getw mw s - ticket a /\ wframe s (acq_drop mw me a s).
Proof.
  intros H1 H2. unfold acq_drop.
  pose proof (take_mutex_spec a s H1 H2) as TM.
  destruct (take_mutex mw a s) as [a' s']. destruct TM as (P1 & P2 & P3 & P4 & P5 & _).
  autorewrite with sw. split; [exact P1|].
  intros w' N. autorewrite with sw. apply P5. exact N.
Qed.

(* ---- LockInner / LockArcInnards ---- *)
Definition lticket (f : lockfut) : N := match f with Some a => ticket a | None => 0 end.
(* a lock future that has not completed still has its mutex reference *)
Definition lock_live (f : lockfut) : Prop := match f with Some a => a_mutex a = true | None => True end.

Lemma ticket_even_l (f : lockfut) : lticket f mod 2 = 0.
Proof. destruct f as [a|]; cbn [lticket]; [|reflexivity]. unfold ticket. destruct (a_mutex a && a_starved a); reflexivity. Qed.
Lemma ticket_le_l (f : lockfut) : lticket f <= 2.
Proof. destruct f as [a|]; cbn [lticket]; [|lia]. unfold ticket. destruct (a_mutex a && a_starved a); lia. Qed.

Lemma lock_poll_spec w f s :
  lock_live f -> lticket f <= getw mw s -> getw mw s + 2 < USZ ->
  let '(f', s', r) := lock_poll mw me w f s in
  (if r then getw mw s mod 2 = 0 /\ getw mw s' + lticket f = getw mw s + 1 /\ lticket f' = 0
   else getw mw s' + lticket f = getw mw s + lticket f' /\ lock_live f' /\ f' <> None) /\
  wframe s s'.
Proof.
  intros Hl Ht Hb. unfold lock_poll. destruct f as [a|].
  - cbn [lock_live lticket] in *.
    pose proof (acq_poll_spec w a s Hl Ht Hb) as P.
    destruct (acq_poll mw me w a s) as [[a' s'] r]. destruct P as (P & F). split; [|exact F].
    destruct r.
    + destruct P as (P1 & P2 & P3). repeat split; auto.
      cbn [lticket]. unfold ticket. rewrite P3. reflexivity.
    + destruct P as (P1 & P2 & P3). cbn [lticket lock_live]. repeat split; auto; try discriminate.
  - cbn [lticket] in *.
    pose proof (try_lock_spec s) as T. destruct (try_lock mw s) as [s1 ok].
    destruct T as (T1 & T2 & T3 & T4). destruct ok.
    + destruct (T1 eq_refl) as (Z & O). split; [|exact T3]. cbn [lticket].
      repeat split; try lia; try (rewrite Z; reflexivity).
    + destruct (T2 eq_refl) as (NZ & ->).
      assert (Hm : a_mutex acq_new = true) by reflexivity.
      assert (T0 : ticket acq_new = 0) by reflexivity.
      pose proof (acq_poll_spec w acq_new s Hm) as P. rewrite T0 in P.
      specialize (P Ht Hb).
      destruct (acq_poll mw me w acq_new s) as [[a' s'] r]. destruct P as (P & F). split; [|exact F].
      destruct r.
      * destruct P as (P1 & P2 & P3). repeat split; auto; try lia.
        cbn [lticket]. unfold ticket. rewrite P3. reflexivity.
      * destruct P as (P1 & P2 & P3). cbn [lticket lock_live]. repeat split; auto; try lia; try discriminate.
Qed.

Lemma lock_drop_spec f s : lticket f <= getw mw s -> getw mw s < USZ ->
  getw mw (lock_drop mw me f s) = getw mw s - lticket f /\ wframe s (lock_drop mw me f s).
Proof.
  intros H1 H2. destruct f as [a|]; cbn [lock_drop lticket] in *.
  - apply acq_drop_spec; auto.
  - split; [lia | apply wframe_refl].
Qed.
End MW.
