(* MutexSettle.v — C17 for the Mutex: re-polling woken lock futures settles after a bounded number of polls.
   Potential: Phi = (#pending flagged woken) + 2 * (#notified entries of lock_ops) + 3 * (#pending)
                    + (#pending lock operations that are not yet starved)
   (the last term pays for the forwarding of a notification by a waiter that finds somebody else starved:
   it becomes starved itself, once). *)
From AL Require Import Base Api Mutex MutexApi BaseFacts ApiFacts EventFacts MutexWord MutexInv MutexPaths LockLive MutexLive Settle LockSettle.
From Coq Require Import Lia.

Definition mh_wake (wk : list waker) (f : mfut) : mfut := mkMfut (mf_arc f) (mf_lock f) (mf_owns f) (meta_wake wk (mf_meta f)).
Lemma mh_wake_meta wk f : mf_meta (mh_wake wk f) = meta_wake wk (mf_meta f). Proof. reflexivity. Qed.

Definition unst (f : mfut) : N :=
  if pendb (mf_meta f) then match mf_lock f with Some a => ustar (a_starved a) | None => 0 end else 0.
Definition mW (x : mworld) : N := cW mfut mf_meta (m_futs x).
Definition mP (x : mworld) : N := cP mfut mf_meta (m_futs x).
Definition mU (x : mworld) : N := asum unst (m_futs x).
Definition mPhi (x : mworld) : N := mW x + 2 * cN (se0 (m_sh x)) + 3 * mP x + mU x.
Definition mWOK (x : mworld) : Prop := wakers_ok mfut mf_meta (m_futs x).

Lemma m_wake_all_eq wk x : m_futs (m_wake_all wk x) = wake_all mfut mh_wake wk (m_futs x).
Proof. reflexivity. Qed.

Lemma unst_wake wk f : unst (mh_wake wk f) = unst f.
Proof.
  unfold unst, pendb. cbn [mf_meta mf_lock mh_wake]. unfold meta_wake. destruct (fm_st (mf_meta f)) eqn:S; try (rewrite S; reflexivity).
  destruct (fm_w (mf_meta f)) as [w|]; [|rewrite S; reflexivity]. destruct (mem_nat w wk); [reflexivity | rewrite S; reflexivity].
Qed.
Lemma mU_wake wk l : asum unst (wake_all mfut mh_wake wk l) = asum unst l.
Proof. unfold wake_all. induction l as [|[k f] l IH]; cbn [map asum fst snd]; [reflexivity|]. rewrite unst_wake, IH. reflexivity. Qed.

Lemma mWOK_step x o : mWOK x -> mWOK (fst (mstep x o)).
Proof.
  intro WO. unfold mstep. set (x0 := m_set_sh (set_wk [] (m_sh x)) x).
  assert (W0' : mWOK x0) by exact WO.
  assert (CORE : mWOK (fst (mstep_core x0 o))).
  { revert W0'. generalize x0. clear. intros x WO. unfold mstep_core. destruct o; cbv beta iota zeta.
    - destruct (Nat.eqb (m_handles x) 0); [exact WO|].
      assert (G : wakers_ok mfut mf_meta (m_futs x ++ [(m_nf x, mkMfut arc lock_new arc meta0)])) by (apply wakers_ok_app; [exact WO | reflexivity]).
      destruct arc; exact G.
    - destruct (alookup f (m_futs x)) as [fu|] eqn:L; [|exact WO].
      destruct (fstatus_eqb (fm_st (mf_meta fu)) FDone || Nat.leb 4 k) eqn:V; [exact WO|].
      apply Bool.orb_false_iff in V. destruct V as (_ & V2). apply Nat.leb_gt in V2.
      destruct (lock_poll W0 E0 (wtag f k) (mf_lock fu) (m_sh x)) as [[l s'] r].
      assert (G : forall own st, wakers_ok mfut mf_meta (aupdate f (mkMfut (mf_arc fu) l own (mkMeta st (Some (wtag f k)) false)) (m_futs x))).
      { intros own st. apply wakers_ok_aupdate; [exact WO|]. intros w Hw. cbn in Hw. inversion Hw. exists k. split; [exact V2 | reflexivity]. }
      destruct r; apply G.
    - destruct (alookup f (m_futs x)) as [fu|] eqn:L; [|exact WO].
      assert (G : wakers_ok mfut mf_meta (aremove f (m_futs x))) by (apply wakers_ok_aremove; exact WO).
      destruct (mf_owns fu); exact G.
    - destruct (Nat.eqb (m_handles x) 0); [exact WO|]. destruct (try_lock W0 (m_sh x)) as [s' ok]. destruct ok; [destruct arc|]; exact WO.
    - destruct (alookup g (m_guards x)) as [arc|]; [|exact WO]. destruct arc; exact WO.
    - exact WO.
    - destruct (Nat.eqb (m_handles x) 0); exact WO.
    - destruct (Nat.eqb (m_handles x) 0); [exact WO|]. destruct (Nat.eqb (m_handles x) 1 && borrowed_alive x); exact WO. }
  destruct (mstep_core x0 o) as [x1 r]. cbn [fst] in *. unfold mWOK. rewrite m_wake_all_eq. apply wakers_ok_wake; [apply mh_wake_meta | exact CORE].
Qed.

Lemma mutex_settle_step x fid k f : MLive x -> WInv x -> small2 x -> mWOK x ->
  alookup fid (m_futs x) = Some f -> fm_st (mf_meta f) = FPending -> fm_woken (mf_meta f) = true -> (k < 4)%nat ->
  mPhi (fst (mstep x (MPoll fid k))) + 1 <= mPhi x.
Proof.
  intros HL HW SM WO L P Wk K4. pose proof HL as (I & Sh & Av & Er & K1 & K2).
  assert (WF : wW mfut mf_meta f = 1) by (unfold wW, pendb; rewrite P, Wk; reflexivity).
  assert (PF : wP mfut mf_meta f = 1) by (unfold wP, pendb; rewrite P; reflexivity).
  pose proof (Sh fid f L) as SP. rewrite P in SP. destruct SP as (id & st & LK).
  assert (UF : unst f = ustar st) by (unfold unst, pendb; rewrite P, LK; reflexivity).
  assert (Ls : mlis f = Some id) by (unfold mlis; rewrite LK; reflexivity).
  pose proof (ib_listed _ _ _ _ _ _ _ I fid f id L Ls) as Hin.
  assert (Bd : sw0 (m_sh x) + 2 < USZ).
  { destruct HW as (E & G & _). pose proof (tickets_le (m_futs x)) as TL. unfold small2 in SM. rewrite USZ_val. change (usize_max / 2) with 9223372036854775807 in SM. rewrite E. lia. }
  unfold mstep. set (x0 := m_set_sh (set_wk [] (m_sh x)) x).
  unfold mstep_core. cbv zeta. change (m_futs x0) with (m_futs x). rewrite L.
  assert (V : fstatus_eqb (fm_st (mf_meta f)) FDone || Nat.leb 4 k = false).
  { apply Bool.orb_false_iff. split; [rewrite P; reflexivity | apply Nat.leb_gt; exact K4]. }
  rewrite V. change (m_sh x0) with (set_wk [] (m_sh x)). rewrite LK. unfold lock_poll.
  rewrite (later_paths (wtag fid k) st id (set_wk [] (m_sh x))); [|exact (ib_fresh _ _ _ _ _ _ _ I) | exact Hin | exact Bd].
  pose proof (lock_later_counts (wtag fid k) st id (set_wk [] (m_sh x)) (ib_fresh _ _ _ _ _ _ _ I) (ib_nodup _ _ _ _ _ _ _ I) Hin eq_refl) as LC.
  change (se0 (set_wk [] (m_sh x))) with (se0 (m_sh x)) in LC.
  destruct (later_spec (wtag fid k) (mkAcq true (Some id) st) id (set_wk [] (m_sh x))) as [[a' s'] r].
  assert (FIN : forall f' x1, fm_w (mf_meta f') = Some (wtag fid k) -> wW mfut mf_meta f' = 0 ->
            m_futs x1 = aupdate fid f' (m_futs x) -> m_sh x1 = s' ->
            N.of_nat (length (swk s')) + 2 * cN (se0 s') + 3 * wP mfut mf_meta f' + unst f' <= 2 * cN (se0 (m_sh x)) + ustar st + 3 ->
            mPhi (m_wake_all (swk (m_sh x1)) x1) + 1 <= mPhi x).
  { intros f' x1 Hw WF' EF ES NUM. unfold mPhi, mW, mP, mU. rewrite m_wake_all_eq. change (m_sh (m_wake_all (swk (m_sh x1)) x1)) with (m_sh x1).
    rewrite mU_wake, EF, ES.
    destruct (upd_wake_counts mfut mf_meta mh_wake mh_wake_meta (m_futs x) fid k f f' (swk s') K1 WO K4 L Hw) as (UW & UP).
    pose proof (asum_aupdate unst fid f f' (m_futs x) L) as UU. rewrite WF, WF' in UW. rewrite PF in UP. rewrite UF in UU. unfold cW, cP in *. lia. }
  destruct r.
  - set (f' := mkMfut (mf_arc f) (Some a') false (mkMeta FDone (Some (wtag fid k)) false)).
    cbn [fst]. apply (FIN f'); try reflexivity. change (wP mfut mf_meta f') with 0. change (unst f') with 0. lia.
  - set (f' := mkMfut (mf_arc f) (Some a') (mf_owns f) (mkMeta FPending (Some (wtag fid k)) false)).
    cbn [fst]. apply (FIN f'); try reflexivity. change (wP mfut mf_meta f') with 1. change (unst f') with (ustar (a_starved a')). lia.
Qed.

Fixpoint msettle_run (x : mworld) (ops : list mop) : Prop :=
  match ops with
  | [] => True
  | o :: r => (exists fid k f, o = MPoll fid k /\ (k < 4)%nat /\ alookup fid (m_futs x) = Some f /\
                               fm_st (mf_meta f) = FPending /\ fm_woken (mf_meta f) = true) /\ msettle_run (fst (mstep x o)) r
  end.

Lemma mutex_settle_gen ops : forall x, MLive x -> WInv x -> mWOK x ->
  2 * N.of_nat (length ops + length (m_futs x)) + 4 <= usize_max / 2 ->
  msettle_run x ops -> N.of_nat (length ops) <= mPhi x.
Proof.
  induction ops as [|o r IH]; intros x HL HW WO B SR; [cbn; lia|]. destruct SR as ((fid & k & f & -> & K4 & L & P & Wk) & SR).
  assert (B2 : small2 x) by (unfold small2; cbn [length] in B; clear - B; lia).
  pose proof (mutex_settle_step x fid k f HL HW B2 WO L P Wk K4) as ST. cbn [length] in *.
  assert (N.of_nat (length r) <= mPhi (fst (mstep x (MPoll fid k)))).
  { apply IH; [apply step_MLive; assumption | apply step_WInv; [exact HW | apply small2_small; exact B2] | apply mWOK_step; exact WO | | exact SR].
    pose proof (futs_grow x (MPoll fid k)) as G. clear - B G. lia. }
  lia.
Qed.

Lemma run_mWOK ops : mWOK (mrun ops).
Proof.
  unfold mrun. assert (H : mWOK mw0) by (intros k f w []). revert H. generalize mw0.
  induction ops as [|o l IH]; intros x H; cbn [fold_left]; [exact H|]. apply IH. apply mWOK_step. exact H.
Qed.

Lemma mW_le_mP x : mW x <= mP x.
Proof. unfold mW, mP, cW, cP. induction (m_futs x) as [|[k f] l IH]; cbn [asum]; [lia|]. unfold wW, wP in *. destruct (pendb (mf_meta f)); destruct (fm_woken (mf_meta f)); cbn; lia. Qed.
Lemma mU_le_mP x : mU x <= mP x.
Proof.
  unfold mU, mP, cP. induction (m_futs x) as [|[k f] l IH]; cbn [asum]; [lia|]. unfold unst, wP in *.
  destruct (pendb (mf_meta f)); [|lia]. destruct (mf_lock f) as [a|]; [destruct (a_starved a); cbn; lia | lia].
Qed.

(* C17 for the Mutex: from any reachable state, however the woken lock futures are re-polled, at most
   5 * pending + 2 * listeners polls happen before no pending future is flagged woken *)
Theorem mutex_settle_bound ops0 ops : N.of_nat (length ops0) + N.of_nat (length ops) < LIVE_BOUND ->
  msettle_run (mrun ops0) ops ->
  N.of_nat (length ops) <= 5 * mP (mrun ops0) + 2 * N.of_nat (length (se0 (m_sh (mrun ops0)))).
Proof.
  intros B SR. assert (B0 : N.of_nat (length ops0) < LIVE_BOUND) by (clear - B; lia).
  destruct (run_MLive ops0 B0) as (HL & HW).
  assert (N.of_nat (length ops) <= mPhi (mrun ops0)).
  { apply (mutex_settle_gen ops _ HL HW (run_mWOK ops0)); [|exact SR].
    pose proof (run_futs ops0 mw0) as RF. cbn [mw0 m_futs length] in RF. unfold LIVE_BOUND in B. change (usize_max / 2) with 9223372036854775807.
    unfold mrun. clear - B RF. lia. }
  unfold mPhi in H. pose proof (mW_le_mP (mrun ops0)). pose proof (mU_le_mP (mrun ops0)). unfold cN in H. pose proof (count_le_len (se0 (m_sh (mrun ops0)))). lia.
Qed.
