(* RwDrop.v — C15 for the RwLock machine: the lock (and its value) is dropped exactly when the Arc's strong
   count reaches 0, at most once. Needs, besides the count invariant RArc, that whatever borrows the lock or
   a user's handle (every future except an UpgradeArc, every borrowed guard) keeps a user handle alive — the
   borrow checker's contribution, which the machine enforces on RDropArc. *)
From AL Require Import Base Api Mutex RwLock RwApi BaseFacts ApiFacts ArcCount.
From Coq Require Import Lia.

Arguments rfut_poll : simpl never.
Arguments rfut_drop : simpl never.

Definition dropped_ok (x : rworld) : Prop := r_dropped x = (if Nat.eqb (r_strong x) 0 then 1 else 0)%nat.
Definition borrow_ok (x : rworld) : Prop := r_borrowed_alive x = true -> r_handles x <> 0%nat.
Definition upg_owns1 (f : rfut) : Prop :=
  match rf_st f with FUpgrade _ _ => fm_st (rf_meta f) <> FDone -> rf_owns f = rf_arc f | _ => True end.
Definition upg_owns (x : rworld) : Prop := Forall (fun p => upg_owns1 (snd p)) (r_futs x).
Definition RDrop (x : rworld) : Prop := dropped_ok x /\ borrow_ok x /\ upg_owns x.

Lemma drop_inc x : (1 <= r_strong x)%nat -> dropped_ok x -> dropped_ok (r_inc x).
Proof. unfold dropped_ok, r_inc. cbn [r_dropped r_strong]. intros G D. rewrite D. destruct (r_strong x); [lia | reflexivity]. Qed.
Lemma drop_dec x : (1 <= r_strong x)%nat -> dropped_ok x -> dropped_ok (r_dec x).
Proof.
  unfold dropped_ok, r_dec. cbn [r_dropped r_strong]. intros G D. rewrite D. destruct (r_strong x) as [|n]; [lia|]. cbn [pred Nat.eqb].
  destruct (Nat.eqb n 0); reflexivity.
Qed.

Definition fborrow (p : nat * rfut) : bool := negb (rf_arc (snd p) && match rf_st (snd p) with FUpgrade _ _ => true | _ => false end).
Definition gborrow (p : nat * (gkind * bool)) : bool := negb (snd (snd p)).
Lemma borrowed_eq x : r_borrowed_alive x = existsb fborrow (r_futs x) || existsb gborrow (r_guards x).
Proof. reflexivity. Qed.

Lemma existsb_aremove {A} (P : nat * A -> bool) k l : existsb P (aremove k l) = true -> existsb P l = true.
Proof.
  induction l as [|[k' v] l IH]; cbn; [auto|]. destruct (Nat.eqb k k'); cbn.
  - intro H. rewrite H. apply orb_true_r.
  - intro H. apply orb_true_iff in H. destruct H as [H|H]; [rewrite H; reflexivity | rewrite (IH H); apply orb_true_r].
Qed.
Lemma existsb_aupdate {A} (P : nat * A -> bool) k v l : existsb P (aupdate k v l) = true -> P (k, v) = true \/ existsb P l = true.
Proof.
  induction l as [|[k' v'] l IH]; cbn; [intro H; discriminate H|]. destruct (Nat.eqb k k') eqn:Q; cbn.
  - intro H. apply orb_true_iff in H. destruct H as [H|H]; [left; exact H | right; rewrite H; apply orb_true_r].
  - intro H. apply orb_true_iff in H. destruct H as [H|H]; [right; rewrite H; reflexivity|].
    destruct (IH H) as [H1|H1]; [left; exact H1 | right; rewrite H1; apply orb_true_r].
Qed.
Lemma existsb_lookup {A} (P : nat * A -> bool) k v l : alookup k l = Some v -> P (k, v) = true -> existsb P l = true.
Proof. intros L H. apply existsb_exists. exists (k, v). split; [apply alookup_In; exact L | exact H]. Qed.

(* polling keeps the kind of a future *)
Lemma poll_keeps_upgrade w st s : match st with FUpgrade _ _ => match fst (fst (rfut_poll w st s)) with FUpgrade _ _ => True | _ => False end | _ => True end.
Proof.
  destruct st as [c l|l|nr ws|hl l]; try exact I. unfold rfut_poll. destruct (negb hl); [exact I|].
  destruct (upgrade_loop RWFUEL w l s); exact I.
Qed.
Lemma poll_keeps_other w st s : match st with FUpgrade _ _ => True | _ => match fst (fst (rfut_poll w st s)) with FUpgrade _ _ => False | _ => True end end.
Proof.
  destruct st as [c l|l|nr ws|hl l]; try exact I; unfold rfut_poll.
  - destruct (read_loop RWFUEL w c l s) as [[c' l'] s'|[c' l'] s'|[c' l'] s']; exact I.
  - destruct (upread_poll w l s) as [[l' s'] r]. exact I.
  - destruct (write_loop RWFUEL w nr ws s) as [[a b] s'|[a b] s'|[a b] s']; exact I.
Qed.

Lemma no_borrow_of x : borrow_ok x -> r_handles x = 0%nat -> existsb fborrow (r_futs x) = false /\ existsb gborrow (r_guards x) = false.
Proof.
  intros B H0. unfold borrow_ok in B. rewrite borrowed_eq in B.
  destruct (existsb fborrow (r_futs x)); [exfalso; apply B; [reflexivity | exact H0]|].
  destruct (existsb gborrow (r_guards x)); [exfalso; apply B; [reflexivity | exact H0]|]. split; reflexivity.
Qed.

Lemma strong_pos_handles x : RArc x -> r_handles x <> 0%nat -> (1 <= r_strong x)%nat.
Proof. intros (E & _) H. lia. Qed.

(* with no user handle left, every live future is an UpgradeArc and every guard is Arc-owned *)
Lemma only_upgrade_arc x f fu : borrow_ok x -> r_handles x = 0%nat -> alookup f (r_futs x) = Some fu ->
  rf_arc fu = true /\ exists hl l, rf_st fu = FUpgrade hl l.
Proof.
  intros B H0 L. destruct (no_borrow_of x B H0) as (NF & _).
  assert (FB : fborrow (f, fu) = false) by (destruct (fborrow (f, fu)) eqn:Q; [rewrite (existsb_lookup fborrow f fu _ L Q) in NF; discriminate NF | reflexivity]).
  unfold fborrow in FB. cbn [snd] in FB. apply negb_false_iff in FB. apply andb_true_iff in FB. destruct FB as (AT & UP).
  split; [exact AT|]. destruct (rf_st fu) as [c l|l|nr ws|hl l]; try discriminate UP. exists hl, l. reflexivity.
Qed.
Lemma only_arc_guard x g gk arc : borrow_ok x -> r_handles x = 0%nat -> alookup g (r_guards x) = Some (gk, arc) -> arc = true.
Proof.
  intros B H0 L. destruct (no_borrow_of x B H0) as (_ & NG). destruct arc; [reflexivity|]. exfalso.
  pose proof (existsb_lookup gborrow g (gk, false) _ L eq_refl) as Q. rewrite NG in Q. discriminate Q.
Qed.
Lemma no_borrow_intro x' : (r_handles x' = 0%nat -> existsb fborrow (r_futs x') = false /\ existsb gborrow (r_guards x') = false) -> borrow_ok x'.
Proof. intros H. unfold borrow_ok. rewrite borrowed_eq. intros Q H0. destruct (H H0) as (A & B). rewrite A, B in Q. discriminate Q. Qed.

Lemma existsb_false_aremove {A} (P : nat * A -> bool) k l : existsb P l = false -> existsb P (aremove k l) = false.
Proof. intro H. destruct (existsb P (aremove k l)) eqn:Q; [apply existsb_aremove in Q; rewrite H in Q; discriminate Q | reflexivity]. Qed.
Lemma existsb_false_aupdate {A} (P : nat * A -> bool) k v l : existsb P l = false -> P (k, v) = false -> existsb P (aupdate k v l) = false.
Proof. intros H Hv. destruct (existsb P (aupdate k v l)) eqn:Q; [apply existsb_aupdate in Q; destruct Q as [Q|Q]; congruence | reflexivity]. Qed.

Lemma upg_owns_wake wk x : upg_owns x -> upg_owns (r_wake_all wk x).
Proof.
  unfold upg_owns, r_wake_all, r_upd. cbn [r_futs]. intro F. rewrite Forall_forall in *. intros p Hp. apply in_map_iff in Hp. destruct Hp as ([k f] & <- & Hin).
  specialize (F (k, f) Hin). cbn [snd fst] in *. unfold upg_owns1 in *. cbn [rf_st rf_meta rf_owns rf_arc]. destruct (rf_st f); auto.
  intro ND. apply F. intro Q. apply ND. unfold meta_wake. rewrite Q. exact Q.
Qed.

Lemma step_core_RDrop x o : RArc x -> RDrop x -> RDrop (fst (rstep_core x o)).
Proof.
  intros HA (D & B & U). pose proof HA as (E & F). unfold rstep_core. destruct o; cbv beta iota zeta.
  - (* RStart *)
    destruct (Nat.eqb (r_handles x) 0) eqn:H0; [repeat split; assumption|]. apply Nat.eqb_neq in H0. cbn [fst]. split; [exact D|]. split.
    + intros _. exact H0.
    + unfold upg_owns. cbn [r_futs r_bump_f r_upd]. apply Forall_app. split; [exact U|]. constructor; [|constructor]. unfold upg_owns1. cbn. destruct k; exact I.
  - (* RUpgrade: the upgradable guard becomes an upgrade future of the same flavour, owning what the guard owned *)
    destruct (alookup g (r_guards x)) as [[[| |] arc]|] eqn:L; try (repeat split; assumption). cbn [fst]. split; [exact D|]. split.
    + apply no_borrow_intro. cbn [r_futs r_guards r_handles r_bump_f r_upd]. intro H0. destruct (no_borrow_of x B H0) as (NF & NG).
      rewrite (only_arc_guard x g GU arc B H0 L). split; [rewrite existsb_app, NF; reflexivity | apply existsb_false_aremove; exact NG].
    + unfold upg_owns. cbn [r_futs r_bump_f r_upd]. apply Forall_app. split; [exact U|]. constructor; [|constructor]. unfold upg_owns1. cbn. intros _. reflexivity.
  - (* RPoll *)
    destruct (alookup f (r_futs x)) as [fu|] eqn:L; [|repeat split; assumption].
    destruct (fstatus_eqb (fm_st (rf_meta fu)) FDone || Nat.leb 4 k) eqn:V; [repeat split; assumption|].
    apply orb_false_iff in V. destruct V as (V1 & _).
    assert (ND : fm_st (rf_meta fu) <> FDone) by (intro Q; rewrite Q in V1; discriminate V1).
    pose proof (poll_keeps_upgrade (wtag f k) (rf_st fu) (r_sh x)) as KU. pose proof (poll_keeps_other (wtag f k) (rf_st fu) (r_sh x)) as KO.
    pose proof (Forall_lookup _ _ _ _ U L) as UO. cbn [snd] in UO. unfold upg_owns1 in UO.
    destruct (rfut_poll (wtag f k) (rf_st fu) (r_sh x)) as [[st s'] r]. cbn [fst] in KU, KO.
    assert (FB' : forall owns' meta', r_handles x = 0%nat -> fborrow (f, mkRfut (rf_arc fu) st owns' meta') = false).
    { intros owns' meta' H0. destruct (only_upgrade_arc x f fu B H0 L) as (AT & hl & l & St). rewrite St in KU.
      unfold fborrow. cbn [snd rf_arc rf_st]. rewrite AT. destruct st; try contradiction. reflexivity. }
    assert (UO' : forall owns' meta', (fm_st meta' <> FDone -> owns' = rf_owns fu) ->
               Forall (fun p => upg_owns1 (snd p)) (aupdate f (mkRfut (rf_arc fu) st owns' meta') (r_futs x))).
    { intros owns' meta' HO. apply Forall_aupdate; [exact U|]. cbn [snd]. unfold upg_owns1. cbn [rf_st rf_meta rf_owns rf_arc].
      destruct st as [c' l'|l'|nr' ws'|hl' l']; try exact I. intro ND'. rewrite (HO ND').
      destruct (rf_st fu) as [c l|l|nr ws|hl l]; try contradiction. apply UO. exact ND. }
    destruct r as [gk|]; cbn [fst].
    + set (x' := r_bump_g (r_upd x s' (aupdate f (mkRfut (rf_arc fu) st false (mkMeta FDone (Some (wtag f k)) false)) (r_futs x))
                          (r_guards x ++ [(r_ng x, (gk, rf_arc fu))]))).
      assert (BX : borrow_ok x').
      { apply no_borrow_intro. unfold x'. cbn [r_futs r_guards r_handles r_bump_g r_upd]. intro H0. destruct (no_borrow_of x B H0) as (NF & NG).
        split; [apply existsb_false_aupdate; [exact NF | apply FB'; exact H0]|].
        rewrite existsb_app, NG. cbn. destruct (only_upgrade_arc x f fu B H0 L) as (AT & _). unfold gborrow. cbn. rewrite AT. reflexivity. }
      assert (UX : upg_owns x') by (unfold upg_owns, x'; cbn [r_futs r_bump_g r_upd]; apply UO'; cbn; intro Q; exfalso; apply Q; reflexivity).
      destruct (rf_arc fu && negb (rf_owns fu)) eqn:Q.
      * split; [|split; [exact BX | exact UX]]. apply drop_inc; [|exact D].
        apply andb_true_iff in Q. destruct Q as (AT & NO). apply negb_true_iff in NO.
        destruct (Nat.eq_dec (r_handles x) 0) as [H0|H0]; [|apply (strong_pos_handles x HA H0)]. exfalso.
        destruct (only_upgrade_arc x f fu B H0 L) as (_ & hl & l & St). rewrite St in UO. specialize (UO ND). congruence.
      * split; [exact D | split; [exact BX | exact UX]].
    + split; [exact D|]. split.
      * apply no_borrow_intro. cbn [r_futs r_guards r_handles r_upd]. intro H0. destruct (no_borrow_of x B H0) as (NF & NG).
        split; [apply existsb_false_aupdate; [exact NF | apply FB'; exact H0] | exact NG].
      * unfold upg_owns. cbn [r_futs r_upd]. apply UO'. intros _. reflexivity.
  - (* RDropFut *)
    destruct (alookup f (r_futs x)) as [fu|] eqn:L; [|repeat split; assumption].
    set (x1 := r_upd x (rfut_drop (rf_st fu) (r_sh x)) (aremove f (r_futs x)) (r_guards x)).
    assert (B1 : borrow_ok x1).
    { apply no_borrow_intro. unfold x1. cbn [r_futs r_guards r_handles r_upd]. intro H0. destruct (no_borrow_of x B H0) as (NF & NG).
      split; [apply existsb_false_aremove; exact NF | exact NG]. }
    assert (U1 : upg_owns x1) by (unfold upg_owns, x1; cbn [r_futs r_upd]; apply Forall_aremove; exact U).
    destruct (rf_owns fu) eqn:Ow; cbn [fst].
    + split; [|split; [exact B1 | exact U1]]. apply drop_dec; [|exact D].
      pose proof (asum_In (fun f0 => b2n (rf_owns f0)) f fu _ (alookup_In _ _ _ L)) as OI. cbv beta in OI. rewrite Ow in OI. cbn [b2n] in OI.
      unfold x1. cbn [r_strong r_upd]. unfold r_of in E. lia.
    + split; [exact D | split; [exact B1 | exact U1]].
  - (* RTry *)
    destruct (Nat.eqb (r_handles x) 0) eqn:H0; [repeat split; assumption|]. apply Nat.eqb_neq in H0.
    destruct (match k with KRead => rw_try_read (r_sh x) | KUpRead => rw_try_upgradable_read (r_sh x) | KWrite => rw_try_write (r_sh x) end) as [s' ok].
    destruct ok; [|cbn [fst]; split; [exact D | split; [intros _; exact H0 | exact U]]].
    destruct arc; cbn [fst].
    + split; [apply drop_inc; [apply (strong_pos_handles x HA H0) | exact D] | split; [intros _; exact H0 | exact U]].
    + split; [exact D | split; [intros _; exact H0 | exact U]].
  - (* RTryUpgrade *)
    destruct (alookup g (r_guards x)) as [[[| |] arc]|] eqn:L; try (repeat split; assumption).
    destruct (rw_try_upgrade (r_sh x)) as [s' ok]. destruct ok; cbn [fst]; [|repeat split; assumption].
    split; [exact D|]. split; [|exact U].
    apply no_borrow_intro. cbn [r_futs r_guards r_handles r_upd]. intro H0. destruct (no_borrow_of x B H0) as (NF & NG).
    split; [exact NF|]. apply existsb_false_aupdate; [exact NG|]. unfold gborrow. cbn. rewrite (only_arc_guard x g GU arc B H0 L). reflexivity.
  - (* RDowngrade *)
    destruct (alookup g (r_guards x)) as [[[| |] arc]|] eqn:L; try (repeat split; assumption); cbn [fst]; (split; [exact D|]; split; [|exact U]);
      apply no_borrow_intro; cbn [r_futs r_guards r_handles r_upd]; intro H0; destruct (no_borrow_of x B H0) as (NF & NG);
      (split; [exact NF|]); apply existsb_false_aupdate; [exact NG | unfold gborrow; cbn; erewrite (only_arc_guard x g _ arc B H0 L); reflexivity | exact NG | unfold gborrow; cbn; erewrite (only_arc_guard x g _ arc B H0 L); reflexivity].
  - (* RDowngradeUp *)
    destruct (alookup g (r_guards x)) as [[[| |] arc]|] eqn:L; try (repeat split; assumption); cbn [fst]. split; [exact D|]. split; [|exact U].
    apply no_borrow_intro. cbn [r_futs r_guards r_handles r_upd]. intro H0. destruct (no_borrow_of x B H0) as (NF & NG).
    split; [exact NF|]. apply existsb_false_aupdate; [exact NG|]. unfold gborrow. cbn. rewrite (only_arc_guard x g GW arc B H0 L). reflexivity.
  - (* RDropGuard *)
    destruct (alookup g (r_guards x)) as [[gk arc]|] eqn:L; [|repeat split; assumption].
    set (x1 := r_upd x match gk with GR => rw_read_unlock (r_sh x) | GU => rw_upgradable_read_unlock (r_sh x) | GW => rw_write_unlock (r_sh x) end
                     (r_futs x) (aremove g (r_guards x))).
    assert (B1 : borrow_ok x1).
    { apply no_borrow_intro. unfold x1. cbn [r_futs r_guards r_handles r_upd]. intro H0. destruct (no_borrow_of x B H0) as (NF & NG).
      split; [exact NF | apply existsb_false_aremove; exact NG]. }
    destruct arc; cbn [fst].
    + split; [|split; [exact B1 | exact U]]. apply drop_dec; [|exact D].
      pose proof (asum_In (fun v : gkind * bool => b2n (snd v)) g (gk, true) _ (alookup_In _ _ _ L)) as GI. cbv beta in GI. cbn [snd b2n] in GI.
      unfold x1. cbn [r_strong r_upd]. unfold r_ag in E. lia.
    + split; [exact D | split; [exact B1 | exact U]].
  - destruct (alookup g (r_guards x)); repeat split; assumption.
  - destruct (alookup g (r_guards x)) as [[[| |] a]|]; cbn [fst]; repeat split; assumption.
  - (* RCloneArc *)
    destruct (Nat.eqb (r_handles x) 0) eqn:H0; [repeat split; assumption|]. apply Nat.eqb_neq in H0. cbn [fst].
    split; [apply drop_inc; [apply (strong_pos_handles x HA H0) | exact D] | split; [intros _; cbn; discriminate | exact U]].
  - (* RDropArc: refused while the last handle is still borrowed *)
    destruct (Nat.eqb (r_handles x) 0) eqn:H0; [repeat split; assumption|]. apply Nat.eqb_neq in H0.
    destruct (Nat.eqb (r_handles x) 1 && r_borrowed_alive x) eqn:Q; [repeat split; assumption|]. cbn [fst].
    split; [apply drop_dec; [apply (strong_pos_handles x HA H0) | exact D]|]. split; [|exact U].
    unfold borrow_ok. cbn [r_handles r_dec r_set_handles]. change (r_borrowed_alive (r_dec (r_set_handles (Init.Nat.pred (r_handles x)) x))) with (r_borrowed_alive x).
    intros BA HP. rewrite BA in Q. rewrite andb_true_r in Q. apply Nat.eqb_neq in Q. lia.
Qed.

Lemma step_RDrop x o : RArc x -> RDrop x -> RDrop (fst (rstep x o)).
Proof.
  intros HA (D & B & U). unfold rstep.
  set (x0 := r_upd x (set_wk [] (r_sh x)) (r_futs x) (r_guards x)).
  assert (A0 : RArc x0) by exact HA. assert (D0 : RDrop x0) by (split; [exact D | split; [exact B | exact U]]).
  pose proof (step_core_RDrop x0 o A0 D0) as (D1 & B1 & U1). destruct (rstep_core x0 o) as [x1 r]. cbn [fst] in *.
  split; [exact D1|]. split; [|apply upg_owns_wake; exact U1].
  unfold borrow_ok in *. intros H. apply B1.
  rewrite borrowed_eq in *. unfold r_wake_all in H. cbn [r_futs r_guards r_upd] in H.
  destruct (existsb gborrow (r_guards x1)); [apply orb_true_r|]. rewrite orb_false_r in *.
  apply existsb_exists in H. destruct H as (p & Hp & Gp). apply in_map_iff in Hp. destruct Hp as ([k f] & <- & Hin).
  apply existsb_exists. exists (k, f). split; [exact Hin | exact Gp].
Qed.

Theorem run_RDrop ops : RDrop (rrun ops).
Proof.
  unfold rrun. assert (A : RArc rw0) by (unfold RArc, r_ag, r_of; cbn; repeat split; auto).
  assert (I : RDrop rw0) by (split; [reflexivity | split; [intro H; discriminate H | constructor]]).
  revert A I. generalize rw0. induction ops as [|o l IH]; intros x A I; cbn [fold_left]; [exact I|].
  apply IH; [apply step_RArc; exact A | apply step_RDrop; assumption].
Qed.
