(* RwPaths.v — src/rwlock/raw.rs: what one poll of RawRead / RawWrite / RawUpgrade does to the
   events (path by path), given the shapes the futures have at rest. *)
From AL Require Import Base Api Mutex RwLock BaseFacts ApiFacts EventFacts MutexWord RwWord BarrierInv.
From Coq Require Import Lia.

Arguments read_loop : simpl never.
Arguments write_loop : simpl never.
Arguments upgrade_loop : simpl never.
Arguments listen : simpl never.
Arguments poll_listener : simpl never.
Arguments has_writer : simpl never.

Definition fresh_e (e : evid) (s : sh) : Prop := forall id, In id (map eid (gete e s)) -> (id < snid s)%nat.

(* listen on [e], then the first poll of the fresh listener *)
Definition reg (e : evid) (w : waker) (s : sh) : sh :=
  set_nid (S (snid s)) (sete e (gete e s ++ [mkEntry (snid s) (Task w)]) s).

Lemma reg_path e w s : fresh_e e s ->
  (let '(s1, id) := listen e s in poll_listener e id w s1) = (reg e w s, false) /\ snd (listen e s) = snid s.
Proof.
  intro F. unfold listen, poll_listener, ev_poll, ev_listen, reg. cbn [fst snd].
  assert (NF : ~ In (snid s) (map eid (gete e s))) by (intro H; apply F in H; lia).
  assert (G : gete e (set_nid (S (snid s)) (sete e (gete e s ++ [mkEntry (snid s) Created]) s)) = gete e s ++ [mkEntry (snid s) Created])
    by (destruct e; reflexivity).
  rewrite G. rewrite (find_app_fresh _ _ _ NF), (set_app_fresh _ _ _ _ NF). split; [|reflexivity].
  destruct e; destruct s; reflexivity.
Qed.

(* a fresh listener that is dropped before it was ever polled: the event is as before *)
Lemma remove_app_fresh id st l : ~ In id (map eid l) -> ev_remove id (l ++ [mkEntry id st]) = l.
Proof.
  induction l as [|e r IH]; cbn; intro N.
  - rewrite Nat.eqb_refl. reflexivity.
  - destruct (Nat.eqb (eid e) id) eqn:E; [apply Nat.eqb_eq in E; exfalso; apply N; left; exact E|].
    f_equal. apply IH. intro H. apply N. right. exact H.
Qed.
Lemma listen_drop e s : fresh_e e s ->
  (let '(s1, id) := listen e s in drop_listener_opt e (Some id) s1) = set_nid (S (snid s)) s.
Proof.
  intro F. unfold listen, drop_listener_opt, drop_listener, ev_drop, ev_listen.
  assert (NF : ~ In (snid s) (map eid (gete e s))) by (intro H; apply F in H; lia).
  assert (G : gete e (set_nid (S (snid s)) (sete e (gete e s ++ [mkEntry (snid s) Created]) s)) = gete e s ++ [mkEntry (snid s) Created])
    by (destruct e; reflexivity).
  rewrite G. rewrite (find_app_fresh _ _ _ NF), (remove_app_fresh _ _ _ NF).
  destruct e; destruct s; cbn; rewrite app_nil_r; reflexivity.
Qed.

(* ---------- RawRead ---------- *)
Lemma read_S fuel w st l s : read_loop (S fuel) w st l s =
      if negb (has_writer st) then
        let s := if isize_max <? st then set_err s else s in
        let '(s, prev) := cas W1 st (wadd st ONE_READER) s in
        if prev =? st then PReady (st, None) (drop_listener_opt E2 l s)
        else read_loop fuel w prev l s
      else
        match l with
        | None =>
            let '(s, id) := listen E2 s in
            read_loop fuel w (getw W1 s) (Some id) s
        | Some id =>
            let '(s, r) := poll_listener E2 id w s in
            if negb r then PPending (st, l) s
            else
              let st := getw W1 s in
              let s := if has_writer st then s else notify E2 1 false s in
              read_loop fuel w st None s
        end.
Proof. reflexivity. Qed.

(* the loop entered with the current state and a free reader slot *)
Lemma read_take fuel w l s : has_writer (sw1 s) = false -> sw1 s <= isize_max ->
  read_loop (S fuel) w (sw1 s) l s = PReady (sw1 s, None) (drop_listener_opt E2 l (setw W1 (wadd (sw1 s) 2) s)).
Proof.
  intros HW B. rewrite read_S. rewrite HW. cbn [negb].
  destruct (isize_max <? sw1 s) eqn:Q; [apply N.ltb_lt in Q; lia|]. cbv zeta.
  unfold cas. cbn [getw]. rewrite N.eqb_refl. rewrite N.eqb_refl. reflexivity.
Qed.

(* the loop entered with the current state while a writer holds or has announced itself, no listener yet *)
Lemma read_wait fuel w s : has_writer (sw1 s) = true -> fresh_e E2 s ->
  read_loop (S (S fuel)) w (sw1 s) None s = PPending (sw1 s, Some (snid s)) (reg E2 w s).
Proof.
  intros HW F. rewrite read_S. rewrite HW. cbn [negb].
  destruct (reg_path E2 w s F) as (RP & RI). destruct (listen E2 s) as [s1 id] eqn:E. cbn [snd] in RI. subst id.
  assert (W1' : getw W1 s1 = sw1 s) by (unfold listen in E; inversion E; reflexivity).
  rewrite W1'. rewrite read_S. rewrite HW. cbn [negb]. rewrite RP. cbn [negb]. reflexivity.
Qed.

Definition read_spec (w : waker) (c : N) (l : option nat) (s : sh) : pres (N * option nat) :=
  let st := sw1 s in
  match l with
  | None =>
      if has_writer st then PPending (st, Some (snid s)) (reg E2 w s)
      else PReady (st, None) (set_nid (if has_writer c then S (snid s) else snid s) (setw W1 (wadd st 2) s))
  | Some id =>
      match ev_find id (se2 s) with
      | Some (Notified _) =>
          let s1 := sete E2 (ev_remove id (se2 s)) s in
          if has_writer st then PPending (st, Some (snid s)) (reg E2 w s1)
          else PReady (st, None) (setw W1 (wadd st 2) (notify E2 1 false s1))
      | Some _ => PPending (c, Some id) (sete E2 (ev_set id (Task w) (se2 s)) s)
      | None => PPending (c, l) (set_err s)
      end
  end.

Lemma read_paths fuel w c l s : fresh_e E2 s -> sw1 s <= isize_max -> c <= isize_max ->
  (l <> None -> has_writer c = true) ->
  read_loop (S (S (S (S fuel)))) w c l s = read_spec w c l s.
Proof.
  intros F B Bc HL. unfold read_spec. destruct l as [id|].
  - (* a registered reader *)
    rewrite read_S. rewrite (HL ltac:(discriminate)). cbn [negb].
    unfold poll_listener at 1, ev_poll. cbn [gete].
    destruct (ev_find id (se2 s)) as [[|w0|a]|] eqn:Fd; try reflexivity.
    cbv beta iota zeta. cbn [negb]. set (s1 := sete E2 (ev_remove id (se2 s)) s).
    change (getw W1 s1) with (sw1 s).
    destruct (has_writer (sw1 s)) eqn:HW.
    + assert (F1 : fresh_e E2 s1) by (intros x Hx; unfold s1 in Hx; cbn in Hx; apply ids_remove_incl in Hx; apply F in Hx; exact Hx).
      change (sw1 s) with (sw1 s1). rewrite (read_wait _ w s1 HW F1). reflexivity.
    + set (s2 := notify E2 1 false s1). assert (E : sw1 s2 = sw1 s) by (unfold s2; rewrite sw1_notify; reflexivity).
      rewrite <- E. rewrite (read_take _ w None s2); [|rewrite E; exact HW | rewrite E; exact B]. reflexivity.
  - (* first poll; the cached state may be stale *)
    destruct (has_writer c) eqn:HC.
    + rewrite read_S. rewrite HC. cbn [negb].
      destruct (listen E2 s) as [s1 id] eqn:E.
      assert (W1' : getw W1 s1 = sw1 s) by (unfold listen in E; inversion E; reflexivity). rewrite W1'.
      destruct (has_writer (sw1 s)) eqn:HW.
      * rewrite read_S. rewrite HW. cbn [negb].
        destruct (reg_path E2 w s F) as (RP & RI). rewrite E in RP, RI. cbn [snd] in RI. subst id. rewrite RP. reflexivity.
      * assert (S1 : sw1 s1 = sw1 s) by exact W1'. rewrite <- S1. rewrite (read_take _ w (Some id) s1); [|rewrite S1; exact HW | rewrite S1; exact B].
        rewrite S1. unfold listen in E. inversion E; subst s1 id. clear E.
        assert (NF : ~ In (snid s) (map eid (se2 s))) by (intro H; apply F in H; lia).
        unfold drop_listener_opt, drop_listener, ev_drop, ev_listen. cbn [gete se2 setw set_nid sete].
        rewrite (find_app_fresh _ _ _ NF), (remove_app_fresh _ _ _ NF).
        destruct s; cbn; rewrite app_nil_r; reflexivity.
    + rewrite read_S. rewrite HC. cbn [negb].
      destruct (isize_max <? c) eqn:Q; [apply N.ltb_lt in Q; lia|]. cbv zeta.
      unfold cas. cbn [getw]. destruct (sw1 s =? c) eqn:Q2.
      * apply N.eqb_eq in Q2. subst c. rewrite N.eqb_refl. rewrite HC. reflexivity.
      * rewrite Q2. destruct (has_writer (sw1 s)) eqn:HW.
        -- rewrite (read_wait _ w s HW F). reflexivity.
        -- rewrite (read_take _ w None s HW B). reflexivity.
Qed.

(* ---------- RawUpgrade and the WaitingReaders phase of RawWrite ---------- *)
Lemma upgrade_S fuel w l s : upgrade_loop (S fuel) w l s =
      if getw W1 s =? WRITER_BIT then PReady None (drop_listener_opt E1 l s)
      else
        match l with
        | None => let '(s, id) := listen E1 s in upgrade_loop fuel w (Some id) s
        | Some id =>
            let '(s, r) := poll_listener E1 id w s in
            if negb r then PPending l s else upgrade_loop fuel w None s
        end.
Proof. reflexivity. Qed.

(* result of waiting for the readers to leave: Some store = Ready *)
Definition wait_spec (w : waker) (l : option nat) (s : sh) : option nat * sh * bool :=
  if sw1 s =? 1 then (None, drop_listener_opt E1 l s, true)
  else match l with
       | None => (Some (snid s), reg E1 w s, false)
       | Some id =>
           match ev_find id (se1 s) with
           | Some (Notified _) => (Some (snid s), reg E1 w (sete E1 (ev_remove id (se1 s)) s), false)
           | Some _ => (l, sete E1 (ev_set id (Task w) (se1 s)) s, false)
           | None => (l, set_err s, false)
           end
       end.

Definition pres_of (r : option nat * sh * bool) : pres (option nat) :=
  let '(l, s, b) := r in if b then PReady l s else PPending l s.

Lemma upgrade_reg fuel w s : sw1 s <> 1 -> fresh_e E1 s ->
  upgrade_loop (S (S fuel)) w None s = PPending (Some (snid s)) (reg E1 w s).
Proof.
  intros NZ F. rewrite upgrade_S. cbn [getw]. unfold WRITER_BIT. destruct (sw1 s =? 1) eqn:Q; [apply N.eqb_eq in Q; contradiction|].
  destruct (reg_path E1 w s F) as (RP & RI). destruct (listen E1 s) as [s1 id] eqn:E. cbn [snd] in RI. subst id.
  assert (W1' : sw1 s1 = sw1 s) by (unfold listen in E; inversion E; reflexivity).
  rewrite upgrade_S. cbn [getw]. unfold WRITER_BIT. rewrite W1', Q. rewrite RP. reflexivity.
Qed.

Lemma upgrade_paths fuel w l s : fresh_e E1 s ->
  upgrade_loop (S (S (S fuel))) w l s = pres_of (wait_spec w l s).
Proof.
  intros F. unfold wait_spec. rewrite upgrade_S. cbn [getw]. unfold WRITER_BIT.
  destruct (sw1 s =? 1) eqn:Q; [reflexivity|]. apply N.eqb_neq in Q.
  destruct l as [id|].
  - unfold poll_listener at 1, ev_poll. cbn [gete].
    destruct (ev_find id (se1 s)) as [[|w0|a]|] eqn:Fd; try reflexivity.
    cbv beta iota zeta. cbn [negb]. set (s1 := sete E1 (ev_remove id (se1 s)) s).
    assert (F1 : fresh_e E1 s1) by (intros x Hx; unfold s1 in Hx; cbn in Hx; apply ids_remove_incl in Hx; apply F in Hx; exact Hx).
    rewrite (upgrade_reg _ w s1 Q F1). reflexivity.
  - change (upgrade_loop (S (S fuel)) w None s) with (upgrade_loop (S (S fuel)) w None s).
    pose proof (upgrade_reg (S fuel) w s Q F) as U. rewrite upgrade_S in U. cbn [getw] in U. unfold WRITER_BIT in U.
    destruct (sw1 s =? 1) eqn:Q2; [apply N.eqb_eq in Q2; contradiction|]. rewrite U. reflexivity.
Qed.

(* ---------- RawWrite ---------- *)
Lemma write_S fuel w nr ws s : write_loop (S fuel) w nr ws s =
      match ws with
      | WAcquiring l =>
          let '(l, s, r) := lock_poll W0 E0 w l s in
          if negb r then PPending (nr, WAcquiring l) s
          else
            let '(s, prev) := fetch_or W1 WRITER_BIT s in
            if prev =? WRITER_BIT then PReady (nr, WAcquired) s
            else
              let '(s, id) := listen E1 s in
              let s := drop_listener_opt E1 nr s in
              write_loop fuel w (Some id) WWaiting s
      | WWaiting =>
          if getw W1 s =? WRITER_BIT then PReady (None, WAcquired) (drop_listener_opt E1 nr s)
          else
            match nr with
            | None => let '(s, id) := listen E1 s in write_loop fuel w (Some id) WWaiting s
            | Some id =>
                let '(s, r) := poll_listener E1 id w s in
                if negb r then PPending (nr, WWaiting) s
                else write_loop fuel w None WWaiting s
            end
      | WAcquired => PFuel (nr, ws) (set_err s)
      end.
Proof. reflexivity. Qed.

Definition wpres_of (r : option nat * sh * bool) : pres (option nat * wstate) :=
  let '(l, s, b) := r in if b then PReady (None, WAcquired) s else PPending (l, WWaiting) s.

Lemma write_reg fuel w s : sw1 s <> 1 -> fresh_e E1 s ->
  write_loop (S (S fuel)) w None WWaiting s = PPending (Some (snid s), WWaiting) (reg E1 w s).
Proof.
  intros NZ F. rewrite write_S. cbn [getw]. unfold WRITER_BIT. destruct (sw1 s =? 1) eqn:Q; [apply N.eqb_eq in Q; contradiction|].
  destruct (reg_path E1 w s F) as (RP & RI). destruct (listen E1 s) as [s1 id] eqn:E. cbn [snd] in RI. subst id.
  assert (W1' : sw1 s1 = sw1 s) by (unfold listen in E; inversion E; reflexivity).
  rewrite write_S. cbn [getw]. unfold WRITER_BIT. rewrite W1', Q. rewrite RP. reflexivity.
Qed.

Lemma write_wait_paths fuel w l s : fresh_e E1 s ->
  write_loop (S (S (S fuel))) w l WWaiting s = wpres_of (wait_spec w l s).
Proof.
  intros F. unfold wait_spec. rewrite write_S. cbn [getw]. unfold WRITER_BIT.
  destruct (sw1 s =? 1) eqn:Q; [reflexivity|]. apply N.eqb_neq in Q.
  destruct l as [id|].
  - unfold poll_listener at 1, ev_poll. cbn [gete].
    destruct (ev_find id (se1 s)) as [[|w0|a]|] eqn:Fd; try reflexivity.
    cbv beta iota zeta. cbn [negb]. set (s1 := sete E1 (ev_remove id (se1 s)) s).
    assert (F1 : fresh_e E1 s1) by (intros x Hx; unfold s1 in Hx; cbn in Hx; apply ids_remove_incl in Hx; apply F in Hx; exact Hx).
    rewrite (write_reg _ w s1 Q F1). reflexivity.
  - pose proof (write_reg (S fuel) w s Q F) as U. rewrite write_S in U. cbn [getw] in U. unfold WRITER_BIT in U.
    destruct (sw1 s =? 1) eqn:Q2; [apply N.eqb_eq in Q2; contradiction|]. rewrite U. reflexivity.
Qed.

(* the Acquiring phase, once the inner mutex has been obtained (in store s1): announce, then wait *)
Definition announce (w : waker) (s1 : sh) : pres (option nat * wstate) :=
  let s2 := setw W1 (N.lor (sw1 s1) 1) s1 in
  if sw1 s1 =? 1 then PReady (None, WAcquired) s2
  else if N.lor (sw1 s1) 1 =? 1 then PReady (None, WAcquired) (set_nid (S (snid s1)) s2)
  else PPending (Some (snid s1), WWaiting) (reg E1 w s2).

Lemma write_acq_paths fuel w l s :
  (forall l' s1, lock_poll W0 E0 w l s = (l', s1, true) -> fresh_e E1 s1) ->
  write_loop (S (S (S (S fuel)))) w None (WAcquiring l) s =
  let '(l', s1, r) := lock_poll W0 E0 w l s in
  if negb r then PPending (None, WAcquiring l') s1 else announce w s1.
Proof.
  intros HF. rewrite write_S. destruct (lock_poll W0 E0 w l s) as [[l' s1] r] eqn:E. destruct r; cbn [negb]; [|reflexivity].
  pose proof (HF l' s1 eq_refl) as F1. unfold announce, fetch_or. cbn [getw]. unfold WRITER_BIT.
  destruct (sw1 s1 =? 1) eqn:Q; [reflexivity|].
  set (s2 := setw W1 (N.lor (sw1 s1) 1) s1).
  assert (F2 : fresh_e E1 s2) by exact F1.
  destruct (listen E1 s2) as [s3 id] eqn:EL. change (drop_listener_opt E1 None s3) with s3.
  destruct (N.lor (sw1 s1) 1 =? 1) eqn:Q2.
  - (* no reader: acquired at once; the fresh listener is dropped unused *)
    rewrite write_S. cbn [getw]. unfold WRITER_BIT.
    assert (W3 : sw1 s3 = N.lor (sw1 s1) 1) by (unfold listen in EL; inversion EL; reflexivity). rewrite W3, Q2.
    pose proof (listen_drop E1 s2 F2) as LD. rewrite EL in LD. rewrite LD. reflexivity.
  - rewrite write_S. cbn [getw]. unfold WRITER_BIT.
    assert (W3 : sw1 s3 = N.lor (sw1 s1) 1) by (unfold listen in EL; inversion EL; reflexivity). rewrite W3, Q2.
    destruct (reg_path E1 w s2 F2) as (RP & RI). rewrite EL in RP, RI. cbn [snd] in RI. subst id. rewrite RP. reflexivity.
Qed.
