(* SemLive.v — Semaphore: every available permit reaches a waiter (C07), the idle state (C10),
   polls terminate (C17), for every history. *)
From AL Require Import Base Api Semaphore SemApi BaseFacts ApiFacts EventFacts SemCount.
From Coq Require Import Lia.

(* ---------- what one poll of an acquire future does, path by path ---------- *)
Definition fresh (s : sh) : Prop := forall id, In id (map eid (se0 s)) -> (id < snid s)%nat.

(* after a successful acquisition: one more listener is notified if permits are left *)
Definition baton (s : sh) : sh := if 0 <? sw0 s then notify E0 1 false s else s.

Definition sem_poll_spec (w : waker) (l : option nat) (s : sh) : option nat * sh * bool :=
  if 0 <? sw0 s then (None, baton (drop_listener_opt E0 l (setw W0 (sw0 s - 1) s)), true)
  else match l with
       | None =>
           (Some (snid s), set_nid (S (snid s)) (sete E0 (se0 s ++ [mkEntry (snid s) (Task w)]) s), false)
       | Some id =>
           match ev_find id (se0 s) with
           | Some (Notified _) =>
               (Some (snid s),
                set_nid (S (snid s)) (sete E0 (ev_remove id (se0 s) ++ [mkEntry (snid s) (Task w)]) s), false)
           | Some _ => (Some id, sete E0 (ev_set id (Task w) (se0 s)) s, false)
           | None => (l, set_err s, false)
           end
       end.

Lemma find_app_fresh id l st : ~ In id (map eid l) -> ev_find id (l ++ [mkEntry id st]) = Some st.
Proof.
  induction l as [|e r IH]; cbn; intro N.
  - rewrite Nat.eqb_refl. reflexivity.
  - destruct (Nat.eqb (eid e) id) eqn:E; [apply Nat.eqb_eq in E; exfalso; apply N; left; exact E|].
    apply IH. intro H. apply N. right. exact H.
Qed.
Lemma set_app_fresh id st st' l : ~ In id (map eid l) -> ev_set id st' (l ++ [mkEntry id st]) = l ++ [mkEntry id st'].
Proof.
  induction l as [|e r IH]; cbn; intro N.
  - rewrite Nat.eqb_refl. reflexivity.
  - destruct (Nat.eqb (eid e) id) eqn:E; [apply Nat.eqb_eq in E; exfalso; apply N; left; exact E|].
    f_equal. apply IH. intro H. apply N. right. exact H.
Qed.

Lemma try_zero s : sw0 s = 0 -> sem_try s = (s, false).
Proof. intro Z. unfold sem_try. cbn [getw]. rewrite Z. reflexivity. Qed.
Lemma try_pos s : 0 < sw0 s -> sem_try s = (setw W0 (sw0 s - 1) s, true).
Proof.
  intro P. unfold sem_try. cbn [getw]. destruct (sw0 s =? 0) eqn:Z; [lia|].
  unfold cas. cbn [getw]. rewrite N.eqb_refl. reflexivity.
Qed.

Lemma loop_S f w l s : sem_poll_loop (S f) w l s =
  let '(s, ok) := sem_try s in
  if ok then SReady None (baton (drop_listener_opt E0 l s))
  else match l with
       | None => let '(s, id) := listen E0 s in sem_poll_loop f w (Some id) s
       | Some id => let '(s, r) := poll_listener E0 id w s in
                    if r then sem_poll_loop f w None s else SPending l s
       end.
Proof. reflexivity. Qed.

(* one registration: listen, then (count still 0) poll the fresh listener *)
Lemma loop_register f w s : sw0 s = 0 -> fresh s ->
  sem_poll_loop (S (S f)) w None s =
  SPending (Some (snid s)) (set_nid (S (snid s)) (sete E0 (se0 s ++ [mkEntry (snid s) (Task w)]) s)).
Proof.
  intros Z F. rewrite loop_S. rewrite (try_zero s Z).
  unfold listen. cbn [gete fst snd]. cbv beta iota.
  set (s1 := set_nid (S (snid s)) (sete E0 (ev_listen (snid s) (se0 s)) s)).
  assert (Z1 : sw0 s1 = 0) by exact Z. rewrite loop_S. rewrite (try_zero s1 Z1).
  unfold poll_listener. cbn [gete]. unfold ev_poll, s1, ev_listen. cbn [se0 sete set_nid].
  assert (NF : ~ In (snid s) (map eid (se0 s))) by (intro H; apply F in H; lia).
  rewrite (find_app_fresh _ _ _ NF). rewrite (set_app_fresh _ _ _ _ NF). reflexivity.
Qed.

Lemma sem_poll_paths w l s : fresh s -> sem_poll w l s = sem_poll_spec w l s.
Proof.
  intro F. unfold sem_poll_spec, sem_poll. change SFUEL with (S (S (S 5))).
  destruct (0 <? sw0 s) eqn:P.
  - assert (P' : 0 < sw0 s) by lia. rewrite loop_S. rewrite (try_pos s P'). reflexivity.
  - assert (Z : sw0 s = 0) by lia. destruct l as [id|].
    + rewrite loop_S. rewrite (try_zero s Z). unfold poll_listener at 1. cbn [gete]. unfold ev_poll.
      destruct (ev_find id (se0 s)) as [[|w'|a]|] eqn:Fd; cbv beta iota; try reflexivity.
      set (s1 := sete E0 (ev_remove id (se0 s)) s).
      assert (F1 : fresh s1).
      { intros x Hx. unfold s1 in Hx. cbn in Hx. apply ids_remove_incl in Hx. apply F in Hx. exact Hx. }
      rewrite (loop_register 5 w s1 Z F1). reflexivity.
    + rewrite (loop_register 6 w s Z F). reflexivity.
Qed.

(* ---------- the at-rest invariant ---------- *)
Definition slook (x : sworld) : look_t sfut := fun k => alookup k (s_futs x).
Definition pend_ok (x : sworld) : Prop :=
  forall fid f, alookup fid (s_futs x) = Some f -> (fm_st (sf_meta f) = FPending <-> sf_lis f <> None).
Definition avail_ok (x : sworld) : Prop :=
  0 < sw0 (s_sh x) -> se0 (s_sh x) = [] \/ has_notified (se0 (s_sh x)) = true.

Definition keys_ok (x : sworld) : Prop :=
  NoDup (map fst (s_futs x)) /\ (forall k, In k (map fst (s_futs x)) -> (k < s_nf x)%nat).

Definition SLiveW (wk : list waker) (x : sworld) : Prop :=
  InvB sfut sf_lis sf_meta wk (se0 (s_sh x)) (snid (s_sh x)) (slook x) /\ pend_ok x /\ avail_ok x /\ serr (s_sh x) = false /\ keys_ok x.
Definition SLive (x : sworld) : Prop := SLiveW [] x.

Definition quiescent (x : sworld) : Prop :=
  forall fid f, alookup fid (s_futs x) = Some f -> ~ (fm_st (sf_meta f) = FPending /\ fm_woken (sf_meta f) = true).

(* C07 on a state satisfying the invariant *)
Lemma no_pending_when_available x : SLive x -> quiescent x -> 0 < sw0 (s_sh x) ->
  forall fid f, alookup fid (s_futs x) = Some f -> fm_st (sf_meta f) <> FPending.
Proof.
  intros (I & Pe & Av & _ & _) Q P fid f L Pend.
  apply (Pe fid f L) in Pend. destruct (sf_lis f) as [id|] eqn:Ls; [|contradiction].
  pose proof (ib_listed _ _ _ _ _ _ _ I fid f id L Ls) as Hin.
  destruct (Av P) as [E|H]; [rewrite E in Hin; contradiction|].
  unfold has_notified in H. apply existsb_exists in H. destruct H as (e & He & Ne).
  destruct (InvB_notified_woken _ _ _ _ _ _ e I He Ne) as (g & fg & Lg & Pg & Wg).
  apply (Q g fg Lg). split; assumption.
Qed.

Lemma fresh_of wk x : SLiveW wk x -> fresh (s_sh x).
Proof. intros (I & _). exact (ib_fresh _ _ _ _ _ _ _ I). Qed.

(* ---------- preservation: the end-of-operation wake-up pass ---------- *)
Lemma SLiveW_wake x : SLiveW (swk (s_sh x)) x -> SLive (s_wake_all (swk (s_sh x)) x).
Proof.
  intros (I & Pe & Av & Er & K1 & K2). unfold SLive, SLiveW, s_wake_all, s_upd. cbn [s_sh].
  set (wk := swk (s_sh x)) in *.
  set (h := fun f => mkSfut (sf_arc f) (sf_lis f) (meta_wake wk (sf_meta f))).
  split; [|split; [|split; [exact Av | split; [exact Er | unfold keys_ok; cbn [s_futs s_nf]; rewrite map_map; cbn [fst]; split; [exact K1 | exact K2]]]]].
  - apply (InvB_wake sfut sf_lis sf_meta wk _ _ (slook x) _ h); auto.
    intro k. unfold slook. cbn [s_futs]. exact (alookup_map h k (s_futs x)).
  - intros fid f L. cbn [s_futs] in L. pose proof (alookup_map h fid (s_futs x)) as AM. cbv beta in AM. unfold h in AM at 1. rewrite AM in L. clear AM.
    destruct (alookup fid (s_futs x)) as [f0|] eqn:L0; [|discriminate]. inversion L; subst.
    cbn [h sf_meta sf_lis]. rewrite <- (Pe fid f0 L0). unfold meta_wake. destruct (sf_meta f0) as [st w wo]. cbn.
    destruct st; try tauto. destruct w as [w0|]; try tauto. destruct (mem_nat w0 wk); tauto.
Qed.

(* ---------- the store after dropping a listener ---------- *)
Lemma se0_drop_opt o s : se0 (drop_listener_opt E0 o s) = fst (ev_drop_opt o (se0 s)).
Proof. destruct o as [id|]; [|reflexivity]. unfold drop_listener_opt, drop_listener, ev_drop_opt. cbn [gete]. destruct (ev_drop id (se0 s)); reflexivity. Qed.
Lemma swk_drop_opt o s : swk (drop_listener_opt E0 o s) = swk s ++ snd (ev_drop_opt o (se0 s)).
Proof.
  destruct o as [id|]; [|unfold drop_listener_opt, ev_drop_opt; cbn; rewrite app_nil_r; reflexivity].
  unfold drop_listener_opt, drop_listener, ev_drop_opt. cbn [gete]. destruct (ev_drop id (se0 s)); reflexivity.
Qed.
Lemma rest_drop_opt o s : snid (drop_listener_opt E0 o s) = snid s /\ serr (drop_listener_opt E0 o s) = serr s /\ sw0 (drop_listener_opt E0 o s) = sw0 s.
Proof. destruct o as [id|]; [|repeat split]. unfold drop_listener_opt, drop_listener. cbn [gete]. destruct (ev_drop id (se0 s)); repeat split. Qed.

(* the future [fid] drops its listener (cancellation, or completion through try_acquire) *)
Lemma drop_own wk l nid look look' cnt' fid f :
  InvB sfut sf_lis sf_meta wk l nid look -> look fid = Some f ->
  (forall g, g <> fid -> look' g = look g) ->
  (forall f', look' fid = Some f' -> sf_lis f' = None) ->
  (0 < cnt' -> l = [] \/ has_notified l = true) ->
  InvB sfut sf_lis sf_meta (wk ++ snd (ev_drop_opt (sf_lis f) l)) (fst (ev_drop_opt (sf_lis f) l)) nid look' /\
  (0 < cnt' -> fst (ev_drop_opt (sf_lis f) l) = [] \/ has_notified (fst (ev_drop_opt (sf_lis f) l)) = true).
Proof.
  intros I L HF1 HF2 Av. destruct (sf_lis f) as [id|] eqn:Ls; cbn [ev_drop_opt fst snd].
  2:{ rewrite app_nil_r. split; [|exact Av].
      apply (InvB_frame sfut sf_lis sf_meta wk l nid look look' fid); auto. intros f0 L0. rewrite L in L0. inversion L0; subst. exact Ls. }
  pose proof (InvB_remove sfut sf_lis sf_meta wk l nid look look' fid f id I L Ls HF1 HF2) as IR.
  pose proof (ib_nodup _ _ _ _ _ _ _ I) as ND.
  unfold ev_drop. destruct (ev_find id l) as [[|w0|a]|] eqn:Fd; cbn [fst snd].
  - rewrite app_nil_r. split; [exact IR|]. intro P. destruct (Av P) as [E|H]; [rewrite E in Fd; discriminate|].
    right. apply has_notified_remove; auto. intros st Q. rewrite Fd in Q. inversion Q; subst. exact Logic.I.
  - rewrite app_nil_r. split; [exact IR|]. intro P. destruct (Av P) as [E|H]; [rewrite E in Fd; discriminate|].
    right. apply has_notified_remove; auto. intros st Q. rewrite Fd in Q. inversion Q; subst. exact Logic.I.
  - split; [apply InvB_notify; exact IR|]. intros _.
    destruct (ev_remove id l) as [|e r] eqn:Q; [left; destruct a; reflexivity|]. right.
    destruct a.
    + unfold ev_notify. apply mark_has; [lia | discriminate].
    + apply notify_has; [lia | discriminate].
  - (* the listener is not in the list: excluded by the invariant *)
    exfalso. pose proof (ib_listed _ _ _ _ _ _ _ I fid f id L Ls) as Hin. apply ev_find_None in Fd. contradiction.
Qed.

(* ---------- preservation by every operation ---------- *)
Arguments sem_poll : simpl never.
Arguments sem_try : simpl never.
Arguments sem_release : simpl never.
Arguments sem_add : simpl never.

Lemma look_aupdate x fid f' : forall g, g <> fid -> alookup g (aupdate fid f' (s_futs x)) = slook x g.
Proof. intros g N. apply alookup_aupdate_other. exact N. Qed.

Lemma notify_world n a s :
  se0 (notify E0 n a s) = fst (ev_notify n a (se0 s)) /\ swk (notify E0 n a s) = swk s ++ snd (ev_notify n a (se0 s)) /\
  snid (notify E0 n a s) = snid s /\ serr (notify E0 n a s) = serr s /\ sw0 (notify E0 n a s) = sw0 s.
Proof. unfold notify. cbn [gete]. destruct (ev_notify n a (se0 s)); repeat split. Qed.
Lemma notify_zero l : ev_notify 0 false l = (l, []).
Proof.
  unfold ev_notify. destruct (0 <? N.of_nat (count_notified l)); [reflexivity|].
  replace (0 - N.of_nat (count_notified l)) with 0 by lia.
  induction l as [|e r IH]; cbn; [reflexivity|]. destruct (is_notified e); [rewrite IH; reflexivity | reflexivity].
Qed.
Lemma wrap_pos c : 0 < wrap c -> 0 < c.
Proof. intro H. destruct (N.eq_dec c 0) as [->|]; [unfold wrap in H; rewrite N.mod_0_l in H by (rewrite USZ_val; lia); lia | lia]. Qed.

Lemma SLiveW_baton x : SLiveW (swk (s_sh x)) x ->
  SLiveW (swk (baton (s_sh x))) (s_upd x (baton (s_sh x)) (s_futs x) (s_guards x)).
Proof.
  intros (I & Pe & Av & Er & K1 & K2). unfold baton. destruct (0 <? sw0 (s_sh x)) eqn:P.
  - destruct (notify_world 1 false (s_sh x)) as (N1 & N2 & N3 & N4 & N5).
    unfold SLiveW, s_upd, slook, pend_ok, avail_ok, keys_ok. cbn [s_sh s_futs s_nf]. rewrite N1, N2, N3, N4, N5.
    split; [apply (InvB_notify sfut sf_lis sf_meta 1 false _ _ _ _ I)|]. split; [exact Pe|]. split; [|split; [exact Er | split; assumption]].
    intros _. destruct (se0 (s_sh x)) as [|e r] eqn:Q; [left; reflexivity|]. right. apply notify_has; [lia | discriminate].
  - unfold SLiveW, s_upd, slook, pend_ok, avail_ok, keys_ok. cbn [s_sh s_futs s_nf]. split; [exact I|]. split; [exact Pe|]. split; [exact Av|]. split; [exact Er | split; assumption].
Qed.

Lemma step_core_SLiveW x o : SLive x -> swk (s_sh x) = [] ->
  SLiveW (swk (s_sh (fst (sstep_core x o)))) (fst (sstep_core x o)).
Proof.
  intros HX WK. pose proof HX as (I & Pe & Av & Er & K1 & K2). unfold sstep_core. destruct o; cbv beta iota zeta.
  - (* SAcquire *)
    destruct (Nat.eqb (s_handles x) 0); [cbn [fst]; rewrite WK; exact HX|].
    assert (NK : alookup (s_nf x) (s_futs x) = None).
    { apply alookup_not_key. intro H. apply K2 in H. lia. }
    assert (G : SLiveW [] (s_bump_f (s_upd x (s_sh x) (s_futs x ++ [(s_nf x, mkSfut arc None meta0)]) (s_guards x)))).
    { unfold SLiveW, s_bump_f, s_upd, slook, pend_ok, avail_ok, keys_ok. cbn [s_sh s_futs s_nf].
      split; [|split; [|split; [exact Av | split; [exact Er|]]]].
      - apply (InvB_frame sfut sf_lis sf_meta [] _ _ (slook x) _ (s_nf x)); auto.
        + intros f L. unfold slook in L. congruence.
        + intros g N. rewrite alookup_app. unfold slook. destruct (alookup g (s_futs x)); [reflexivity|].
          cbn. destruct (Nat.eqb g (s_nf x)) eqn:Q; [apply Nat.eqb_eq in Q; contradiction | reflexivity].
        + intros f' L. rewrite alookup_app, NK in L. cbn in L. rewrite Nat.eqb_refl in L. inversion L. reflexivity.
      - intros fid f L. rewrite alookup_app in L. destruct (alookup fid (s_futs x)) eqn:Q; [inversion L; subst; apply (Pe fid f Q)|].
        cbn in L. destruct (Nat.eqb fid (s_nf x)); inversion L; subst. cbn. split; [discriminate | intro H; exfalso; apply H; reflexivity].
      - split.
        + rewrite map_app. cbn. apply NoDup_app_fresh; [exact K1|]. intro H. apply K2 in H. lia.
        + intros k Hk. rewrite map_app in Hk. apply in_app_or in Hk. destruct Hk as [Hk|[<-|[]]]; [specialize (K2 k Hk); lia | cbn; lia]. }
    destruct arc; cbn [fst]; unfold s_inc; cbn [s_sh s_bump_f s_upd]; rewrite WK; exact G.
  - (* SPoll *)
    destruct (alookup f (s_futs x)) as [fu|] eqn:L; [|cbn [fst]; rewrite WK; exact HX].
    destruct (fstatus_eqb (fm_st (sf_meta fu)) FDone || Nat.leb 4 k) eqn:V; [cbn [fst]; rewrite WK; exact HX|].
    rewrite (sem_poll_paths (wtag f k) (sf_lis fu) (s_sh x) (ib_fresh _ _ _ _ _ _ _ I)).
    unfold sem_poll_spec. destruct (0 <? sw0 (s_sh x)) eqn:P.
    + (* completes through try_acquire; its listener is dropped *)
      set (f' := mkSfut (sf_arc fu) None (mkMeta FDone (Some (wtag f k)) false)).
      set (s' := drop_listener_opt E0 (sf_lis fu) (setw W0 (sw0 (s_sh x) - 1) (s_sh x))).
      assert (G : SLiveW (swk s') (s_bump_g (s_upd x s' (aupdate f f' (s_futs x)) (s_guards x ++ [(s_ng x, sf_arc fu)])))).
      { destruct (drop_own [] (se0 (s_sh x)) (snid (s_sh x)) (slook x) (fun g => alookup g (aupdate f f' (s_futs x))) (sw0 (s_sh x) - 1) f fu I L) as (I' & Av').
        - apply look_aupdate.
        - intros f0 L0. rewrite (alookup_aupdate_same _ _ _ _ L) in L0. inversion L0. reflexivity.
        - intro Q. apply Av. lia.
        - destruct (rest_drop_opt (sf_lis fu) (setw W0 (sw0 (s_sh x) - 1) (s_sh x))) as (R1 & R2 & R3).
          unfold SLiveW, s_bump_g, s_upd, slook, pend_ok, avail_ok, keys_ok. cbn [s_sh s_futs s_nf]. unfold s'.
          rewrite se0_drop_opt, swk_drop_opt, R1, R2, R3. cbn [se0 swk snid serr sw0 setw]. rewrite WK. cbn [app].
          split; [exact I'|]. split; [|split; [exact Av' | split; [exact Er|]]].
          + intros g fg Lg. destruct (Nat.eq_dec g f) as [->|N].
            * rewrite (alookup_aupdate_same _ _ _ _ L) in Lg. inversion Lg; subst. cbn. split; [discriminate | intro H; exfalso; apply H; reflexivity].
            * rewrite alookup_aupdate_other in Lg by exact N. apply (Pe g fg Lg).
          + rewrite keys_aupdate. split; assumption. }
      pose proof (SLiveW_baton (s_bump_g (s_upd x s' (aupdate f f' (s_futs x)) (s_guards x ++ [(s_ng x, sf_arc fu)]))) G) as G2. cbn [s_sh s_bump_g s_upd s_futs s_guards] in G2.
      destruct (sf_arc fu); cbn [fst]; unfold s_inc; cbn [s_sh s_bump_g s_upd]; exact G2.
    + assert (Z : sw0 (s_sh x) = 0) by lia.
      destruct (sf_lis fu) as [id|] eqn:Ls.
      * (* has a listener *)
        pose proof (Nat.eqb_refl f) as EQf.
        assert (REG : forall st, ev_find id (se0 (s_sh x)) = Some st -> (forall a, st <> Notified a) ->
                  SLiveW [] (s_upd x (sete E0 (ev_set id (Task (wtag f k)) (se0 (s_sh x))) (s_sh x))
                                  (aupdate f (mkSfut (sf_arc fu) (Some id) (mkMeta FPending (Some (wtag f k)) false)) (s_futs x)) (s_guards x))).
        { intros st Fd NN. unfold SLiveW, s_upd, slook, pend_ok, avail_ok, keys_ok. cbn [s_sh s_futs s_nf se0 sete snid serr sw0].
          split; [|split; [|split; [intro Q; rewrite Z in Q; lia | split; [exact Er | rewrite keys_aupdate; split; assumption]]]].
          - apply (InvB_set_task sfut sf_lis sf_meta [] _ _ (slook x) _ f fu (mkSfut (sf_arc fu) (Some id) (mkMeta FPending (Some (wtag f k)) false)) id (wtag f k)); auto.
            + apply look_aupdate.
            + apply (alookup_aupdate_same _ _ _ _ L).
          - intros g fg Lg. destruct (Nat.eq_dec g f) as [->|N].
            + rewrite (alookup_aupdate_same _ _ _ _ L) in Lg. inversion Lg; subst. cbn. split; [discriminate | reflexivity].
            + rewrite alookup_aupdate_other in Lg by exact N. apply (Pe g fg Lg). }
        destruct (ev_find id (se0 (s_sh x))) as [[|w0|a]|] eqn:Fd.
        -- cbn [fst s_sh s_upd swk sete]. rewrite WK. apply (REG Created eq_refl). discriminate.
        -- cbn [fst s_sh s_upd swk sete]. rewrite WK. apply (REG (Task w0) eq_refl). discriminate.
        -- (* notified: the entry is consumed and a fresh one registered *)
           cbn [fst]. unfold SLiveW, s_upd, slook, pend_ok, avail_ok, keys_ok. cbn [s_sh s_futs s_nf se0 sete snid serr sw0 set_nid swk].
           rewrite WK.
           split; [|split; [|split; [intro Q; rewrite Z in Q; lia | split; [exact Er | rewrite keys_aupdate; split; assumption]]]].
           ++ set (mid := fun g => if Nat.eqb g f then Some (mkSfut (sf_arc fu) None (sf_meta fu)) else slook x g).
              assert (IM : InvB sfut sf_lis sf_meta [] (ev_remove id (se0 (s_sh x))) (snid (s_sh x)) mid).
              { apply (InvB_remove sfut sf_lis sf_meta [] _ _ (slook x) mid f fu id); auto.
                - intros g N. unfold mid. destruct (Nat.eqb g f) eqn:Q; [apply Nat.eqb_eq in Q; contradiction | reflexivity].
                - intros f0 L0. unfold mid in L0. rewrite EQf in L0. inversion L0. reflexivity. }
              apply (InvB_append sfut sf_lis sf_meta [] _ _ mid _ f (mkSfut (sf_arc fu) (Some (snid (s_sh x))) (mkMeta FPending (Some (wtag f k)) false)) (wtag f k) IM); auto.
              ** intros f0 L0. unfold mid in L0. rewrite EQf in L0. inversion L0. reflexivity.
              ** intros g N. unfold mid. destruct (Nat.eqb g f) eqn:Q; [apply Nat.eqb_eq in Q; contradiction|]. apply look_aupdate. exact N.
              ** apply (alookup_aupdate_same _ _ _ _ L).
           ++ intros g fg Lg. destruct (Nat.eq_dec g f) as [->|N].
              ** rewrite (alookup_aupdate_same _ _ _ _ L) in Lg. inversion Lg; subst. cbn. split; [discriminate | reflexivity].
              ** rewrite alookup_aupdate_other in Lg by exact N. apply (Pe g fg Lg).
        -- exfalso. pose proof (ib_listed _ _ _ _ _ _ _ I f fu id L Ls) as Hin. apply ev_find_None in Fd. contradiction.
      * (* no listener yet: register *)
        cbn [fst]. unfold SLiveW, s_upd, slook, pend_ok, avail_ok, keys_ok. cbn [s_sh s_futs s_nf se0 sete snid serr sw0 set_nid swk].
        rewrite WK.
        split; [|split; [|split; [intro Q; rewrite Z in Q; lia | split; [exact Er | rewrite keys_aupdate; split; assumption]]]].
        -- apply (InvB_append sfut sf_lis sf_meta [] _ _ (slook x) _ f (mkSfut (sf_arc fu) (Some (snid (s_sh x))) (mkMeta FPending (Some (wtag f k)) false)) (wtag f k) I); auto.
           ++ intros f0 L0. unfold slook in L0. rewrite L in L0. inversion L0; subst. exact Ls.
           ++ apply look_aupdate.
           ++ apply (alookup_aupdate_same _ _ _ _ L).
        -- intros g fg Lg. destruct (Nat.eq_dec g f) as [->|N].
           ++ rewrite (alookup_aupdate_same _ _ _ _ L) in Lg. inversion Lg; subst. cbn. split; [discriminate | reflexivity].
           ++ rewrite alookup_aupdate_other in Lg by exact N. apply (Pe g fg Lg).
  - (* SDropFut *)
    destruct (alookup f (s_futs x)) as [fu|] eqn:L; [|cbn [fst]; rewrite WK; exact HX].
    set (s' := drop_listener_opt E0 (sf_lis fu) (s_sh x)).
    assert (G : SLiveW (swk s') (s_upd x s' (aremove f (s_futs x)) (s_guards x))).
    { destruct (drop_own [] (se0 (s_sh x)) (snid (s_sh x)) (slook x) (fun g => alookup g (aremove f (s_futs x))) (sw0 (s_sh x)) f fu I L) as (I' & Av').
      - intros g N. apply alookup_aremove_other. exact N.
      - intros f0 L0. rewrite (alookup_aremove_same f (s_futs x) K1) in L0. discriminate.
      - exact Av.
      - destruct (rest_drop_opt (sf_lis fu) (s_sh x)) as (R1 & R2 & R3).
        unfold SLiveW, s_upd, slook, pend_ok, avail_ok, keys_ok. cbn [s_sh s_futs s_nf]. unfold s'.
        rewrite se0_drop_opt, swk_drop_opt, R1, R2, R3. rewrite WK. cbn [app].
        split; [exact I'|]. split; [|split; [exact Av' | split; [exact Er|]]].
        + intros g fg Lg. destruct (Nat.eq_dec g f) as [->|N].
          * rewrite (alookup_aremove_same f (s_futs x) K1) in Lg. discriminate.
          * rewrite alookup_aremove_other in Lg by exact N. apply (Pe g fg Lg).
        + split; [apply NoDup_keys_aremove; exact K1 | intros k0 Hk; apply K2; apply (keys_aremove_incl f); exact Hk]. }
    destruct (sf_arc fu); cbn [fst]; unfold s_dec; cbn [s_sh s_upd]; exact G.
  - (* STry *)
    destruct (Nat.eqb (s_handles x) 0); [cbn [fst]; rewrite WK; exact HX|].
    destruct (0 <? sw0 (s_sh x)) eqn:P.
    + assert (P' : 0 < sw0 (s_sh x)) by lia. rewrite (try_pos _ P').
      assert (G : SLiveW [] (s_bump_g (s_upd x (setw W0 (sw0 (s_sh x) - 1) (s_sh x)) (s_futs x) (s_guards x ++ [(s_ng x, arc)])))).
      { unfold SLiveW, s_bump_g, s_upd, slook, pend_ok, avail_ok, keys_ok. cbn [s_sh s_futs s_nf se0 setw snid serr sw0].
        split; [exact I|]. split; [exact Pe|]. split; [intro Q; apply Av; lia | split; [exact Er | split; assumption]]. }
      destruct arc; cbn [fst]; unfold s_inc; cbn [s_sh s_bump_g s_upd swk setw]; rewrite WK; exact G.
    + assert (Z : sw0 (s_sh x) = 0) by lia. rewrite (try_zero _ Z). cbn [fst]. unfold s_upd. cbn [s_sh]. rewrite WK.
      exact HX.
  - (* SDropGuard *)
    destruct (alookup g (s_guards x)) as [arc|] eqn:L; [|cbn [fst]; rewrite WK; exact HX].
    assert (G : SLiveW (swk (sem_release (s_sh x))) (s_upd x (sem_release (s_sh x)) (s_futs x) (aremove g (s_guards x)))).
    { unfold sem_release. rewrite (surjective_pairing (fetch_add W0 1 (s_sh x))). rewrite fetch_add_fst. cbn [getw].
      set (s1 := setw W0 (wadd (sw0 (s_sh x)) 1) (s_sh x)).
      destruct (notify_world 1 false s1) as (N1 & N2 & N3 & N4 & N5).
      unfold SLiveW, s_upd, slook, pend_ok, avail_ok, keys_ok. cbn [s_sh s_futs s_nf].
      rewrite N1, N2, N3, N4, N5. unfold s1. cbn [se0 swk snid serr sw0 setw]. rewrite WK. cbn [app].
      split; [apply (InvB_notify sfut sf_lis sf_meta 1 false [] _ _ _ I)|].
      split; [exact Pe|]. split; [|split; [exact Er | split; assumption]].
      intros _. destruct (se0 (s_sh x)) as [|e r] eqn:Q; [left; reflexivity|]. right. apply notify_has; [lia | discriminate]. }
    destruct arc; cbn [fst]; unfold s_dec; cbn [s_sh s_upd]; exact G.
  - (* SForget *)
    destruct (alookup g (s_guards x)) as [arc|] eqn:L; [|cbn [fst]; rewrite WK; exact HX].
    destruct arc; cbn [fst]; unfold s_dec; cbn [s_sh]; rewrite WK; exact HX.
  - (* SAdd *)
    destruct (Nat.eqb (s_handles x) 0); [cbn [fst]; rewrite WK; exact HX|]. cbn [fst s_sh].
    unfold sem_add. rewrite (surjective_pairing (fetch_add W0 n (s_sh x))). rewrite fetch_add_fst. cbn [getw].
    set (s1 := setw W0 (wadd (sw0 (s_sh x)) n) (s_sh x)).
    destruct (notify_world n false s1) as (N1 & N2 & N3 & N4 & N5).
    unfold SLiveW, slook, pend_ok, avail_ok, keys_ok. cbn [s_sh s_futs s_nf].
    rewrite N1, N2, N3, N4, N5. unfold s1. cbn [se0 swk snid serr sw0 setw]. rewrite WK. cbn [app].
    split; [apply (InvB_notify sfut sf_lis sf_meta n false [] _ _ _ I)|].
    split; [exact Pe|]. split; [|split; [exact Er | split; assumption]].
    intro Q. destruct (N.eq_dec n 0) as [->|NZ].
    * rewrite notify_zero. cbn [fst]. apply Av. unfold wadd in Q. rewrite N.add_0_r in Q. apply wrap_pos. exact Q.
    * destruct (se0 (s_sh x)) as [|e r] eqn:QQ; [left; unfold ev_notify; cbn; destruct (n <? N.of_nat 0); reflexivity|].
      right. apply notify_has; [lia | discriminate].
  - (* SCloneArc *)
    destruct (Nat.eqb (s_handles x) 0); cbn [fst]; unfold s_inc; cbn [s_sh s_set_handles]; rewrite WK; exact HX.
  - (* SDropArc *)
    destruct (Nat.eqb (s_handles x) 0); [cbn [fst]; rewrite WK; exact HX|].
    destruct (Nat.eqb (s_handles x) 1 && s_borrowed_alive x); cbn [fst]; unfold s_dec; cbn [s_sh s_set_handles]; rewrite WK; exact HX.
Qed.

Lemma step_SLive x o : SLive x -> SLive (fst (sstep x o)).
Proof.
  intro HX. unfold sstep.
  set (x0 := s_upd x (set_wk [] (s_sh x)) (s_futs x) (s_guards x)).
  assert (H0 : SLive x0) by exact HX.
  assert (W0' : swk (s_sh x0) = []) by reflexivity.
  pose proof (step_core_SLiveW x0 o H0 W0') as H.
  destruct (sstep_core x0 o) as [x1 r]. cbn [fst] in *. apply SLiveW_wake. exact H.
Qed.

Lemma SLive_init n : SLive (sw_init n).
Proof.
  unfold SLive, SLiveW, sw_init, slook, pend_ok, avail_ok, keys_ok. cbn.
  split; [constructor; cbn; try tauto; try constructor; intros; discriminate|].
  split; [intros; discriminate|]. split; [intros _; left; reflexivity|]. split; [reflexivity|]. split; [constructor | tauto].
Qed.

Theorem run_SLive n ops : SLive (srun n ops).
Proof.
  unfold srun. generalize (SLive_init n). generalize (sw_init n).
  induction ops as [|o l IH]; intros x I; cbn [fold_left]; [exact I|]. apply IH. apply step_SLive. exact I.
Qed.

(* ---------- the theorems ---------- *)
Theorem sem_no_lost_wakeup n ops :
  let x := srun n ops in
  quiescent x -> 0 < sw0 (s_sh x) ->
  forall fid f, alookup fid (s_futs x) = Some f -> fm_st (sf_meta f) <> FPending.
Proof. intros x Q P. apply no_pending_when_available; auto. apply run_SLive. Qed.

(* nothing alive: no listener is left registered *)
Theorem sem_idle_event n ops : s_futs (srun n ops) = [] -> se0 (s_sh (srun n ops)) = [].
Proof.
  intro F. destruct (run_SLive n ops) as (I & _).
  pose proof (ib_owner _ _ _ _ _ _ _ I) as Ow.
  destruct (se0 (s_sh (srun n ops))) as [|e r]; [reflexivity|].
  destruct (Ow e (or_introl eq_refl)) as (g & fg & Lg & _).
  unfold slook in Lg. rewrite F in Lg. discriminate.
Qed.

(* no reachable poll takes a branch the code treats as unreachable, nor runs out of loop fuel *)
Theorem sem_no_error n ops : serr (s_sh (srun n ops)) = false.
Proof. destruct (run_SLive n ops) as (_ & _ & _ & E & _). exact E. Qed.
