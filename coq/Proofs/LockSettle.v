(* LockSettle.v — what one later poll of a lock operation on the (embedded) mutex (W0, E0) does to the
   counts used by the settle potential: notified entries of lock_ops, wakers called, starvation of the
   polled operation. Store level, independent of the API machine (reused by the Mutex and the RwLock). *)
From AL Require Import Base Api Mutex BaseFacts ApiFacts EventFacts MutexWord MutexPaths Settle.
From Coq Require Import Lia.

Lemma tm_ev a s : se0 (snd (take_mutex W0 a s)) = se0 s /\ swk (snd (take_mutex W0 a s)) = swk s.
Proof. unfold take_mutex. destruct (a_mutex a && a_starved a); split; reflexivity. Qed.
Lemma tm_starved a s : a_starved (fst (take_mutex W0 a s)) = a_starved a.
Proof. unfold take_mutex. destruct (a_mutex a && a_starved a); reflexivity. Qed.
Lemma orc_ev s : se0 (fst (oracle s)) = se0 s /\ swk (fst (oracle s)) = swk s /\ snid (fst (oracle s)) = snid s.
Proof. unfold oracle. destruct (sorc s); repeat split. Qed.

(* notify(1) without `additional`: nothing happens if an entry is already notified; otherwise at most one more *)

Lemma notify_ids n a s : map eid (se0 (notify E0 n a s)) = map eid (se0 s).
Proof.
  destruct (notify_proj n a s) as (Q1 & _). rewrite Q1. pose proof (notify_rel n a (se0 s)) as R.
  destruct (ev_notify n a (se0 s)) as [l ws]. cbn [fst]. apply (upd_ids _ _ _ _ R).
Qed.

Definition ustar (st : bool) : N := if st then 0 else 1.

Lemma lock_later_counts w st id s : fresh0 s -> NoDup (map eid (se0 s)) -> In id (map eid (se0 s)) -> swk s = [] ->
  let '(a', s', r) := later_spec w (mkAcq true (Some id) st) id s in
  if r then N.of_nat (length (swk s')) + 2 * cN (se0 s') + 2 <= 2 * cN (se0 s) + ustar st
  else N.of_nat (length (swk s')) + 2 * cN (se0 s') + ustar (a_starved a') <= 2 * cN (se0 s) + ustar st.
Proof.
  intros F ND Hin WK. unfold later_spec.
  destruct (poll_proj id w s ND Hin) as (P1 & P2 & [_ _ _ _ _ Pk _ _]). cbv zeta in P1, P2, Pk.
  pose proof (cN_remove id (se0 s)) as CR. pose proof (cN_set_task id w (se0 s)) as CS. unfold notified_at in CR, CS. unfold notified in *.
  set (s1 := fst (poll_listener E0 id w s)) in *.
  destruct (ev_find id (se0 s)) as [[|w0|a0]|] eqn:Fd; cbn [negb].
  1,2: rewrite P1, Pk, WK, (CS eq_refl); cbn [a_starved length]; lia.
  2:{ exfalso. apply ev_find_None in Fd. contradiction. }
  (* notified *)
  assert (F1 : fresh0 s1) by (apply poll_keeps_fresh; exact F).
  assert (N1 : cN (se0 s1) + 1 = cN (se0 s)) by (rewrite P1; exact CR).
  assert (K1 : swk s1 = []) by (rewrite Pk; exact WK).
  cbn [a_starved]. destruct st.
  - (* starved *)
    destruct (sw0 s mod 2 =? 0).
    + destruct (tm_ev (set_lis None (mkAcq true (Some id) true)) (fst (fetch_or W0 1 s1))) as (T1 & T2).
      destruct (take_mutex W0 (set_lis None (mkAcq true (Some id) true)) (fst (fetch_or W0 1 s1))) as [a' s3]. cbn [snd] in T1, T2.
      rewrite T1, T2. change (se0 (fst (fetch_or W0 1 s1))) with (se0 s1). change (swk (fst (fetch_or W0 1 s1))) with (swk s1). rewrite K1. cbn [length ustar]. lia.
    + destruct (do_reg_proj w s1 F1) as (D1 & _ & [_ _ _ _ _ Dk _ _]). rewrite D1, Dk, K1, cN_app. cbn [is_notified est a_starved length ustar]. lia.
  - destruct (sw0 s =? 0).
    + destruct (tm_ev (set_lis None (mkAcq true (Some id) false)) (setw W0 1 s1)) as (T1 & T2).
      destruct (take_mutex W0 (set_lis None (mkAcq true (Some id) false)) (setw W0 1 s1)) as [a' s3]. cbn [snd] in T1, T2.
      rewrite T1, T2. change (se0 (setw W0 1 s1)) with (se0 s1). change (swk (setw W0 1 s1)) with (swk s1). rewrite K1. cbn [length ustar]. lia.
    + destruct (sw0 s =? 1).
      * destruct (orc_ev s1) as (O1 & O2 & O3). set (s2 := fst (oracle s1)) in *.
        assert (F2 : fresh0 s2) by (apply (fresh0_same s1); assumption).
        destruct (snd (oracle s1)).
        -- destruct (become_starved_facts s2) as (B1 & B2 & _ & B4 & _).
           assert (F3 : fresh0 (become_starved s2)) by (apply (fresh0_same s2); assumption).
           destruct (do_reg_proj w (become_starved s2) F3) as (D1 & _ & [_ _ _ _ _ Dk _ _]).
           rewrite D1, Dk, B1, B4, O1, O2, K1, cN_app. cbn [is_notified est a_starved length ustar]. lia.
        -- destruct (do_reg_proj w s2 F2) as (D1 & _ & [_ _ _ _ _ Dk _ _]).
           rewrite D1, Dk, O1, O2, K1, cN_app. cbn [is_notified est a_starved length ustar]. lia.
      * (* somebody else is starved: pass the notification on, take a ticket *)
        destruct (notify_proj 1 false s1) as (Q1 & Q2 & Q3 & _). pose proof (notify1_count (se0 s1)) as NC.
        destruct (ev_notify 1 false (se0 s1)) as [l' ws]. cbn [fst snd] in Q1, Q3. destruct NC as (NC1 & NC2 & NC3). rewrite K1 in Q3. cbn [app] in Q3.
        set (sn := notify E0 1 false s1) in *.
        assert (Fn : fresh0 sn) by (apply notify_keeps_fresh; exact F1).
        destruct (become_starved_facts sn) as (B1 & B2 & _ & B4 & _). set (s3 := become_starved sn) in *.
        assert (F3 : fresh0 s3) by (apply (fresh0_same sn); assumption).
        destruct ((sw0 s + 2) mod 2 =? 1).
        -- destruct (do_reg_proj w s3 F3) as (D1 & _ & [_ _ _ _ _ Dk _ _]).
           rewrite D1, Dk, B1, B4, Q1, Q3, cN_app. cbn [is_notified est a_starved ustar]. lia.
        -- (* fair loop, word even: listen, notify again, poll the fresh listener *)
           set (sl := fst (listen E0 s3)).
           assert (L1 : se0 sl = se0 s3 ++ [mkEntry (snid s3) Created]) by reflexivity.
           assert (Lk : swk sl = swk s3) by reflexivity.
           destruct (notify_proj 1 false sl) as (R1 & R2 & R3 & _). pose proof (notify1_count (se0 sl)) as NC'.
           destruct (ev_notify 1 false (se0 sl)) as [l'' ws2]. cbn [fst snd] in R1, R3. destruct NC' as (MC1 & MC2 & MC3).
           rewrite L1, cN_app in MC1, MC2, MC3. cbn [is_notified est] in MC1, MC2, MC3. rewrite B1, Q1 in MC1, MC2, MC3.
           rewrite Lk, B4, Q3 in R3.
           set (s5 := notify E0 1 false sl) in *.
           assert (ID5 : map eid (se0 s5) = map eid (se0 s1) ++ [snid s3]).
           { unfold s5. rewrite notify_ids, L1, map_app. cbn [map eid]. rewrite B1. unfold sn. rewrite notify_ids. reflexivity. }
           assert (ND1 : NoDup (map eid (se0 s1))) by (rewrite P1; apply NoDup_remove_ev; exact ND).
           assert (N3 : snid s3 = snid s1) by (rewrite B2; unfold sn; destruct (notify_proj 1 false s1) as (_ & Q & _); exact Q).
           assert (ND5 : NoDup (map eid (se0 s5))).
           { rewrite ID5. apply NoDup_app_fresh; [exact ND1|]. intro H. apply F1 in H. rewrite N3 in H. lia. }
           assert (IN5 : In (snid s3) (map eid (se0 s5))) by (rewrite ID5; apply in_or_app; right; left; reflexivity).
           destruct (poll_proj (snid s3) w s5 ND5 IN5) as (T1 & _ & [_ _ _ _ _ Tk _ _]). cbv zeta in T1, Tk.
           pose proof (cN_remove (snid s3) (se0 s5)) as CR5. pose proof (cN_set_task (snid s3) w (se0 s5)) as CS5. unfold notified_at in CR5, CS5. unfold notified in *.
           destruct (ev_find (snid s3) (se0 s5)) as [[|w5|a5]|] eqn:Fd5.
           4:{ exfalso. apply ev_find_None in Fd5. contradiction. }
           1,2: rewrite T1, Tk, (CS5 eq_refl), R1, R3, app_length; cbn [a_starved ustar]; lia.
           (* our own fresh listener got the notification: consume it and take the lock *)
           set (s6 := fst (poll_listener E0 (snid s3) w s5)) in *.
           destruct (tm_ev (mkAcq true None true) (fst (fetch_or W0 1 s6))) as (U1 & U2).
           destruct (take_mutex W0 (mkAcq true None true) (fst (fetch_or W0 1 s6))) as [a' s8]. cbn [snd] in U1, U2.
           rewrite U1, U2. change (se0 (fst (fetch_or W0 1 s6))) with (se0 s6). change (swk (fst (fetch_or W0 1 s6))) with (swk s6).
           rewrite T1, Tk, R1, R3, app_length. rewrite R1 in CR5. cbn [ustar]. lia.
Qed.
