(* SemCount.v — Semaphore: conservation of permits (C03) for every history. *)
From AL Require Import Base Api Semaphore SemApi BaseFacts ApiFacts.
From Coq Require Import Lia.

Arguments sem_release : simpl never.
Arguments sem_add : simpl never.
Arguments sem_try : simpl never.
Arguments sem_poll : simpl never.
Arguments drop_listener_opt : simpl never.
Arguments notify : simpl never.

Definition outstanding (x : sworld) : N := N.of_nat (length (s_guards x)) + N.of_nat (s_forgot x).

(* the counting invariant *)
Definition CInv (x : sworld) : Prop := sw0 (s_sh x) + outstanding x = s_total x.

(* ---- effect of the raw operations on the counter ---- *)
Lemma sem_try_spec s :
  let '(s', ok) := sem_try s in
  (ok = true -> 0 < sw0 s /\ sw0 s' = sw0 s - 1) /\
  (ok = false -> sw0 s = 0 /\ s' = s) /\
  same_events s s' /\ snid s' = snid s /\ swk s' = swk s /\ serr s' = serr s /\ sorc s' = sorc s.
Proof.
  unfold sem_try. cbn. destruct (sw0 s =? 0) eqn:E.
  - split; [discriminate|]. split; [intros _; split; [lia | reflexivity]|]. repeat split.
  - unfold cas. cbn. rewrite N.eqb_refl. cbn.
    split; [intros _; split; [lia | reflexivity]|]. split; [discriminate|]. repeat split.
Qed.

Lemma sem_release_count s : sw0 s + 1 < USZ -> sw0 (sem_release s) = sw0 s + 1.
Proof.
  intro H. unfold sem_release, fetch_add. cbv beta iota. autorewrite with sw. cbn.
  apply wadd_small. exact H.
Qed.
Lemma sem_add_count n s : sw0 s + n < USZ -> sw0 (sem_add n s) = sw0 s + n.
Proof.
  intro H. unfold sem_add, fetch_add. cbv beta iota. autorewrite with sw. cbn.
  apply wadd_small. exact H.
Qed.

(* the poll loop: the counter goes down by one exactly when the poll returns Ready *)
Lemma sem_poll_loop_count fuel w : forall l s,
  match sem_poll_loop fuel w l s with
  | SReady _ s' => 0 < sw0 s /\ sw0 s' = sw0 s - 1
  | SPending _ s' | SFuel _ s' => sw0 s' = sw0 s
  end.
Proof.
  induction fuel as [|fuel IH]; intros l s; cbn [sem_poll_loop]; [reflexivity|].
  pose proof (sem_try_spec s) as T. destruct (sem_try s) as [s1 ok]. destruct T as (T1 & T2 & _).
  destruct ok.
  - destruct (T1 eq_refl) as (P & Q). split; [exact P|]. cbv zeta. cbn [getw].
    pose proof (drop_listener_opt_words E0 l s1) as (A & _).
    destruct (0 <? sw0 (drop_listener_opt E0 l s1)); [rewrite sw0_notify|]; rewrite A; exact Q.
  - destruct (T2 eq_refl) as (Z & ->).
    destruct l as [id|].
    + pose proof (poll_listener_words E0 id w s) as (A & _).
      destruct (poll_listener E0 id w s) as [s2 r]. cbn in A. destruct r.
      * specialize (IH None s2). destruct (sem_poll_loop fuel w None s2); rewrite A in IH; exact IH.
      * exact A.
    + pose proof (listen_words E0 s) as (A & _).
      destruct (listen E0 s) as [s2 id]. cbn in A.
      specialize (IH (Some id) s2). destruct (sem_poll_loop fuel w (Some id) s2); rewrite A in IH; exact IH.
Qed.

Lemma sem_poll_count w l s :
  let '(l', s', r) := sem_poll w l s in
  if r then 0 < sw0 s /\ sw0 s' = sw0 s - 1 else sw0 s' = sw0 s.
Proof.
  unfold sem_poll. pose proof (sem_poll_loop_count SFUEL w l s) as H.
  destruct (sem_poll_loop SFUEL w l s); cbn; auto.
Qed.

(* ---- bookkeeping does not touch what CInv talks about ---- *)
Lemma CInv_inc x : CInv (s_inc x) <-> CInv x. Proof. reflexivity. Qed.
Lemma CInv_dec x : CInv (s_dec x) <-> CInv x. Proof. reflexivity. Qed.
Lemma CInv_wake wk x : CInv (s_wake_all wk x) <-> CInv x. Proof. reflexivity. Qed.
Lemma total_inc x : s_total (s_inc x) = s_total x. Proof. reflexivity. Qed.
Lemma total_dec x : s_total (s_dec x) = s_total x. Proof. reflexivity. Qed.

Lemma total_mono x o : s_total x <= s_total (fst (sstep x o)).
Proof.
  unfold sstep.
  set (x0 := s_upd x (set_wk [] (s_sh x)) (s_futs x) (s_guards x)).
  assert (T0 : s_total x0 = s_total x) by reflexivity.
  destruct (sstep_core x0 o) as [x1 r] eqn:E. cbn [fst]. change (s_total x <= s_total x1).
  rewrite <- T0. clear T0. revert E. generalize x0. clear x x0. intros x E.
  unfold sstep_core in E.
  destruct o; cbv beta iota zeta in E.
  all: repeat match type of E with
       | context [match ?d with _ => _ end] => destruct d
       end; inversion E; subst; cbn; try rewrite ?total_inc, ?total_dec; cbn; try lia.
Qed.

Lemma step_CInv x o : CInv x -> s_total (fst (sstep x o)) < USZ -> CInv (fst (sstep x o)).
Proof.
  intros I B. pose proof (total_mono x o) as M.
  unfold sstep in *.
  set (x0 := s_upd x (set_wk [] (s_sh x)) (s_futs x) (s_guards x)) in *.
  assert (I0 : CInv x0) by exact I.
  assert (T0 : s_total x0 = s_total x) by reflexivity.
  destruct (sstep_core x0 o) as [x1 r] eqn:E. cbn [fst] in *.
  change (CInv x1). change (s_total x1 < USZ) in B. change (s_total x <= s_total x1) in M.
  rewrite <- T0 in M. clear T0 I. revert I0 E B M. generalize x0. clear x x0. intros x I E B M.
  unfold CInv, outstanding in *. unfold sstep_core in E.
  destruct o; cbv beta iota zeta in E.
  - (* SAcquire *)
    destruct (Nat.eqb (s_handles x) 0); inversion E; subst; [exact I|].
    destruct arc; cbn; exact I.
  - (* SPoll *)
    destruct (alookup f (s_futs x)) as [fu|]; [|inversion E; subst; exact I].
    destruct (fstatus_eqb (fm_st (sf_meta fu)) FDone || Nat.leb 4 k); [inversion E; subst; exact I|].
    pose proof (sem_poll_count (wtag f k) (sf_lis fu) (s_sh x)) as P.
    destruct (sem_poll (wtag f k) (sf_lis fu) (s_sh x)) as [[l s'] rdy].
    destruct rdy.
    + destruct P as (P1 & P2).
      assert (G : CInv (s_bump_g (s_upd x s' (aupdate f (mkSfut (sf_arc fu) l (mkMeta FDone (Some (wtag f k)) false)) (s_futs x))
                                        (s_guards x ++ [(s_ng x, sf_arc fu)])))).
      { unfold CInv, outstanding. cbn. rewrite app_length. cbn. rewrite P2. lia. }
      destruct (sf_arc fu); inversion E; subst; exact G.
    + inversion E; subst. cbn. rewrite P. exact I.
  - (* SDropFut *)
    destruct (alookup f (s_futs x)) as [fu|]; [|inversion E; subst; exact I].
    pose proof (drop_listener_opt_words E0 (sf_lis fu) (s_sh x)) as (A & _).
    destruct (sf_arc fu); inversion E; subst; cbn; rewrite A; exact I.
  - (* STry *)
    destruct (Nat.eqb (s_handles x) 0); [inversion E; subst; exact I|].
    pose proof (sem_try_spec (s_sh x)) as T. destruct (sem_try (s_sh x)) as [s' ok].
    destruct T as (T1 & T2 & _). destruct ok.
    + destruct (T1 eq_refl) as (P1 & P2).
      assert (G : CInv (s_bump_g (s_upd x s' (s_futs x) (s_guards x ++ [(s_ng x, arc)])))).
      { unfold CInv, outstanding. cbn. rewrite app_length. cbn. rewrite P2. lia. }
      destruct arc; inversion E; subst; exact G.
    + destruct (T2 eq_refl) as (_ & ->). inversion E; subst. exact I.
  - (* SDropGuard *)
    destruct (alookup g (s_guards x)) as [arc|] eqn:L; [|inversion E; subst; exact I].
    pose proof (alookup_aremove_length _ _ _ L) as Len.
    assert (Bx : s_total x < USZ) by lia.
    assert (R : sw0 (sem_release (s_sh x)) = sw0 (s_sh x) + 1).
    { apply sem_release_count. lia. }
    destruct arc; inversion E; subst; cbn; rewrite R; lia.
  - (* SForget *)
    destruct (alookup g (s_guards x)) as [arc|] eqn:L; [|inversion E; subst; exact I].
    pose proof (alookup_aremove_length _ _ _ L) as Len.
    destruct arc; inversion E; subst; cbn; lia.
  - (* SAdd *)
    destruct (Nat.eqb (s_handles x) 0); inversion E; subst; [exact I|].
    cbn in *. rewrite sem_add_count by lia. lia.
  - (* SCloneArc *)
    destruct (Nat.eqb (s_handles x) 0); inversion E; subst; exact I.
  - (* SDropArc *)
    destruct (Nat.eqb (s_handles x) 0); [inversion E; subst; exact I|].
    destruct (Nat.eqb (s_handles x) 1 && s_borrowed_alive x); inversion E; subst; exact I.
Qed.

Lemma CInv_init n : CInv (sw_init n).
Proof. unfold CInv, outstanding. cbn. lia. Qed.

Lemma total_mono_run ops : forall x, s_total x <= s_total (fold_left (fun x o => fst (sstep x o)) ops x).
Proof.
  induction ops as [|o ops IH]; intro x; cbn [fold_left]; [lia|].
  pose proof (total_mono x o). specialize (IH (fst (sstep x o))). lia.
Qed.

Lemma run_CInv ops : forall x, CInv x ->
  s_total (fold_left (fun x o => fst (sstep x o)) ops x) < USZ ->
  CInv (fold_left (fun x o => fst (sstep x o)) ops x).
Proof.
  induction ops as [|o ops IH]; intros x I B; cbn [fold_left] in *; [exact I|].
  apply IH; [|exact B].
  apply step_CInv; [exact I|].
  pose proof (total_mono_run ops (fst (sstep x o))). lia.
Qed.

Theorem sem_conservation n ops :
  s_total (srun n ops) < USZ ->
  sw0 (s_sh (srun n ops)) + outstanding (srun n ops) = s_total (srun n ops).
Proof. intro B. apply (run_CInv ops (sw_init n) (CInv_init n) B). Qed.

(* ---- try_acquire is exact ---- *)
Lemma try_exact x arc : s_handles x <> 0%nat ->
  o_res (snd (sstep x (STry arc))) = (if 0 <? sw0 (s_sh x) then RSome (s_ng x) else RNone).
Proof.
  intro H. unfold sstep. cbn [s_sh s_upd s_futs s_guards].
  unfold sstep_core. cbv beta iota zeta. cbn [s_handles s_upd s_ng s_sh].
  destruct (Nat.eqb (s_handles x) 0) eqn:E; [apply Nat.eqb_eq in E; contradiction|].
  pose proof (sem_try_spec (set_wk [] (s_sh x))) as T.
  destruct (sem_try (set_wk [] (s_sh x))) as [s' ok]. destruct T as (T1 & T2 & _).
  change (sw0 (set_wk [] (s_sh x))) with (sw0 (s_sh x)) in *.
  destruct ok.
  - destruct (T1 eq_refl) as (P & _). destruct arc; cbn; destruct (0 <? sw0 (s_sh x)) eqn:Z; try reflexivity; lia.
  - destruct (T2 eq_refl) as (P & _). cbn. destruct (0 <? sw0 (s_sh x)) eqn:Z; try reflexivity; lia.
Qed.

(* ---- one-step effects on the counter ---- *)
Lemma drop_guard_returns_one x g arc :
  alookup g (s_guards x) = Some arc -> sw0 (s_sh x) + 1 < USZ ->
  sw0 (s_sh (fst (sstep x (SDropGuard g)))) = sw0 (s_sh x) + 1.
Proof.
  intros L B. unfold sstep, sstep_core. cbv beta iota zeta. cbn [s_sh s_upd s_guards s_futs].
  rewrite L. destruct arc; cbn; rewrite sem_release_count; auto.
Qed.
Lemma forget_returns_none x g :
  sw0 (s_sh (fst (sstep x (SForget g)))) = sw0 (s_sh x).
Proof.
  unfold sstep, sstep_core. cbv beta iota zeta. cbn [s_sh s_upd s_guards s_futs].
  destruct (alookup g (s_guards x)) as [[|]|]; reflexivity.
Qed.
Lemma add_permits_adds_n x n :
  s_handles x <> 0%nat -> sw0 (s_sh x) + n < USZ ->
  sw0 (s_sh (fst (sstep x (SAdd n)))) = sw0 (s_sh x) + n /\ s_total (fst (sstep x (SAdd n))) = s_total x + n.
Proof.
  intros H B. unfold sstep, sstep_core. cbv beta iota zeta. cbn [s_sh s_upd s_guards s_futs s_handles].
  destruct (Nat.eqb (s_handles x) 0) eqn:E; [apply Nat.eqb_eq in E; contradiction|].
  cbn. rewrite sem_add_count; auto.
Qed.
Lemma only_add_changes_total x o :
  (forall n, o <> SAdd n) -> s_total (fst (sstep x o)) = s_total x.
Proof.
  intro H. unfold sstep.
  set (x0 := s_upd x (set_wk [] (s_sh x)) (s_futs x) (s_guards x)).
  assert (T0 : s_total x0 = s_total x) by reflexivity.
  destruct (sstep_core x0 o) as [x1 r] eqn:E. cbn [fst]. change (s_total x1 = s_total x).
  rewrite <- T0. clear T0. revert E. generalize x0. clear x x0. intros x E.
  unfold sstep_core in E.
  destruct o; cbv beta iota zeta in E; try (exfalso; eapply H; reflexivity).
  all: repeat match type of E with
       | context [match ?d with _ => _ end] => destruct d
       end; inversion E; subst; cbn; try rewrite ?total_inc, ?total_dec; cbn; reflexivity.
Qed.
