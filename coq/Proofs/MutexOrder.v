(* MutexOrder.v — Mutex: the ordering clause of C13, for every history (polls serialised: the poll-granular machine).
   Once a lock operation A holds a starvation ticket, no lock operation started later acquires the mutex before A
   acquires it or is dropped.

   Three facts about lock_ops carry the proof; all three hold in every reachable state:
     (Q) the queue is sorted by listener id (ids are handed out in increasing order and entries are appended), and only
         its HEAD can be notified (every notification on lock_ops is a notify(1), which does nothing while an entry is
         notified; a notified entry that is dropped passes the notification to the new head);
     (J) while some operation is starved (word >= 2) and an entry is notified, the mutex is unlocked (word even): the
         notification was produced by an unlock or passed on by an operation that saw the mutex unlocked, and nobody can
         take the mutex in between — barging is closed (C13, first clause), and the only other way in is to consume
         that very notification;
     (O) the entry of A is older than the entry of every operation started after A became starved.
   By (J) A's poll with a notified entry finds the mutex unlocked and acquires: A never re-registers, so (O) is kept.
   By (Q) and (O) the entry of a later operation is not the head while A's entry is queued, hence is never notified,
   hence the later operation never gets past `ready!(strategy.poll(listener))`; its first poll cannot take the fast
   path because the word is >= 2. *)
From AL Require Import Base Api Mutex MutexApi BaseFacts ApiFacts EventFacts MutexWord MutexInv MutexPaths LockLive MutexLive.
From Coq Require Import Lia Sorted.

Arguments lock_poll : simpl never.
Arguments lock_drop : simpl never.
Arguments try_lock : simpl never.
Arguments unlock : simpl never.
Arguments notify : simpl never.
Arguments wtag : simpl never.

(* ---------- event level ---------- *)
Definition tail_clean (l : event) : bool := match l with [] => true | _ :: r => negb (has_notified r) end.

Lemma hn_false_tc l : has_notified l = false -> tail_clean l = true.
Proof.
  destruct l as [|e r]; [reflexivity|]. unfold tail_clean, has_notified. cbn [existsb]. intro H.
  apply Bool.orb_false_iff in H. destruct H as (_ & ->). reflexivity.
Qed.

Lemma hn_cons e r : has_notified (e :: r) = is_notified e || has_notified r.
Proof. reflexivity. Qed.

Lemma hn_remove_back id l : has_notified (ev_remove id l) = true -> has_notified l = true.
Proof.
  unfold has_notified. intro H. apply existsb_exists in H. destruct H as (e & He & Ne).
  apply existsb_exists. exists e. split; [apply (In_remove_entry id); exact He | exact Ne].
Qed.
Lemma hn_set_back id w l : has_notified (ev_set id (Task w) l) = true -> has_notified l = true.
Proof.
  induction l as [|e r IH]; cbn [ev_set]; [auto|]. destruct (Nat.eqb (eid e) id).
  - rewrite !hn_cons. cbn [is_notified est orb]. intro H. rewrite H. apply Bool.orb_true_r.
  - rewrite !hn_cons. intro H. apply Bool.orb_true_iff in H. destruct H as [->|H]; [reflexivity | rewrite (IH H); apply Bool.orb_true_r].
Qed.
Lemma hn_listen id l : has_notified (ev_listen id l) = has_notified l.
Proof. unfold ev_listen. rewrite has_notified_app. rewrite hn_cons. cbn [is_notified est has_notified existsb orb]. rewrite Bool.orb_false_r. reflexivity. Qed.
Lemma hn_find id b l : ev_find id l = Some (Notified b) -> has_notified l = true.
Proof.
  intro H. apply ev_find_In in H. unfold has_notified. apply existsb_exists. eexists. split; [exact H | reflexivity].
Qed.

(* only the head can be notified *)
Lemma notified_is_head id b l : tail_clean l = true -> ev_find id l = Some (Notified b) ->
  exists r, l = mkEntry id (Notified b) :: r /\ has_notified r = false.
Proof.
  destruct l as [|e r]; cbn [ev_find tail_clean]; [discriminate|]. intros T F.
  apply Bool.negb_true_iff in T. destruct (Nat.eqb (eid e) id) eqn:Q.
  - apply Nat.eqb_eq in Q. inversion F. exists r. split; [destruct e; cbn in *; subst; reflexivity | exact T].
  - apply hn_find in F. congruence.
Qed.

Lemma remove_head id st r : ev_remove id (mkEntry id st :: r) = r.
Proof. cbn. rewrite Nat.eqb_refl. reflexivity. Qed.

Lemma tc_listen id l : tail_clean l = true -> tail_clean (ev_listen id l) = true.
Proof.
  destruct l as [|e r]; [reflexivity|]. unfold ev_listen. cbn [tail_clean app]. rewrite has_notified_app. rewrite hn_cons.
  cbn [is_notified est has_notified existsb orb]. rewrite Bool.orb_false_r. auto.
Qed.
Lemma tc_set id w l : tail_clean l = true -> tail_clean (ev_set id (Task w) l) = true.
Proof.
  destruct l as [|e r]; [reflexivity|]. cbn [tail_clean ev_set]. intro T. apply Bool.negb_true_iff in T.
  destruct (Nat.eqb (eid e) id); cbn [tail_clean]; apply Bool.negb_true_iff; [exact T|].
  destruct (has_notified (ev_set id (Task w) r)) eqn:H; [apply hn_set_back in H; congruence | reflexivity].
Qed.
Lemma tc_remove id l : tail_clean l = true -> tail_clean (ev_remove id l) = true.
Proof.
  destruct l as [|e r]; [reflexivity|]. cbn [tail_clean ev_remove]. intro T. apply Bool.negb_true_iff in T.
  destruct (Nat.eqb (eid e) id).
  - apply hn_false_tc. exact T.
  - cbn [tail_clean]. apply Bool.negb_true_iff.
    destruct (has_notified (ev_remove id r)) eqn:H; [apply hn_remove_back in H; congruence | reflexivity].
Qed.
Lemma tc_mark1 add l : has_notified l = false -> tail_clean (fst (mark add 1 l)) = true.
Proof.
  destruct l as [|e r]; [reflexivity|]. cbn [mark]. intro H. rewrite hn_cons in H. apply Bool.orb_false_iff in H. destruct H as (He & Hr).
  rewrite He. change (1 =? 0) with false. change (1 - 1) with 0. cbv iota. rewrite mark_zero. cbn [fst tail_clean]. rewrite Hr. reflexivity.
Qed.
Lemma tc_notify1 l : tail_clean l = true -> tail_clean (fst (ev_notify 1 false l)) = true.
Proof.
  intro T. destruct (has_notified l) eqn:H.
  - rewrite (notify1_noop l H). exact T.
  - unfold ev_notify. assert (C : count_notified l = 0%nat).
    { destruct (count_notified l) eqn:Q; [reflexivity|]. assert (has_notified l = true) by (apply count_notified_has; lia). congruence. }
    rewrite C. cbn [N.of_nat N.ltb N.compare]. change (1 - 0) with 1. apply tc_mark1. exact H.
Qed.
Lemma tc_drop id l : tail_clean l = true -> tail_clean (fst (ev_drop id l)) = true.
Proof.
  intro T. unfold ev_drop. destruct (ev_find id l) as [[| |b]|] eqn:F; cbn [fst]; try (apply tc_remove; exact T); [|exact T].
  destruct (notified_is_head id b l T F) as (r & -> & Hr). rewrite remove_head.
  destruct b.
  - unfold ev_notify. apply tc_mark1. exact Hr.
  - apply tc_notify1. apply hn_false_tc. exact Hr.
Qed.
Lemma hn_drop_back id l : has_notified (fst (ev_drop id l)) = true -> has_notified l = true.
Proof.
  unfold ev_drop. destruct (ev_find id l) as [[| |b]|] eqn:F; cbn [fst]; try (apply hn_remove_back); auto.
  intros _. apply (hn_find id b). exact F.
Qed.

(* sortedness *)
Definition sorted (l : event) : Prop := StronglySorted lt (map eid l).

Lemma sorted_nodup l : sorted l -> NoDup (map eid l).
Proof.
  unfold sorted. induction (map eid l) as [|x r IH]; intro S; [constructor|]. inversion S as [|? ? S' F']; subst. constructor.
  - intro H. rewrite Forall_forall in F'. specialize (F' x H). lia.
  - apply IH. assumption.
Qed.
Lemma ss_app_fresh (l : list nat) x : StronglySorted lt l -> (forall y, In y l -> (y < x)%nat) -> StronglySorted lt (l ++ [x]).
Proof.
  induction l as [|a r IH]; cbn; intros S F; [constructor; constructor|]. inversion S as [|? ? S' F']; subst. constructor.
  - apply IH; [assumption | intros y Hy; apply F; right; exact Hy].
  - apply Forall_app. split; [assumption | constructor; [apply F; left; reflexivity | constructor]].
Qed.
Lemma sorted_listen id l : sorted l -> (forall y, In y (map eid l) -> (y < id)%nat) -> sorted (ev_listen id l).
Proof. unfold sorted, ev_listen. rewrite map_app. cbn. apply ss_app_fresh. Qed.
Lemma sorted_set id st l : sorted l -> sorted (ev_set id st l).
Proof. unfold sorted. rewrite ids_set. auto. Qed.
Lemma sorted_remove id l : sorted l -> sorted (ev_remove id l).
Proof.
  unfold sorted. induction l as [|e r IH]; cbn [ev_remove map]; [auto|]. intro S. inversion S as [|? ? S' F']; subst.
  destruct (Nat.eqb (eid e) id); [assumption|]. cbn [map]. constructor; [apply IH; assumption|].
  rewrite Forall_forall in *. intros y Hy. apply F'. apply (ids_remove_incl id). exact Hy.
Qed.
Lemma sorted_upd add ws l l' : Forall2 (upd add ws) l l' -> sorted l -> sorted l'.
Proof. unfold sorted. intro R. rewrite (upd_ids _ _ _ _ R). auto. Qed.
Lemma sorted_notify n add l : sorted l -> sorted (fst (ev_notify n add l)).
Proof. intro S. pose proof (notify_rel n add l) as R. destruct (ev_notify n add l) as [l' ws]. apply (sorted_upd _ _ _ _ R S). Qed.
Lemma sorted_drop id l : sorted l -> sorted (fst (ev_drop id l)).
Proof.
  intro S. unfold ev_drop. destruct (ev_find id l) as [[| |b]|]; cbn [fst]; try (apply sorted_remove; exact S); [|exact S].
  apply sorted_notify. apply sorted_remove. exact S.
Qed.
(* the head of a sorted queue has the smallest id *)
Lemma sorted_head_min e r id : sorted (e :: r) -> In id (map eid (e :: r)) -> (eid e <= id)%nat.
Proof.
  unfold sorted. cbn [map]. intros S [H|H]; [lia|]. inversion S as [|? ? S' F']; subst. rewrite Forall_forall in F'. specialize (F' id H). lia.
Qed.

(* ---------- store level: (Q) ---------- *)
Record QS (s : sh) : Prop := mkQS {
  q_sorted : sorted (se0 s);
  q_fresh : fresh0 s;
  q_tc : tail_clean (se0 s) = true }.

Lemma QS_same s s' : se0 s' = se0 s -> snid s' = snid s -> QS s -> QS s'.
Proof. intros E N [A B C]. constructor; [rewrite E; exact A | apply (fresh0_same s); auto | rewrite E; exact C]. Qed.

Lemma QS_listen s : QS s -> QS (fst (listen E0 s)).
Proof.
  intros [A B C]. constructor; cbn [listen fst se0 sete set_nid gete snid].
  - apply sorted_listen; [exact A | exact B].
  - intros id H. cbn [listen fst se0 sete set_nid gete snid] in H. unfold ev_listen in H. rewrite map_app in H.
    apply in_app_or in H. destruct H as [H|[<-|[]]]; [specialize (B id H); cbn; lia | cbn; lia].
  - apply tc_listen. exact C.
Qed.
Lemma QS_poll id w s : QS s -> QS (fst (poll_listener E0 id w s)).
Proof.
  intros Q. pose proof Q as [A B C]. unfold poll_listener. cbn [gete]. unfold ev_poll.
  destruct (ev_find id (se0 s)) as [[| |b]|] eqn:F; cbn [fst].
  - constructor; [cbn [se0 sete]; apply sorted_set; exact A | intros i H; cbn [se0 sete snid] in H |- *; rewrite ids_set in H; apply B; exact H | cbn [se0 sete]; apply tc_set; exact C].
  - constructor; [cbn [se0 sete]; apply sorted_set; exact A | intros i H; cbn [se0 sete snid] in H |- *; rewrite ids_set in H; apply B; exact H | cbn [se0 sete]; apply tc_set; exact C].
  - constructor; [cbn [se0 sete]; apply sorted_remove; exact A | intros i H; cbn [se0 sete snid] in H |- *; apply ids_remove_incl in H; apply B; exact H | cbn [se0 sete]; apply tc_remove; exact C].
  - apply (QS_same s); auto.
Qed.
Lemma QS_notify1 s : QS s -> QS (notify E0 1 false s).
Proof.
  intros [A B C]. destruct (notify_proj 1 false s) as (N1 & N2 & _). constructor.
  - rewrite N1. apply sorted_notify. exact A.
  - apply notify_keeps_fresh. exact B.
  - rewrite N1. apply tc_notify1. exact C.
Qed.
Lemma drop_proj id s : se0 (drop_listener E0 id s) = fst (ev_drop id (se0 s)) /\ snid (drop_listener E0 id s) = snid s.
Proof. unfold drop_listener. cbn [gete]. destruct (ev_drop id (se0 s)). split; reflexivity. Qed.
Lemma ids_drop_incl id l : incl (map eid (fst (ev_drop id l))) (map eid l).
Proof.
  unfold ev_drop. destruct (ev_find id l) as [[| |b]|]; cbn [fst]; try apply ids_remove_incl; [|apply incl_refl].
  pose proof (notify_rel 1 b (ev_remove id l)) as R. destruct (ev_notify 1 b (ev_remove id l)) as [l' ws]. cbn [fst].
  rewrite (upd_ids _ _ _ _ R). apply ids_remove_incl.
Qed.
Lemma QS_drop id s : QS s -> QS (drop_listener E0 id s).
Proof.
  intros [A B C]. destruct (drop_proj id s) as (D1 & D2). constructor.
  - rewrite D1. apply sorted_drop. exact A.
  - intros i H. rewrite D1 in H. apply ids_drop_incl in H. rewrite D2. apply B. exact H.
  - rewrite D1. apply tc_drop. exact C.
Qed.
Lemma QS_drop_opt o s : QS s -> QS (drop_listener_opt E0 o s).
Proof. destruct o; [apply QS_drop | auto]. Qed.

(* ---------- (Q) through the code of the mutex ---------- *)
Definition lres_sh (r : lres) : sh := match r with LReady _ s | LPending _ s | LBreak _ s | LFuel _ s => s end.

Lemma QS_setw v s : QS s -> QS (setw W0 v s).
Proof. apply QS_same; reflexivity. Qed.
Lemma QS_set_err s : QS s -> QS (set_err s).
Proof. apply QS_same; reflexivity. Qed.
Lemma QS_cas e n s : QS s -> QS (fst (cas W0 e n s)).
Proof. intro Q. rewrite cas_fst. destruct (getw W0 s =? e); [apply QS_setw|]; exact Q. Qed.
Lemma QS_oracle s : QS s -> QS (fst (oracle s)).
Proof. apply QS_same; unfold oracle; destruct (sorc s); reflexivity. Qed.
Lemma QS_take a s : QS s -> QS (snd (take_mutex W0 a s)).
Proof. intro Q. unfold take_mutex. destruct (a_mutex a && a_starved a); cbn [snd]; [rewrite fetch_sub_fst; apply QS_setw|]; exact Q. Qed.
Lemma QS_become_starved s : QS s -> QS (become_starved s).
Proof. destruct (become_starved_facts s) as (A & B & _). apply QS_same; assumption. Qed.

Lemma QS_unstarved fuel w : forall a s, QS s -> QS (lres_sh (mtx_unstarved fuel w a s)).
Proof.
  induction fuel as [|f IH]; intros a s Q; [exact Q|]. rewrite unstarved_S. destruct (a_lis a) as [id|].
  - rewrite (surjective_pairing (poll_listener E0 id w s)). pose proof (QS_poll id w s Q) as Q1.
    destruct (snd (poll_listener E0 id w s)); cbn [negb]; [|exact Q1].
    rewrite (surjective_pairing (cas W0 0 1 _)). pose proof (QS_cas 0 1 _ Q1) as Q2.
    destruct (snd (cas W0 0 1 (fst (poll_listener E0 id w s))) =? 0).
    + rewrite (surjective_pairing (take_mutex W0 _ _)). cbn [lres_sh]. apply QS_take. exact Q2.
    + destruct (snd (cas W0 0 1 (fst (poll_listener E0 id w s))) =? 1).
      * rewrite (surjective_pairing (oracle _)). pose proof (QS_oracle _ Q2) as Q3.
        destruct (snd (oracle (fst (cas W0 0 1 (fst (poll_listener E0 id w s)))))); [exact Q3 | apply IH; exact Q3].
      * cbn [lres_sh]. apply QS_notify1. exact Q2.
  - rewrite (surjective_pairing (listen E0 s)). pose proof (QS_listen s Q) as Q1.
    rewrite (surjective_pairing (cas W0 0 1 _)). pose proof (QS_cas 0 1 _ Q1) as Q2.
    cbv zeta. destruct (snd (cas W0 0 1 (fst (listen E0 s))) =? 0).
    + rewrite (surjective_pairing (take_mutex W0 _ _)). cbn [lres_sh]. apply QS_take. apply QS_drop. exact Q2.
    + destruct (snd (cas W0 0 1 (fst (listen E0 s))) =? 1); [apply IH; exact Q2 | exact Q2].
Qed.

Lemma QS_starved fuel w : forall a s, QS s -> QS (lres_sh (mtx_starved fuel w a s)).
Proof.
  induction fuel as [|f IH]; intros a s Q; [exact Q|]. rewrite starved_S. destruct (a_lis a) as [id|].
  - rewrite (surjective_pairing (poll_listener E0 id w s)). pose proof (QS_poll id w s Q) as Q1.
    destruct (snd (poll_listener E0 id w s)); cbn [negb]; [|exact Q1].
    rewrite (surjective_pairing (fetch_or W0 1 _)). rewrite fetch_or_fst. pose proof (QS_setw (N.lor (getw W0 (fst (poll_listener E0 id w s))) 1) _ Q1) as Q2.
    destruct (snd (fetch_or W0 1 (fst (poll_listener E0 id w s))) mod 2 =? 0).
    + rewrite (surjective_pairing (take_mutex W0 _ _)). cbn [lres_sh]. apply QS_take. exact Q2.
    + apply IH. exact Q2.
  - rewrite (surjective_pairing (listen E0 s)). pose proof (QS_listen s Q) as Q1.
    rewrite (surjective_pairing (cas W0 2 3 _)). pose proof (QS_cas 2 3 _ Q1) as Q2.
    cbv zeta. destruct (snd (cas W0 2 3 (fst (listen E0 s))) =? 2).
    + rewrite (surjective_pairing (take_mutex W0 _ _)). cbn [lres_sh]. apply QS_take. apply QS_drop. exact Q2.
    + destruct (snd (cas W0 2 3 (fst (listen E0 s))) mod 2 =? 1); [apply IH; exact Q2 | apply IH; apply QS_notify1; exact Q2].
Qed.

Lemma QS_acq_poll w a s : QS s -> QS (snd (fst (acq_poll W0 E0 w a s))).
Proof.
  intro Q. unfold acq_poll. destruct (negb (a_mutex a)); [apply QS_set_err; exact Q|].
  assert (G : forall a' s', QS s' -> QS (snd (fst (match mtx_starved FUEL w a' s' with
                 | LReady a0 s0 => (a0, s0, true) | LPending a0 s0 => (a0, s0, false)
                 | LBreak a0 s0 | LFuel a0 s0 => (a0, set_err s0, false) end)))).
  { intros a' s' Q'. pose proof (QS_starved FUEL w a' s' Q') as R.
    destruct (mtx_starved FUEL w a' s'); cbn [lres_sh fst snd] in *; try exact R; apply QS_set_err; exact R. }
  destruct (a_starved a); [apply G; exact Q|].
  pose proof (QS_unstarved FUEL w a s Q) as R.
  destruct (mtx_unstarved FUEL w a s) as [a0 s0|a0 s0|a0 s0|a0 s0]; cbn [lres_sh fst snd] in *; try exact R; [|apply QS_set_err; exact R].
  rewrite (surjective_pairing (fetch_add W0 2 s0)). rewrite fetch_add_fst, fetch_add_snd.
  apply G. destruct (usize_max / 2 <? getw W0 s0); [apply QS_set_err|]; apply QS_setw; exact R.
Qed.

Lemma try_lock_proj s : se0 (fst (try_lock W0 s)) = se0 s /\ snid (fst (try_lock W0 s)) = snid s.
Proof. unfold try_lock. rewrite (surjective_pairing (cas W0 0 1 s)). cbn [fst]. rewrite cas_fst. destruct (getw W0 s =? 0); split; reflexivity. Qed.

Lemma QS_lock_poll w f s : QS s -> QS (snd (fst (lock_poll W0 E0 w f s))).
Proof.
  intro Q. unfold lock_poll. destruct f as [a|].
  - pose proof (QS_acq_poll w a s Q) as R. destruct (acq_poll W0 E0 w a s) as [[a' s'] r]. exact R.
  - destruct (try_lock_proj s) as (T1 & T2). pose proof (QS_same s _ T1 T2 Q) as Q1.
    destruct (try_lock W0 s) as [s1 ok]. cbn [fst] in *. destruct ok; [exact Q1|].
    pose proof (QS_acq_poll w acq_new s1 Q1) as R. destruct (acq_poll W0 E0 w acq_new s1) as [[a' s'] r]. exact R.
Qed.

Lemma QS_lock_drop f s : QS s -> QS (lock_drop W0 E0 f s).
Proof.
  intro Q. unfold lock_drop. destruct f as [a|]; [|exact Q]. unfold acq_drop.
  rewrite (surjective_pairing (take_mutex W0 a s)). apply QS_drop_opt. apply QS_take. exact Q.
Qed.

Lemma QS_unlock s : QS s -> QS (unlock W0 E0 s).
Proof. intro Q. unfold unlock. rewrite (surjective_pairing (fetch_sub W0 1 s)). rewrite fetch_sub_fst. apply QS_notify1. apply QS_setw. exact Q. Qed.

(* ---------- (J) ---------- *)
Definition JP (s : sh) : Prop := 2 <= sw0 s -> has_notified (se0 s) = true -> sw0 s mod 2 = 0.

Lemma JP_hn_false s : has_notified (se0 s) = false -> JP s.
Proof. intros H _ H'. congruence. Qed.
Lemma JP_small s : sw0 s < 2 -> JP s.
Proof. intros H H'. lia. Qed.
Lemma JP_even s : sw0 s mod 2 = 0 -> JP s.
Proof. intros H _ _. exact H. Qed.

Lemma notified_In id s : notified id s = true -> In id (map eid (se0 s)).
Proof.
  unfold notified. destruct (ev_find id (se0 s)) as [st|] eqn:F; [|discriminate]. intros _.
  apply ev_find_In in F. apply (in_map eid) in F. exact F.
Qed.
Lemma notified_hn id s : notified id s = true -> has_notified (se0 s) = true.
Proof. unfold notified. destruct (ev_find id (se0 s)) as [[| |b]|] eqn:F; try discriminate. intros _. apply (hn_find id b). exact F. Qed.

(* the listener was notified: after its poll no entry is notified *)
Lemma hn_ready id w s : QS s -> notified id s = true -> has_notified (se0 (fst (poll_listener E0 id w s))) = false.
Proof.
  intros [A B C] N. destruct (poll_proj id w s (sorted_nodup _ A) (notified_In id s N)) as (P & _). rewrite P, N.
  unfold notified in N. destruct (ev_find id (se0 s)) as [[| |b]|] eqn:F; try discriminate.
  destruct (notified_is_head id b _ C F) as (r & -> & Hr). rewrite remove_head. exact Hr.
Qed.
Lemma hn_pending id w s : QS s -> In id (map eid (se0 s)) -> notified id s = false ->
  has_notified (se0 (fst (poll_listener E0 id w s))) = true -> has_notified (se0 s) = true.
Proof.
  intros [A B C] Hin N. destruct (poll_proj id w s (sorted_nodup _ A) Hin) as (P & _). rewrite P, N. apply hn_set_back.
Qed.
Lemma hn_do_reg w s : fresh0 s -> has_notified (se0 (do_reg w s)) = has_notified (se0 s).
Proof.
  intro F. destruct (do_reg_proj w s F) as (P & _). rewrite P, has_notified_app. rewrite hn_cons.
  cbn [is_notified est has_notified existsb orb]. apply Bool.orb_false_r.
Qed.
Lemma take_proj a s : se0 (snd (take_mutex W0 a s)) = se0 s /\ snid (snd (take_mutex W0 a s)) = snid s.
Proof. unfold take_mutex. destruct (a_mutex a && a_starved a); split; reflexivity. Qed.

Lemma JP_later w st id s : QS s -> JP s -> In id (map eid (se0 s)) -> sw0 s + 2 < USZ ->
  JP (snd (fst (later_spec w (mkAcq true (Some id) st) id s))).
Proof.
  intros Q J Hin Bd. pose proof Q as [QA QB QC]. unfold later_spec. destruct (notified id s) eqn:N; cbn [negb].
  2:{ cbn [fst snd]. intros T H. rewrite sw0_poll_listener in *. apply J; [exact T|]. apply (hn_pending id w s Q Hin N H). }
  set (s1 := fst (poll_listener E0 id w s)).
  assert (H1 : has_notified (se0 s1) = false) by (apply hn_ready; assumption).
  assert (V1 : sw0 s1 = sw0 s) by apply sw0_poll_listener.
  assert (Q1 : QS s1) by (apply QS_poll; exact Q).
  cbn [a_starved]. destruct st.
  - (* starved *)
    destruct (sw0 s mod 2 =? 0).
    + rewrite (surjective_pairing (take_mutex W0 _ _)). cbn [fst snd]. apply JP_hn_false.
      destruct (take_proj (set_lis None (mkAcq true (Some id) true)) (fst (fetch_or W0 1 s1))) as (-> & _). exact H1.
    + cbn [fst snd]. apply JP_hn_false. rewrite hn_do_reg by apply Q1. exact H1.
  - destruct (sw0 s =? 0) eqn:Z.
    + rewrite (surjective_pairing (take_mutex W0 _ _)). cbn [fst snd]. apply JP_hn_false.
      destruct (take_proj (set_lis None (mkAcq true (Some id) false)) (setw W0 1 s1)) as (-> & _). exact H1.
    + destruct (sw0 s =? 1) eqn:One.
      * assert (H2 : has_notified (se0 (fst (oracle s1))) = false) by (unfold oracle; destruct (sorc s1); exact H1).
        assert (F2 : fresh0 (fst (oracle s1))) by (apply (QS_oracle s1 Q1)).
        destruct (snd (oracle s1)); cbn [fst snd]; apply JP_hn_false.
        -- destruct (become_starved_facts (fst (oracle s1))) as (B1 & B2 & _).
           rewrite hn_do_reg by (apply (fresh0_same (fst (oracle s1))); auto). rewrite B1. exact H2.
        -- rewrite hn_do_reg by exact F2. exact H2.
      * (* somebody else is starved: by (J) the mutex is unlocked *)
        assert (T : 2 <= sw0 s) by lia.
        assert (Ev : sw0 s mod 2 = 0) by (apply J; [exact T | apply (notified_hn id); exact N]).
        set (s3 := become_starved (notify E0 1 false s1)).
        assert (Par : (sw0 s + 2) mod 2 =? 1 = false) by (rewrite plus2_mod, Ev; reflexivity).
        rewrite Par.
        destruct (become_starved_facts (notify E0 1 false s1)) as (B1 & B2 & B3 & _). fold s3 in B1, B2, B3.
        assert (V3 : sw0 s3 = sw0 s + 2) by (rewrite B3, sw0_notify, V1; apply wadd_small; exact Bd).
        assert (Q3 : QS s3) by (apply QS_become_starved; apply QS_notify1; exact Q1).
        set (s5 := notify E0 1 false (fst (listen E0 s3))).
        assert (Q5 : QS s5) by (apply QS_notify1; apply QS_listen; exact Q3).
        assert (V5 : sw0 s5 = sw0 s + 2) by (unfold s5; rewrite sw0_notify, sw0_listen; exact V3).
        destruct (notified (snid s3) s5) eqn:N5.
        -- rewrite (surjective_pairing (take_mutex W0 _ _)). cbn [fst snd]. apply JP_hn_false.
           destruct (take_proj (mkAcq true None true) (fst (fetch_or W0 1 (fst (poll_listener E0 (snid s3) w s5))))) as (-> & _).
           rewrite fetch_or_fst. change (se0 (setw W0 ?v ?x)) with (se0 x). apply hn_ready; assumption.
        -- cbn [fst snd]. apply JP_even. rewrite sw0_poll_listener, V5, plus2_mod. exact Ev.
Qed.

Lemma JP_first w s : QS s -> JP s -> sw0 s <> 0 -> sw0 s + 2 < USZ -> JP (snd (fst (first_spec w s))).
Proof.
  intros Q J NZ Bd. pose proof Q as [QA QB QC]. unfold first_spec. destruct (sw0 s =? 1) eqn:One; cbn [fst snd].
  - apply JP_small. destruct (do_reg_proj w s QB) as (_ & _ & [W _]). rewrite W. lia.
  - set (s1 := fst (listen E0 s)). destruct (become_starved_facts s1) as (B1 & B2 & B3 & _).
    assert (V : sw0 (fst (poll_listener E0 (snid s) w (become_starved s1))) = sw0 s + 2).
    { rewrite sw0_poll_listener, B3. unfold s1. rewrite sw0_listen. apply wadd_small. exact Bd. }
    intros T H. rewrite V in *. rewrite plus2_mod. apply J; [lia|].
    assert (QL : QS (become_starved s1)) by (apply QS_become_starved; apply QS_listen; exact Q).
    assert (Hin : In (snid s) (map eid (se0 (become_starved s1)))).
    { rewrite B1. unfold s1. cbn [listen fst se0 sete set_nid gete]. unfold ev_listen. rewrite map_app. apply in_or_app. right. left. reflexivity. }
    assert (NN : notified (snid s) (become_starved s1) = false).
    { unfold notified. rewrite B1. unfold s1. cbn [listen fst se0 sete set_nid gete]. unfold ev_listen.
      rewrite find_app_fresh; [reflexivity|]. intro K. apply QB in K. lia. }
    pose proof (hn_pending _ w _ QL Hin NN H) as H2. rewrite B1 in H2. unfold s1 in H2.
    cbn [listen fst se0 sete set_nid gete] in H2. rewrite hn_listen in H2. exact H2.
Qed.

Lemma minus2_mod v : 2 <= v -> (v - 2) mod 2 = v mod 2.
Proof. intro H. rewrite <- (plus2_mod (v - 2)). f_equal. lia. Qed.
Lemma odd_minus1_even v : v mod 2 = 1 -> (v - 1) mod 2 = 0.
Proof. intro H. pose proof (N.div_mod v 2). replace (v - 1) with (0 + (v / 2) * 2) by lia. rewrite N.mod_add by lia. reflexivity. Qed.

Lemma JP_lock_poll w f s : QS s -> JP s -> sw0 s + 2 < USZ ->
  (f = None \/ exists id st, f = Some (mkAcq true (Some id) st) /\ In id (map eid (se0 s))) ->
  JP (snd (fst (lock_poll W0 E0 w f s))).
Proof.
  intros Q J Bd [->|(id & st & -> & Hin)]; unfold lock_poll.
  - unfold try_lock. destruct (N.eq_dec (sw0 s) 0) as [Z|NZ].
    + rewrite (cas_ok W0 0 1 s Z). cbv beta iota zeta. change (0 =? 0) with true. cbv iota. cbn [fst snd].
      apply JP_small. cbn [sw0 setw]. lia.
    + rewrite (cas_fail W0 0 1 s NZ). cbn [getw]. cbv beta iota zeta.
      replace (sw0 s =? 0) with false by (symmetry; apply N.eqb_neq; exact NZ). cbv iota.
      rewrite (first_paths w s (q_fresh s Q) NZ).
      pose proof (JP_first w s Q J NZ Bd) as R. destruct (first_spec w s) as [[a' s'] r]. exact R.
  - rewrite (later_paths w st id s (q_fresh s Q) Hin Bd).
    pose proof (JP_later w st id s Q J Hin Bd) as R. destruct (later_spec w (mkAcq true (Some id) st) id s) as [[a' s'] r]. exact R.
Qed.

Lemma JP_lock_drop f s : QS s -> JP s -> lticket f <= sw0 s -> sw0 s < USZ -> JP (lock_drop W0 E0 f s).
Proof.
  intros Q J Tk Bd. unfold lock_drop. destruct f as [a|]; [|exact J]. unfold acq_drop.
  pose proof (take_mutex_spec W0 a s Tk Bd) as TS. destruct (take_proj a s) as (P1 & P2).
  destruct (take_mutex W0 a s) as [a' s2]. cbn [snd getw] in *. destruct TS as (V2 & _).
  intros T H. rewrite sw0_drop_listener_opt in *.
  assert (H2 : has_notified (se0 s) = true).
  { rewrite <- P1. destruct (a_lis a') as [id|]; cbn [drop_listener_opt] in H; [|exact H].
    destruct (drop_proj id s2) as (D1 & _). rewrite D1 in H. apply (hn_drop_back id). exact H. }
  cbn [lticket] in Tk. pose proof (ticket_le a) as TL. pose proof (ticket_even a) as TE.
  assert (Ev : sw0 s mod 2 = 0) by (apply J; [lia | exact H2]).
  rewrite V2. unfold ticket in *. destruct (a_mutex a && a_starved a); [rewrite minus2_mod by lia; exact Ev | rewrite N.sub_0_r; exact Ev].
Qed.

Lemma JP_unlock s : sw0 s mod 2 = 1 -> sw0 s < USZ -> JP (unlock W0 E0 s).
Proof.
  intros Od Bd. apply JP_even. unfold unlock. rewrite (surjective_pairing (fetch_sub W0 1 s)). rewrite fetch_sub_fst.
  rewrite sw0_notify. cbn [getw setw sw0]. rewrite wsub_small; [apply odd_minus1_even; exact Od | | exact Bd].
  destruct (N.eq_dec (sw0 s) 0) as [Z|NZ]; [rewrite Z in Od; discriminate | lia].
Qed.

(* ---------- the machine: (Q) and (J) in every reachable state ---------- *)
Definition OInv (x : mworld) : Prop := QS (m_sh x) /\ JP (m_sh x).

Lemma OInv_wake wk x : OInv x -> OInv (m_wake_all wk x).
Proof. auto. Qed.

Lemma step_core_OInv x o : MLive x -> WInv x -> small2 x -> OInv x -> OInv (fst (mstep_core x o)).
Proof.
  intros HX W B (Q & J). pose proof HX as (I & Sh & Av & Er & K1 & K2).
  pose proof W as (E & G & FO). pose proof (tickets_le (m_futs x)) as TL.
  assert (Bw : sw0 (m_sh x) <= usize_max / 2) by (unfold small2 in B; rewrite E; lia).
  assert (Bu : sw0 (m_sh x) + 2 < USZ). { rewrite USZ_val. change (usize_max / 2) with 9223372036854775807 in Bw. lia. }
  unfold mstep_core. destruct o; cbv beta iota zeta.
  - destruct (Nat.eqb (m_handles x) 0); [split; assumption|]. destruct arc; split; assumption.
  - destruct (alookup f (m_futs x)) as [fu|] eqn:L; [|split; assumption].
    destruct (fstatus_eqb (fm_st (mf_meta fu)) FDone || Nat.leb 4 k) eqn:V; [split; assumption|].
    apply Bool.orb_false_iff in V. destruct V as (V1 & _).
    pose proof (Sh f fu L) as S.
    assert (Hl : mf_lock fu = None \/ exists id st, mf_lock fu = Some (mkAcq true (Some id) st) /\ In id (map eid (se0 (m_sh x)))).
    { destruct (fm_st (mf_meta fu)); [left; exact S | right | discriminate].
      destruct S as (id & st & Lk). exists id, st. split; [exact Lk|].
      apply (ib_listed _ _ _ _ _ _ _ I f fu id L). unfold mlis. rewrite Lk. reflexivity. }
    pose proof (QS_lock_poll (wtag f k) (mf_lock fu) (m_sh x) Q) as Q'.
    pose proof (JP_lock_poll (wtag f k) (mf_lock fu) (m_sh x) Q J Bu Hl) as J'.
    destruct (lock_poll W0 E0 (wtag f k) (mf_lock fu) (m_sh x)) as [[l s'] r]. cbn [fst snd] in *.
    destruct r; split; assumption.
  - destruct (alookup f (m_futs x)) as [fu|] eqn:L; [|split; assumption].
    pose proof (tickets_In _ _ _ (alookup_In _ _ _ L)) as Tin. unfold ftick in Tin.
    assert (Tw : lticket (mf_lock fu) <= sw0 (m_sh x)) by (rewrite E; lia).
    assert (R : OInv (m_set_futs (aremove f (m_futs x)) (m_set_sh (lock_drop W0 E0 (mf_lock fu) (m_sh x)) x))).
    { split; cbn [m_sh m_set_futs m_set_sh]; [apply QS_lock_drop; exact Q | apply JP_lock_drop; auto; lia]. }
    destruct (mf_owns fu); exact R.
  - destruct (Nat.eqb (m_handles x) 0); [split; assumption|].
    pose proof (try_lock_spec W0 (m_sh x)) as T. destruct (try_lock_proj (m_sh x)) as (T1 & T2).
    destruct (try_lock W0 (m_sh x)) as [s' ok]. cbn [fst] in *.
    destruct T as (Ta & Tb & _). cbn [getw] in *. destruct ok.
    + destruct (Ta eq_refl) as (_ & O1).
      assert (R : OInv (mkMw s' (m_futs x) (m_guards x ++ [(m_ng x, arc)]) (m_nf x) (S (m_ng x)) (m_handles x) (m_strong x) (m_dropped x))).
      { split; cbn [m_sh]; [apply (QS_same (m_sh x)); assumption | apply JP_small; lia]. }
      destruct arc; exact R.
    + destruct (Tb eq_refl) as (_ & ->). split; assumption.
  - destruct (alookup g (m_guards x)) as [arc|] eqn:L; [|split; assumption].
    assert (Od : sw0 (m_sh x) mod 2 = 1).
    { assert (GL : length (m_guards x) = 1%nat).
      { destruct (m_guards x) as [|p [|q r]]; cbn in *; [discriminate | reflexivity | lia]. }
      rewrite E, GL. change (N.of_nat 1) with 1. apply even_plus1_odd. apply tickets_even. }
    assert (R : OInv (mkMw (unlock W0 E0 (m_sh x)) (m_futs x) (aremove g (m_guards x)) (m_nf x) (m_ng x) (m_handles x) (m_strong x) (m_dropped x))).
    { split; cbn [m_sh]; [apply QS_unlock; exact Q | apply JP_unlock; [exact Od | lia]]. }
    destruct arc; exact R.
  - split; cbn [fst m_sh m_set_sh]; [apply (QS_same (m_sh x)); auto | exact J].
  - destruct (Nat.eqb (m_handles x) 0); split; assumption.
  - destruct (Nat.eqb (m_handles x) 0); [split; assumption|].
    destruct (Nat.eqb (m_handles x) 1 && borrowed_alive x); split; assumption.
Qed.

Lemma step_OInv x o : MLive x -> WInv x -> small2 x -> OInv x -> OInv (fst (mstep x o)).
Proof.
  intros HX W B O. unfold mstep.
  set (x0 := m_set_sh (set_wk [] (m_sh x)) x).
  assert (O0 : OInv x0). { destruct O as (Q & J). split; [apply (QS_same (m_sh x)); auto | exact J]. }
  pose proof (step_core_OInv x0 o HX W B O0) as H.
  destruct (mstep_core x0 o) as [x1 r]. cbn [fst] in *. apply OInv_wake. exact H.
Qed.

Lemma OInv_init : OInv mw0.
Proof. split; [constructor; cbn; [constructor | intros id [] | reflexivity] | apply JP_small; cbn; lia]. Qed.

Lemma run_OInv_gen ops : forall x, MLive x -> WInv x -> OInv x ->
  2 * N.of_nat (length ops + length (m_futs x)) + 4 <= usize_max / 2 ->
  OInv (fold_left (fun x o => fst (mstep x o)) ops x).
Proof.
  induction ops as [|o ops IH]; intros x I W O B; cbn [fold_left]; [assumption|].
  assert (B2 : small2 x) by (unfold small2; cbn [length] in B; clear - B; lia).
  apply IH.
  - apply step_MLive; assumption.
  - apply step_WInv; [exact W | apply small2_small; exact B2].
  - apply step_OInv; assumption.
  - pose proof (futs_grow x o) as G. cbn [length] in B. clear - B G. lia.
Qed.

Theorem run_OInv ops : N.of_nat (length ops) < LIVE_BOUND -> OInv (mrun ops).
Proof.
  intro B. apply run_OInv_gen; [apply MLive_init | apply WInv_init | apply OInv_init |].
  cbn [mw0 m_futs length]. unfold LIVE_BOUND in B. change (usize_max / 2) with 9223372036854775807. clear - B. lia.
Qed.

(* ---------- (O): later operations queue behind the starved one ---------- *)
(* what one poll does to a lock future that must wait behind the entry [ida] *)
Lemma late_lock_poll w f s ida : QS s -> 2 <= sw0 s -> sw0 s + 2 < USZ -> In ida (map eid (se0 s)) ->
  (f = None \/ exists idb st, f = Some (mkAcq true (Some idb) st) /\ In idb (map eid (se0 s)) /\ (ida < idb)%nat) ->
  exists idb st s', lock_poll W0 E0 w f s = (Some (mkAcq true (Some idb) st), s', false) /\ (ida < idb)%nat.
Proof.
  intros Q T Bd Hin [->|(idb & st & -> & Hb & Lt)]; pose proof Q as [QA QB QC]; unfold lock_poll.
  - unfold try_lock. assert (NZ : sw0 s <> 0) by lia.
    rewrite (cas_fail W0 0 1 s NZ). cbn [getw]. cbv beta iota zeta.
    replace (sw0 s =? 0) with false by (symmetry; apply N.eqb_neq; exact NZ). cbv iota.
    rewrite (first_paths w s QB NZ). unfold first_spec.
    replace (sw0 s =? 1) with false by (symmetry; apply N.eqb_neq; lia).
    eexists _, _, _. split; [reflexivity|]. apply QB. exact Hin.
  - rewrite (later_paths w st idb s QB Hb Bd). unfold later_spec.
    assert (N : notified idb s = false).
    { destruct (notified idb s) eqn:N; [|reflexivity]. exfalso. unfold notified in N.
      destruct (ev_find idb (se0 s)) as [[| |b]|] eqn:F; try discriminate.
      destruct (notified_is_head idb b _ QC F) as (r & E & _). rewrite E in QA, Hin.
      pose proof (sorted_head_min _ r ida QA Hin) as M. cbn [eid] in M. lia. }
    rewrite N. cbn [negb]. eexists _, _, _. split; [reflexivity | exact Lt].
Qed.

(* the starved operation itself: it keeps its entry until the poll in which it acquires *)
Lemma own_lock_poll w s ida : QS s -> JP s -> 2 <= sw0 s -> sw0 s + 2 < USZ -> In ida (map eid (se0 s)) ->
  (exists s', lock_poll W0 E0 w (Some (mkAcq true (Some ida) true)) s = (Some (mkAcq true (Some ida) true), s', false)) \/
  snd (lock_poll W0 E0 w (Some (mkAcq true (Some ida) true)) s) = true.
Proof.
  intros Q J T Bd Hin. pose proof Q as [QA QB QC]. unfold lock_poll.
  rewrite (later_paths w true ida s QB Hin Bd). unfold later_spec. destruct (notified ida s) eqn:N; cbn [negb].
  - right. cbn [a_starved]. assert (Ev : sw0 s mod 2 = 0) by (apply J; [exact T | apply (notified_hn ida); exact N]).
    rewrite Ev. change (0 =? 0) with true. cbv iota. rewrite (surjective_pairing (take_mutex W0 _ _)). reflexivity.
  - left. eexists. reflexivity.
Qed.

Definition OrdF (a n0 : nat) (l : list (nat * mfut)) : Prop :=
  exists fa ida, alookup a l = Some fa /\ mf_lock fa = Some (mkAcq true (Some ida) true) /\ fm_st (mf_meta fa) = FPending /\
  forall b fb, (n0 <= b)%nat -> alookup b l = Some fb ->
    fm_st (mf_meta fb) <> FDone /\ forall idb, mlis fb = Some idb -> (ida < idb)%nat.
Definition GoneF (a : nat) (l : list (nat * mfut)) : Prop :=
  forall fa, alookup a l = Some fa -> fm_st (mf_meta fa) = FDone.
Definition OrdP (a n0 : nat) (x : mworld) : Prop := OrdF a n0 (m_futs x).
Definition Gone (a : nat) (x : mworld) : Prop := (a < m_nf x)%nat /\ GoneF a (m_futs x).

Definition hwake (wk : list waker) (f : mfut) : mfut := mkMfut (mf_arc f) (mf_lock f) (mf_owns f) (meta_wake wk (mf_meta f)).
Lemma st_wake wk m : fm_st (meta_wake wk m) = fm_st m.
Proof. unfold meta_wake. destruct m as [st w wo]. cbn. destruct st; try reflexivity. destruct w as [w0|]; try reflexivity. destruct (mem_nat w0 wk); reflexivity. Qed.
Lemma alookup_hwake wk k l : alookup k (map (fun p => (fst p, hwake wk (snd p))) l) = option_map (hwake wk) (alookup k l).
Proof. induction l as [|[k' v] r IH]; cbn; [reflexivity|]. destruct (Nat.eqb k k'); [reflexivity | exact IH]. Qed.

Lemma OrdF_wake wk a n0 l : OrdF a n0 l -> OrdF a n0 (map (fun p => (fst p, hwake wk (snd p))) l).
Proof.
  intros (fa & ida & L & Lk & St & H). exists (hwake wk fa), ida. rewrite alookup_hwake, L. split; [reflexivity|].
  split; [exact Lk|]. split; [cbn; rewrite st_wake; exact St|].
  intros b fb Hb Lb. rewrite alookup_hwake in Lb. destruct (alookup b l) as [fb0|] eqn:Lb0; [|discriminate].
  inversion Lb; subst. destruct (H b fb0 Hb Lb0) as (H1 & H2). split; [cbn; rewrite st_wake; exact H1 | exact H2].
Qed.
Lemma GoneF_wake wk a l : GoneF a l -> GoneF a (map (fun p => (fst p, hwake wk (snd p))) l).
Proof.
  intros H fa L. rewrite alookup_hwake in L. destruct (alookup a l) as [f0|] eqn:L0; [|discriminate].
  inversion L; subst. cbn. rewrite st_wake. apply H. exact L0.
Qed.

Lemma OrdF_update_other a n0 c f' l : c <> a -> (c < n0)%nat -> OrdF a n0 l -> OrdF a n0 (aupdate c f' l).
Proof.
  intros Na Lt (fa & ida & L & Lk & St & H). exists fa, ida. rewrite alookup_aupdate_other by auto.
  split; [exact L|]. split; [exact Lk|]. split; [exact St|].
  intros b fb Hb Lb. rewrite alookup_aupdate_other in Lb by lia. apply (H b fb Hb Lb).
Qed.

Lemma step_core_Ord a n0 x o : MLive x -> WInv x -> small2 x -> OInv x -> (a < n0)%nat ->
  OrdP a n0 x -> OrdP a n0 (fst (mstep_core x o)) \/ Gone a (fst (mstep_core x o)).
Proof.
  intros HX W B (Q & J) Lt O. pose proof HX as (I & Sh & Av & Er & K1 & K2).
  pose proof W as (E & G & FO). pose proof (tickets_le (m_futs x)) as TL.
  assert (Bw : sw0 (m_sh x) <= usize_max / 2) by (unfold small2 in B; rewrite E; lia).
  assert (Bu : sw0 (m_sh x) + 2 < USZ). { rewrite USZ_val. change (usize_max / 2) with 9223372036854775807 in Bw. lia. }
  pose proof O as (fa & ida & La & Lka & Sta & Hlate).
  assert (Ina : In ida (map eid (se0 (m_sh x)))).
  { apply (ib_listed _ _ _ _ _ _ _ I a fa ida La). unfold mlis. rewrite Lka. reflexivity. }
  assert (T2 : 2 <= sw0 (m_sh x)).
  { pose proof (tickets_In _ _ _ (alookup_In _ _ _ La)) as Tin. unfold ftick in Tin. rewrite Lka in Tin. cbn in Tin. lia. }
  assert (Anf : (a < m_nf x)%nat) by (apply K2; apply (alookup_keys _ _ _ La)).
  unfold mstep_core. destruct o; cbv beta iota zeta.
  - (* MLock *)
    destruct (Nat.eqb (m_handles x) 0); [left; exact O|].
    assert (R : OrdF a n0 (m_futs x ++ [(m_nf x, mkMfut arc lock_new arc meta0)])).
    { exists fa, ida. rewrite alookup_app, La. split; [reflexivity|]. split; [exact Lka|]. split; [exact Sta|].
      intros b fb Hb Lb. rewrite alookup_app in Lb. destruct (alookup b (m_futs x)) as [fb0|] eqn:Lb0.
      - inversion Lb; subst. apply (Hlate b fb Hb Lb0).
      - cbn in Lb. destruct (Nat.eqb b (m_nf x)); [|discriminate]. inversion Lb; subst. split; [discriminate | intros idb Hm; discriminate]. }
    left. destruct arc; exact R.
  - (* MPoll *)
    destruct (alookup f (m_futs x)) as [fu|] eqn:L; [|left; exact O].
    destruct (fstatus_eqb (fm_st (mf_meta fu)) FDone || Nat.leb 4 k) eqn:V; [left; exact O|].
    apply Bool.orb_false_iff in V. destruct V as (V1 & _).
    destruct (Nat.eq_dec f a) as [->|Na].
    + (* the starved operation itself *)
      rewrite La in L. inversion L; subst fu. rewrite Lka.
      destruct (own_lock_poll (wtag a k) (m_sh x) ida Q J T2 Bu Ina) as [(s' & ->)|R].
      * left. unfold OrdP, m_set_futs. cbn [m_futs fst]. eexists _, ida. rewrite (alookup_aupdate_same _ _ _ _ La).
        split; [reflexivity|]. split; [reflexivity|]. split; [reflexivity|].
        intros b fb Hb Lb. rewrite alookup_aupdate_other in Lb by lia. apply (Hlate b fb Hb Lb).
      * right. destruct (lock_poll W0 E0 (wtag a k) (Some (mkAcq true (Some ida) true)) (m_sh x)) as [[l s'] r].
        cbn [snd] in R. subst r. cbn [fst]. split; [exact Anf|]. unfold GoneF. cbn [m_futs].
        intros fa' L'. rewrite (alookup_aupdate_same _ _ _ _ La) in L'. inversion L'; subst. reflexivity.
    + destruct (Nat.lt_ge_cases f n0) as [Lo|Hi].
      * (* an older operation: whatever it does, the others keep their listeners *)
        left. destruct (lock_poll W0 E0 (wtag f k) (mf_lock fu) (m_sh x)) as [[l s'] r].
        destruct r; unfold OrdP, m_set_futs; cbn [m_futs fst]; apply OrdF_update_other; auto.
      * (* a later operation: it queues behind the starved one *)
        destruct (Hlate f fu Hi L) as (ND & Hid). pose proof (Sh f fu L) as S.
        assert (Hl : mf_lock fu = None \/ exists idb st, mf_lock fu = Some (mkAcq true (Some idb) st) /\ In idb (map eid (se0 (m_sh x))) /\ (ida < idb)%nat).
        { destruct (fm_st (mf_meta fu)); [left; exact S | right | contradiction].
          destruct S as (idb & st & Lk). exists idb, st. split; [exact Lk|].
          assert (Ml : mlis fu = Some idb) by (unfold mlis; rewrite Lk; reflexivity).
          split; [apply (ib_listed _ _ _ _ _ _ _ I f fu idb L Ml) | apply Hid; exact Ml]. }
        destruct (late_lock_poll (wtag f k) (mf_lock fu) (m_sh x) ida Q T2 Bu Ina Hl) as (idb & st & s' & -> & Lt').
        left. unfold OrdP, m_set_futs. cbn [m_futs fst]. exists fa, ida. rewrite alookup_aupdate_other by auto.
        split; [exact La|]. split; [exact Lka|]. split; [exact Sta|].
        intros b fb Hb Lb. destruct (Nat.eq_dec b f) as [->|Nb].
        -- rewrite (alookup_aupdate_same _ _ _ _ L) in Lb. inversion Lb; subst. cbn. split; [discriminate|].
           intros idb' Hm. unfold mlis in Hm. cbn in Hm. inversion Hm; subst. exact Lt'.
        -- rewrite alookup_aupdate_other in Lb by exact Nb. apply (Hlate b fb Hb Lb).
  - (* MDropFut *)
    destruct (alookup f (m_futs x)) as [fu|] eqn:L; [|left; exact O].
    destruct (Nat.eq_dec f a) as [->|Na].
    + right. assert (R : GoneF a (aremove a (m_futs x))) by (intros fa' L'; rewrite (alookup_aremove_same a (m_futs x) K1) in L'; discriminate).
      destruct (mf_owns fu); (split; [exact Anf | exact R]).
    + left. assert (R : OrdF a n0 (aremove f (m_futs x))).
      { exists fa, ida. rewrite alookup_aremove_other by auto. split; [exact La|]. split; [exact Lka|]. split; [exact Sta|].
        intros b fb Hb Lb. destruct (Nat.eq_dec b f) as [->|Nb].
        - rewrite (alookup_aremove_same f (m_futs x) K1) in Lb. discriminate.
        - rewrite alookup_aremove_other in Lb by exact Nb. apply (Hlate b fb Hb Lb). }
      destruct (mf_owns fu); exact R.
  - (* MTry *)
    left. destruct (Nat.eqb (m_handles x) 0); [exact O|]. destruct (try_lock W0 (m_sh x)) as [s' ok].
    destruct ok; [destruct arc|]; exact O.
  - (* MDropGuard *)
    left. destruct (alookup g (m_guards x)) as [arc|]; [|exact O]. destruct arc; exact O.
  - left. exact O.
  - left. destruct (Nat.eqb (m_handles x) 0); exact O.
  - left. destruct (Nat.eqb (m_handles x) 0); [exact O|]. destruct (Nat.eqb (m_handles x) 1 && borrowed_alive x); exact O.
Qed.

(* once the starved operation has acquired or been dropped it stays so: a completed future cannot be polled, a dropped
   one is gone, and ids are not reused *)
Lemma step_core_Gone a x o : keys_ok x -> Gone a x -> Gone a (fst (mstep_core x o)).
Proof.
  intros (K1 & K2) (Anf & H). unfold mstep_core. destruct o; cbv beta iota zeta.
  - destruct (Nat.eqb (m_handles x) 0); [split; assumption|].
    assert (R : GoneF a (m_futs x ++ [(m_nf x, mkMfut arc lock_new arc meta0)])).
    { intros fa L. rewrite alookup_app in L. destruct (alookup a (m_futs x)) as [f0|] eqn:L0; [inversion L; subst; apply H; exact L0|].
      cbn in L. destruct (Nat.eqb a (m_nf x)) eqn:Q; [apply Nat.eqb_eq in Q; lia | discriminate]. }
    destruct arc; (split; [cbn; lia | exact R]).
  - destruct (alookup f (m_futs x)) as [fu|] eqn:L; [|split; assumption].
    destruct (fstatus_eqb (fm_st (mf_meta fu)) FDone || Nat.leb 4 k) eqn:V; [split; assumption|].
    apply Bool.orb_false_iff in V. destruct V as (V1 & _).
    assert (Na : f <> a). { intros ->. rewrite (H fu L) in V1. discriminate. }
    destruct (lock_poll W0 E0 (wtag f k) (mf_lock fu) (m_sh x)) as [[l s'] r].
    destruct r; (split; [exact Anf|]); unfold m_set_futs; cbn [fst m_futs]; intros fa L'; rewrite alookup_aupdate_other in L' by auto; apply H; exact L'.
  - destruct (alookup f (m_futs x)) as [fu|] eqn:L; [|split; assumption].
    assert (R : GoneF a (aremove f (m_futs x))).
    { intros fa L'. destruct (Nat.eq_dec a f) as [->|Na]; [rewrite (alookup_aremove_same f (m_futs x) K1) in L'; discriminate|].
      rewrite alookup_aremove_other in L' by exact Na. apply H. exact L'. }
    destruct (mf_owns fu); (split; [exact Anf | exact R]).
  - destruct (Nat.eqb (m_handles x) 0); [split; assumption|]. destruct (try_lock W0 (m_sh x)) as [s' ok].
    destruct ok; [destruct arc|]; split; assumption.
  - destruct (alookup g (m_guards x)) as [arc|]; [|split; assumption]. destruct arc; split; assumption.
  - split; assumption.
  - destruct (Nat.eqb (m_handles x) 0); split; assumption.
  - destruct (Nat.eqb (m_handles x) 0); [split; assumption|]. destruct (Nat.eqb (m_handles x) 1 && borrowed_alive x); split; assumption.
Qed.

Lemma wake_all_futs wk x : m_futs (m_wake_all wk x) = map (fun p => (fst p, hwake wk (snd p))) (m_futs x).
Proof. reflexivity. Qed.

Lemma step_Ord a n0 x o : MLive x -> WInv x -> small2 x -> OInv x -> (a < n0)%nat ->
  OrdP a n0 x \/ Gone a x -> OrdP a n0 (fst (mstep x o)) \/ Gone a (fst (mstep x o)).
Proof.
  intros HX W B O Lt D. unfold mstep.
  set (x0 := m_set_sh (set_wk [] (m_sh x)) x).
  assert (O0 : OInv x0). { destruct O as (Q & J). split; [apply (QS_same (m_sh x)); auto | exact J]. }
  assert (R : OrdP a n0 (fst (mstep_core x0 o)) \/ Gone a (fst (mstep_core x0 o))).
  { destruct D as [D|D]; [apply (step_core_Ord a n0 x0 o HX W B O0 Lt D) | right; apply step_core_Gone; [apply HX | exact D]]. }
  destruct (mstep_core x0 o) as [x1 r]. cbn [fst] in *.
  destruct R as [R|(R1 & R2)]; [left | right].
  - unfold OrdP. rewrite wake_all_futs. apply OrdF_wake. exact R.
  - split; [exact R1|]. rewrite wake_all_futs. apply GoneF_wake. exact R2.
Qed.

Lemma run_Ord_gen a n0 ops : forall x, MLive x -> WInv x -> OInv x -> (a < n0)%nat ->
  2 * N.of_nat (length ops + length (m_futs x)) + 4 <= usize_max / 2 ->
  OrdP a n0 x \/ Gone a x ->
  let x' := fold_left (fun x o => fst (mstep x o)) ops x in
  (OrdP a n0 x' \/ Gone a x') /\ MLive x' /\ WInv x' /\ OInv x' /\ small2 x'.
Proof.
  induction ops as [|o ops IH]; intros x I W O Lt B D; cbn [fold_left].
  - repeat (split; [assumption|]). unfold small2. cbn [length] in B. clear - B. lia.
  - assert (B2 : small2 x) by (unfold small2; cbn [length] in B; clear - B; lia).
    apply IH.
    + apply step_MLive; assumption.
    + apply step_WInv; [exact W | apply small2_small; exact B2].
    + apply step_OInv; assumption.
    + exact Lt.
    + pose proof (futs_grow x o) as G. cbn [length] in B. clear - B G. lia.
    + apply step_Ord; assumption.
Qed.

(* a poll of a later operation does not complete while (O) holds *)
Lemma late_poll_not_ready a n0 x b k g : MLive x -> WInv x -> small2 x -> OInv x -> (a < n0)%nat -> OrdP a n0 x -> (n0 <= b)%nat ->
  o_res (snd (mstep x (MPoll b k))) <> RReady g.
Proof.
  intros HX W B O Lt D Hb. unfold mstep.
  set (x0 := m_set_sh (set_wk [] (m_sh x)) x).
  assert (O0 : OInv x0). { destruct O as (Q & J). split; [apply (QS_same (m_sh x)); auto | exact J]. }
  assert (R : snd (mstep_core x0 (MPoll b k)) <> RReady g).
  { destruct O0 as (Q & J). pose proof HX as (I & Sh & Av & Er & K1 & K2).
    pose proof W as (E & G & FO). pose proof (tickets_le (m_futs x)) as TL.
    assert (Bw : sw0 (m_sh x0) <= usize_max / 2) by (unfold small2 in B; cbn [x0 m_sh m_set_sh set_wk sw0]; rewrite E; lia).
    assert (Bu : sw0 (m_sh x0) + 2 < USZ). { rewrite USZ_val. change (usize_max / 2) with 9223372036854775807 in Bw. lia. }
    destruct D as (fa & ida & La & Lka & Sta & Hlate).
    assert (Ina : In ida (map eid (se0 (m_sh x0)))).
    { apply (ib_listed _ _ _ _ _ _ _ I a fa ida La). unfold mlis. rewrite Lka. reflexivity. }
    assert (T2 : 2 <= sw0 (m_sh x0)).
    { pose proof (tickets_In _ _ _ (alookup_In _ _ _ La)) as Tin. unfold ftick in Tin. rewrite Lka in Tin. cbn in Tin.
      cbn [x0 m_sh m_set_sh set_wk sw0]. lia. }
    unfold mstep_core. cbv beta iota zeta. change (m_futs x0) with (m_futs x).
    destruct (alookup b (m_futs x)) as [fu|] eqn:L; [|discriminate].
    destruct (fstatus_eqb (fm_st (mf_meta fu)) FDone || Nat.leb 4 k) eqn:V; [discriminate|].
    destruct (Hlate b fu Hb L) as (ND & Hid). pose proof (Sh b fu L) as S.
    assert (Hl : mf_lock fu = None \/ exists idb st, mf_lock fu = Some (mkAcq true (Some idb) st) /\ In idb (map eid (se0 (m_sh x0))) /\ (ida < idb)%nat).
    { destruct (fm_st (mf_meta fu)); [left; exact S | right | contradiction].
      destruct S as (idb & st & Lk). exists idb, st. split; [exact Lk|].
      assert (Ml : mlis fu = Some idb) by (unfold mlis; rewrite Lk; reflexivity).
      split; [apply (ib_listed _ _ _ _ _ _ _ I b fu idb L Ml) | apply Hid; exact Ml]. }
    destruct (late_lock_poll (wtag b k) (mf_lock fu) (m_sh x0) ida Q T2 Bu Ina Hl) as (idb & st & s' & -> & _).
    discriminate. }
  destruct (mstep_core x0 (MPoll b k)) as [x1 r]. cbn [snd o_res] in *. exact R.
Qed.

(* a starved operation at rest: pending, with a listener *)
Lemma starved_shape x a fa : MLive x -> WInv x -> alookup a (m_futs x) = Some fa -> ftick fa = 2 ->
  exists ida, mf_lock fa = Some (mkAcq true (Some ida) true) /\ fm_st (mf_meta fa) = FPending.
Proof.
  intros (I & Sh & _) (_ & _ & FO) L T. pose proof (Sh a fa L) as S.
  pose proof (Forall_lookup _ _ _ _ FO L) as Ok. cbn [snd] in Ok. unfold fut_ok in Ok. unfold ftick in T, Ok.
  destruct (fm_st (mf_meta fa)).
  - rewrite S in T. discriminate.
  - destruct S as (id & st & Lk). exists id. rewrite Lk in *. cbn in T. unfold ticket in T. cbn in T.
    destruct st; [split; reflexivity | discriminate].
  - rewrite Ok in T. discriminate.
Qed.

(* ---------- the theorem ---------- *)
(* A holds a starvation ticket after ops1; B is a lock operation started later (its id is not yet in use after ops1);
   as long as A still holds its ticket — it has neither acquired the mutex nor been dropped — no poll of B completes. *)
Theorem mutex_starved_order (ops1 ops2 : list mop) (a b k g : nat) (fa fa' : mfut) :
  N.of_nat (length (ops1 ++ ops2)) < LIVE_BOUND ->
  alookup a (m_futs (mrun ops1)) = Some fa -> ftick fa = 2 ->
  (m_nf (mrun ops1) <= b)%nat ->
  alookup a (m_futs (mrun (ops1 ++ ops2))) = Some fa' -> ftick fa' = 2 ->
  o_res (snd (mstep (mrun (ops1 ++ ops2)) (MPoll b k))) <> RReady g.
Proof.
  intros B La Ta Hb La' Ta'. rewrite app_length in B.
  assert (B1 : N.of_nat (length ops1) < LIVE_BOUND) by lia.
  destruct (run_MLive ops1 B1) as (I1 & W1). pose proof (run_OInv ops1 B1) as O1.
  set (x1 := mrun ops1) in *.
  destruct (starved_shape x1 a fa I1 W1 La Ta) as (ida & Lk & St).
  assert (Anf : (a < m_nf x1)%nat) by (apply I1; apply (alookup_keys _ _ _ La)).
  assert (D1 : OrdP a (m_nf x1) x1).
  { exists fa, ida. split; [exact La|]. split; [exact Lk|]. split; [exact St|].
    intros b0 fb Hb0 Lb. apply alookup_keys in Lb. apply I1 in Lb. lia. }
  assert (Bg : 2 * N.of_nat (length ops2 + length (m_futs x1)) + 4 <= usize_max / 2).
  { pose proof (run_futs ops1 mw0) as FL. fold (mrun ops1) in FL. fold x1 in FL. cbn [mw0 m_futs length] in FL. unfold LIVE_BOUND in B. change (usize_max / 2) with 9223372036854775807. lia. }
  destruct (run_Ord_gen a (m_nf x1) ops2 x1 I1 W1 O1 Anf Bg (or_introl D1)) as (D2 & I2 & W2 & O2 & S2).
  unfold mrun. rewrite fold_left_app. fold (mrun ops1). fold x1.
  unfold mrun in La'. rewrite fold_left_app in La'. fold (mrun ops1) in La'. fold x1 in La'.
  set (x2 := fold_left (fun x o => fst (mstep x o)) ops2 x1) in *.
  destruct D2 as [D2|(_ & D2)].
  - apply (late_poll_not_ready a (m_nf x1) x2 b k g I2 W2 S2 O2 Anf D2 Hb).
  - exfalso. pose proof (D2 fa' La') as Dn. destruct W2 as (_ & _ & FO).
    pose proof (Forall_lookup _ _ _ _ FO La') as Ok. cbn [snd] in Ok. unfold fut_ok in Ok. rewrite Dn in Ok. rewrite Ok in Ta'. discriminate.
Qed.
