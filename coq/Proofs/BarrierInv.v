(* BarrierInv.v — src/barrier.rs: what one poll of a BarrierWait does (path by path), the at-rest
   invariant, refinement to an abstract barrier (C09), liveness of released generations. *)
From AL Require Import Base Api Mutex BarrierApi BaseFacts ApiFacts EventFacts MutexWord MutexPaths.
From Coq Require Import Lia.

Arguments bar_loop : simpl never.
Arguments lock_poll : simpl never.
Arguments lock_drop : simpl never.
Arguments unlock : simpl never.
Arguments notify : simpl never.
Arguments listen : simpl never.
Arguments poll_listener : simpl never.

Lemma bar_S fuel n w f s : bar_loop (S fuel) n w f s =
      match b_state f with
      | BInit =>
          match b_lock f with
          | None => BFuel f (set_err s)
          | Some l =>
              let '(l, s, r) := lock_poll W0 E0 w l s in
              if negb r then BPending (mkBf (Some l) (b_evl f) BInit) s
              else
                let s := lock_drop W0 E0 l s in
                let g := getw W2 s in
                let c := wadd (getw W1 s) 1 in
                let s := setw W1 c s in
                if c <? n then
                  let '(s, id) := listen E1 s in
                  let s := drop_listener_opt E1 (b_evl f) s in
                  let s := unlock W0 E0 s in
                  bar_loop fuel n w (mkBf None (Some id) (BWaiting g)) s
                else
                  let s := setw W1 0 s in
                  let s := setw W2 (wadd g 1) s in
                  let s := notify E1 usize_max false s in
                  let s := unlock W0 E0 s in
                  BReady true (mkBf None (b_evl f) BInit) s
          end
      | BWaiting g =>
          match b_evl f with
          | None => BFuel f (set_err s)
          | Some id =>
              let '(s, r) := poll_listener E1 id w s in
              if negb r then BPending f s
              else
                let s := drop_lock_opt (b_lock f) s in
                bar_loop fuel n w (mkBf (Some lock_new) None (BReacq g)) s
          end
      | BReacq g =>
          match b_lock f with
          | None => BFuel f (set_err s)
          | Some l =>
              let '(l, s, r) := lock_poll W0 E0 w l s in
              if negb r then BPending (mkBf (Some l) (b_evl f) (BReacq g)) s
              else
                let s := lock_drop W0 E0 l s in
                if (g =? getw W2 s) && (getw W1 s <? n) then
                  let '(s, id) := listen E1 s in
                  let s := drop_listener_opt E1 (b_evl f) s in
                  let s := unlock W0 E0 s in
                  bar_loop fuel n w (mkBf None (Some id) (BWaiting g)) s
                else
                  BReady false (mkBf None (b_evl f) (BReacq g)) (unlock W0 E0 s)
          end
      end.
Proof. reflexivity. Qed.

(* the state mutex is free between polls: lock() takes the fast path, unlock() finds nobody to notify *)
Lemma lock_fast w s : sw0 s = 0 -> lock_poll W0 E0 w None s = (None, setw W0 1 s, true).
Proof. intro Z. unfold lock_poll, try_lock, cas. cbn [getw]. rewrite Z. reflexivity. Qed.

Lemma wsub_1_1 : wsub 1 1 = 0. Proof. reflexivity. Qed.

Lemma unlock_fast s : sw0 s = 1 -> se0 s = [] -> unlock W0 E0 s = setw W0 0 s.
Proof.
  intros O Ev. unfold unlock, fetch_sub, notify. cbn [getw gete]. rewrite O, wsub_1_1.
  destruct s; cbn in *; subst. unfold ev_notify. cbn. destruct (1 <? N.of_nat 0); cbn; rewrite app_nil_r; reflexivity.
Qed.

Definition fresh1 (s : sh) : Prop := forall id, In id (map eid (se1 s)) -> (id < snid s)%nat.

(* listen on E1, release the mutex, poll the fresh listener: Pending *)
Definition reg (w : waker) (g : N) (s : sh) : bres :=
  BPending (mkBf None (Some (snid s)) (BWaiting g))
           (set_nid (S (snid s)) (sete E1 (se1 s ++ [mkEntry (snid s) (Task w)]) s)).

Definition bar_spec (n : N) (w : waker) (f : bfutst) (s : sh) : bres :=
  match b_state f with
  | BInit =>
      let c := wadd (sw1 s) 1 in
      if c <? n then reg w (sw2 s) (setw W1 c s)
      else BReady true (mkBf None None BInit) (notify E1 usize_max false (setw W2 (wadd (sw2 s) 1) (setw W1 0 s)))
  | BWaiting g =>
      match b_evl f with
      | Some id =>
          match ev_find id (se1 s) with
          | Some (Notified _) =>
              let s1 := sete E1 (ev_remove id (se1 s)) s in
              if (g =? sw2 s) && (sw1 s <? n) then reg w g s1
              else BReady false (mkBf None None (BReacq g)) s1
          | Some _ => BPending f (sete E1 (ev_set id (Task w) (se1 s)) s)
          | None => BPending f (set_err s)
          end
      | None => BFuel f (set_err s)
      end
  | BReacq g => BFuel f (set_err s)
  end.

Lemma find_app_fresh id l st : ~ In id (map eid l) -> ev_find id (l ++ [mkEntry id st]) = Some st.
Proof.
  induction l as [|e r IH]; cbn; intro N.
  - rewrite Nat.eqb_refl. reflexivity.
  - destruct (Nat.eqb (eid e) id) eqn:E; [apply Nat.eqb_eq in E; exfalso; apply N; left; exact E|].
    apply IH. intro H. apply N. right. exact H.
Qed.
Lemma set_app_fresh id st st' l : ~ In id (map eid l) -> ev_set id st' (l ++ [mkEntry id st]) = l ++ [mkEntry id st'].
Proof.
  induction l as [|e r IH]; cbn; intro N.
  - rewrite Nat.eqb_refl. reflexivity.
  - destruct (Nat.eqb (eid e) id) eqn:E; [apply Nat.eqb_eq in E; exfalso; apply N; left; exact E|].
    f_equal. apply IH. intro H. apply N. right. exact H.
Qed.

(* holding the mutex: listen, unlock, first poll of the listener *)
Lemma reg_path fuel n w g s : sw0 s = 1 -> se0 s = [] -> fresh1 s ->
  (let '(s1, id) := listen E1 s in
   bar_loop (S fuel) n w (mkBf None (Some id) (BWaiting g)) (unlock W0 E0 (drop_listener_opt E1 None s1))) = reg w g (setw W0 0 s).
Proof.
  intros O Ev F. unfold listen. cbv beta iota zeta. cbn [drop_listener_opt gete].
  rewrite unlock_fast by assumption. rewrite bar_S. cbn [b_state b_evl].
  unfold poll_listener, ev_poll, ev_listen. cbn [gete se1 setw set_nid sete].
  assert (NF : ~ In (snid s) (map eid (se1 s))) by (intro H; apply F in H; lia).
  destruct s; cbn in *; subst. rewrite (find_app_fresh _ _ _ NF), (set_app_fresh _ _ _ _ NF). reflexivity.
Qed.

Lemma bar_poll_paths n w f s : sw0 s = 0 -> se0 s = [] -> fresh1 s ->
  (b_state f = BInit -> b_lock f = Some None /\ b_evl f = None) ->
  (forall g, b_state f = BWaiting g -> b_lock f = None /\ exists id, b_evl f = Some id /\ ev_find id (se1 s) <> None) ->
  (forall g, b_state f <> BReacq g) ->
  bar_loop BFUEL n w f s = bar_spec n w f s.
Proof.
  intros Z Ev F HI HW HR. unfold bar_spec. change BFUEL with (S (S (S 5))).
  destruct f as [lk evl st]. cbn [b_state b_lock b_evl] in *. destruct st as [|g|g].
  - destruct (HI eq_refl) as (-> & ->). rewrite bar_S. cbn [b_state b_lock b_evl].
    rewrite (lock_fast w s Z). cbv beta iota zeta. cbn [negb lock_drop getw].
    change (lock_drop W0 E0 None (setw W0 1 s)) with (setw W0 1 s).
    change (sw1 (setw W0 1 s)) with (sw1 s). change (sw2 (setw W0 1 s)) with (sw2 s).
    destruct (wadd (sw1 s) 1 <? n).
    + rewrite (reg_path 6 n w (sw2 s) (setw W1 (wadd (sw1 s) 1) (setw W0 1 s))); [|reflexivity | exact Ev | exact F].
      destruct s; cbn in *; subst. reflexivity.
    + rewrite unlock_fast; [|rewrite sw0_notify; reflexivity|].
      * unfold notify. cbn [gete setw se1]. destruct (ev_notify usize_max false (se1 s)) as [l ws]. destruct s; cbn in *; subst; reflexivity.
      * unfold notify. cbn [gete setw se1]. destruct (ev_notify usize_max false (se1 s)) as [l ws]. destruct s; cbn in *; subst; reflexivity.
  - destruct (HW g eq_refl) as (-> & id & -> & Fd). rewrite bar_S. cbn [b_state b_lock b_evl].
    unfold poll_listener, ev_poll. cbn [gete].
    destruct (ev_find id (se1 s)) as [[|w0|a]|] eqn:Q; [reflexivity | reflexivity | | contradiction].
    cbv beta iota zeta. cbn [negb drop_lock_opt].
    set (s1 := sete E1 (ev_remove id (se1 s)) s).
    assert (Z1 : sw0 s1 = 0) by exact Z. assert (Ev1 : se0 s1 = []) by exact Ev.
    rewrite bar_S. cbn [b_state b_lock b_evl]. unfold lock_new. rewrite (lock_fast w s1 Z1). cbv beta iota zeta. cbn [negb getw].
    change (lock_drop W0 E0 None (setw W0 1 s1)) with (setw W0 1 s1).
    change (sw1 (setw W0 1 s1)) with (sw1 s). change (sw2 (setw W0 1 s1)) with (sw2 s).
    destruct ((g =? sw2 s) && (sw1 s <? n)).
    + rewrite (reg_path 5 n w g (setw W0 1 s1)); [|reflexivity | exact Ev1 |].
      * unfold s1. destruct s; cbn in *; subst. reflexivity.
      * intros x Hx. unfold s1 in Hx. cbn in Hx. apply ids_remove_incl in Hx. apply F in Hx. exact Hx.
    + rewrite unlock_fast; [|reflexivity | exact Ev1]. unfold s1. destruct s; cbn in *; subst. reflexivity.
  - exfalso. apply (HR g). reflexivity.
Qed.

(* ---------- "this listener has been notified" and how event operations keep it ---------- *)
Definition notif (id : nat) (l : event) : Prop := exists a, ev_find id l = Some (Notified a).

Lemma notif_app id l r : notif id l -> notif id (l ++ r).
Proof.
  intros (a & H). exists a. induction l as [|e l IH]; cbn in *; [discriminate|].
  destruct (Nat.eqb (eid e) id); [exact H | apply IH; exact H].
Qed.
Lemma notif_set_other id id' st l : id <> id' -> notif id l -> notif id (ev_set id' st l).
Proof.
  intros N (a & H). exists a. induction l as [|e l IH]; cbn in *; [discriminate|].
  destruct (Nat.eqb (eid e) id') eqn:Q'.
  - apply Nat.eqb_eq in Q'. cbn. destruct (Nat.eqb (eid e) id) eqn:Q; [apply Nat.eqb_eq in Q; congruence|].
    destruct (Nat.eqb id' id) eqn:Q2; [apply Nat.eqb_eq in Q2; congruence | exact H].
  - cbn. destruct (Nat.eqb (eid e) id); [exact H | apply IH; exact H].
Qed.
Lemma notif_remove_other id id' l : id <> id' -> notif id l -> notif id (ev_remove id' l).
Proof.
  intros N (a & H). exists a. induction l as [|e l IH]; cbn in *; [discriminate|].
  destruct (Nat.eqb (eid e) id') eqn:Q'.
  - apply Nat.eqb_eq in Q'. destruct (Nat.eqb (eid e) id) eqn:Q; [apply Nat.eqb_eq in Q; congruence | exact H].
  - cbn. destruct (Nat.eqb (eid e) id); [exact H | apply IH; exact H].
Qed.
Lemma notif_upd add ws id l l' : Forall2 (upd add ws) l l' -> notif id l -> notif id l'.
Proof.
  intros R (a & H). induction R as [|e e' r r' U _ IH]; cbn in *; [discriminate|].
  unfold notif in *. cbn [ev_find].
  destruct U as [->|(Nn & -> & _)].
  - destruct (Nat.eqb (eid e) id); [exists a; exact H | apply IH; exact H].
  - cbn. destruct (Nat.eqb (eid e) id); [eexists; reflexivity | apply IH; exact H].
Qed.
Lemma notif_notify n add id l : notif id l -> notif id (fst (ev_notify n add l)).
Proof. intro H. pose proof (notify_rel n add l) as R. destruct (ev_notify n add l) as [l' ws]. cbn. apply (notif_upd add ws id l l' R H). Qed.
Lemma notif_drop_other id id' l : id <> id' -> notif id l -> notif id (fst (ev_drop id' l)).
Proof.
  intros N H. unfold ev_drop. destruct (ev_find id' l) as [[|w|a]|]; cbn [fst]; try (apply notif_remove_other; assumption); [|exact H].
  apply notif_notify. apply notif_remove_other; assumption.
Qed.

(* notify(usize::MAX) reaches every entry *)
Lemma count_le_length l : (count_notified l <= length l)%nat.
Proof. induction l as [|e r IH]; cbn; [lia|]. destruct (is_notified e); lia. Qed.
Lemma mark_all add k l id : N.of_nat (length l) <= k + N.of_nat (count_notified l) -> In id (ids l) -> notif id (fst (mark add k l)).
Proof.
  revert k. induction l as [|e r IH]; intros k B Hi; [destruct Hi|]. cbn [mark]. cbn [length count_notified] in B.
  destruct (is_notified e) eqn:Ne; cbv iota in B.
  - specialize (IH k). destruct (mark add k r) as [r' ws]. cbn [fst]. unfold notif. cbn [ev_find].
    destruct (Nat.eqb (eid e) id) eqn:Q.
    + unfold is_notified in Ne. destruct (est e) as [| |a]; try discriminate. exists a. reflexivity.
    + apply IH; [lia|]. destruct Hi as [Hi|Hi]; [apply Nat.eqb_neq in Q; contradiction | exact Hi].
  - destruct (k =? 0) eqn:Z; [apply N.eqb_eq in Z; pose proof (count_le_length r); lia|]. apply N.eqb_neq in Z. specialize (IH (k - 1)). destruct (mark add (k - 1) r) as [r' ws]. cbn [fst]. unfold notif. cbn [ev_find eid].
    destruct (Nat.eqb (eid e) id) eqn:Q; [eexists; reflexivity|].
    apply IH; [lia|]. destruct Hi as [Hi|Hi]; [apply Nat.eqb_neq in Q; contradiction | exact Hi].
Qed.
Lemma notify_all n l id : N.of_nat (length l) <= n -> In id (ids l) -> notif id (fst (ev_notify n false l)).
Proof.
  intros B Hi. unfold ev_notify. pose proof (count_le_length l) as C.
  destruct (n <? N.of_nat (count_notified l)) eqn:Q; [lia|]. apply mark_all; [lia | exact Hi].
Qed.

Lemma NoDup_bound (l : list nat) n : NoDup l -> (forall x, In x l -> (x < n)%nat) -> (length l <= n)%nat.
Proof.
  intros ND H. assert (I : incl l (seq 0 n)) by (intros x Hx; apply in_seq; specialize (H x Hx); lia).
  pose proof (NoDup_incl_length ND I) as L. rewrite seq_length in L. exact L.
Qed.

(* ---------- the abstract barrier ---------- *)
Inductive afut := AUn | AWait (g : N) | ADone.
Record aspec := mkA { a_gen : N; a_cnt : N; a_futs : list (nat * afut); a_nf : nat }.
Definition a_init : aspec := mkA 0 0 [] 0.

(* a wait "arrives" at its first poll. The n-th arrival of a generation is the leader and opens the next
   generation; an earlier arrival waits for exactly that; nothing else ever completes a wait. *)
Definition astep (n : N) (a : aspec) (o : bop) : aspec * res :=
  match o with
  | BStart => (mkA (a_gen a) (a_cnt a) (a_futs a ++ [(a_nf a, AUn)]) (S (a_nf a)), RUnit)
  | BPoll fid k =>
      match alookup fid (a_futs a) with
      | None => (a, RInvalid)
      | Some f =>
          if Nat.leb 4 k then (a, RInvalid) else
          match f with
          | ADone => (a, RInvalid)
          | AUn =>
              if a_cnt a + 1 <? n
              then (mkA (a_gen a) (a_cnt a + 1) (aupdate fid (AWait (a_gen a)) (a_futs a)) (a_nf a), RPending)
              else (mkA (a_gen a + 1) 0 (aupdate fid ADone (a_futs a)) (a_nf a), RLeader true)
          | AWait g =>
              if g =? a_gen a then (a, RPending)
              else (mkA (a_gen a) (a_cnt a) (aupdate fid ADone (a_futs a)) (a_nf a), RLeader false)
          end
      end
  | BDropFut fid =>
      match alookup fid (a_futs a) with
      | None => (a, RInvalid)
      | Some _ => (mkA (a_gen a) (a_cnt a) (aremove fid (a_futs a)) (a_nf a), RUnit)
      end
  end.
Definition arun (n : N) (ops : list bop) : aspec := fold_left (fun a o => fst (astep n a o)) ops a_init.
Fixpoint atrace (n : N) (a : aspec) (ops : list bop) : list res :=
  match ops with [] => [] | o :: r => let '(a', x) := astep n a o in x :: atrace n a' r end.

Definition abs_fut (f : bfut) : afut :=
  match fm_st (bf_meta f) with
  | FUnpolled => AUn
  | FDone => ADone
  | FPending => match b_state (bf_st f) with BWaiting g => AWait g | _ => AUn end
  end.
Definition amap (l : list (nat * bfut)) : list (nat * afut) := map (fun p => (fst p, abs_fut (snd p))) l.
Definition abs (x : bworld) : aspec := mkA (sw2 (b_sh x)) (sw1 (b_sh x)) (amap (b_futs x)) (b_nf x).

Lemma amap_aupdate k v l : amap (aupdate k v l) = aupdate k (abs_fut v) (amap l).
Proof. unfold amap. induction l as [|[k' v'] l IH]; cbn; [reflexivity|]. destruct (Nat.eqb k k'); cbn; [reflexivity | rewrite IH; reflexivity]. Qed.
Lemma amap_aremove k l : amap (aremove k l) = aremove k (amap l).
Proof. unfold amap. induction l as [|[k' v'] l IH]; cbn; [reflexivity|]. destruct (Nat.eqb k k'); cbn; [reflexivity | rewrite IH; reflexivity]. Qed.
Lemma amap_lookup k l : alookup k (amap l) = option_map abs_fut (alookup k l).
Proof. apply alookup_map. Qed.

(* ---------- the at-rest invariant ---------- *)
Definition blis (f : bfut) : option nat := b_evl (bf_st f).
Definition blook (x : bworld) : look_t bfut := fun k => alookup k (b_futs x).

Definition fshape (n : N) (s : sh) (f : bfut) : Prop :=
  match fm_st (bf_meta f) with
  | FUnpolled => bf_st f = mkBf (Some None) None BInit
  | FPending => exists id g, bf_st f = mkBf None (Some id) (BWaiting g) /\ g <= sw2 s /\
                             (g < sw2 s -> notif id (se1 s)) /\ (g = sw2 s -> sw1 s < n)
  | FDone => b_lock (bf_st f) = None /\ b_evl (bf_st f) = None
  end.
Definition bshape (x : bworld) : Prop := forall fid f, alookup fid (b_futs x) = Some f -> fshape (b_n x) (b_sh x) f.
Definition bkeys (x : bworld) : Prop :=
  NoDup (map fst (b_futs x)) /\ (forall k, In k (map fst (b_futs x)) -> (k < b_nf x)%nat).

Definition BInvW (wk : list waker) (x : bworld) : Prop :=
  sw0 (b_sh x) = 0 /\ se0 (b_sh x) = [] /\ serr (b_sh x) = false /\
  (sw1 (b_sh x) < b_n x \/ sw1 (b_sh x) = 0) /\
  InvB bfut blis bf_meta wk (se1 (b_sh x)) (snid (b_sh x)) (blook x) /\
  bshape x /\ bkeys x.
Definition BInv (x : bworld) : Prop := BInvW [] x.

(* room left before the generation counter or the listener ids could wrap *)
Definition broom (x : bworld) : Prop := sw2 (b_sh x) + 1 < USZ /\ N.of_nat (snid (b_sh x)) < usize_max /\ b_n x < USZ.

Definition quiescent (x : bworld) : Prop :=
  forall fid f, alookup fid (b_futs x) = Some f -> ~ (fm_st (bf_meta f) = FPending /\ fm_woken (bf_meta f) = true).

(* shapes of other futures survive a change of the store that keeps the generation and their notification *)
Lemma fshape_mono n s s' f :
  sw2 s' = sw2 s -> (sw1 s' = sw1 s \/ sw1 s' < n) ->
  (forall id, blis f = Some id -> notif id (se1 s) -> notif id (se1 s')) ->
  fshape n s f -> fshape n s' f.
Proof.
  intros G C Nt Sh. unfold fshape in *. destruct (fm_st (bf_meta f)); auto.
  destruct Sh as (id & g & St & Le & No & Cn). exists id, g. rewrite G.
  split; [exact St|]. split; [exact Le|]. split.
  - intro H. apply Nt; [unfold blis; rewrite St; reflexivity | apply No; exact H].
  - intro H. destruct C as [->|C]; [apply Cn; exact H | exact C].
Qed.

Lemma aupdate_id {A} k (v : A) l : alookup k l = Some v -> aupdate k v l = l.
Proof.
  induction l as [|[k' v'] l IH]; cbn; [reflexivity|]. destruct (Nat.eqb k k') eqn:Q.
  - intro H. inversion H; subst. apply Nat.eqb_eq in Q. subst. reflexivity.
  - intro H. rewrite IH by exact H. reflexivity.
Qed.

Lemma se1_drop_opt o s : se1 (drop_listener_opt E1 o s) = fst (ev_drop_opt o (se1 s)).
Proof. destruct o as [id|]; [|reflexivity]. unfold drop_listener_opt, drop_listener, ev_drop_opt. cbn [gete]. destruct (ev_drop id (se1 s)); reflexivity. Qed.
Lemma swk_drop_opt1 o s : swk (drop_listener_opt E1 o s) = swk s ++ snd (ev_drop_opt o (se1 s)).
Proof.
  destruct o as [id|]; [|unfold drop_listener_opt, ev_drop_opt; cbn; rewrite app_nil_r; reflexivity].
  unfold drop_listener_opt, drop_listener, ev_drop_opt. cbn [gete]. destruct (ev_drop id (se1 s)); reflexivity.
Qed.
Lemma rest_drop_opt1 o s :
  snid (drop_listener_opt E1 o s) = snid s /\ serr (drop_listener_opt E1 o s) = serr s /\ sw0 (drop_listener_opt E1 o s) = sw0 s /\
  sw1 (drop_listener_opt E1 o s) = sw1 s /\ sw2 (drop_listener_opt E1 o s) = sw2 s /\ se0 (drop_listener_opt E1 o s) = se0 s.
Proof. destruct o as [id|]; [|repeat split]. unfold drop_listener_opt, drop_listener. cbn [gete]. destruct (ev_drop id (se1 s)); repeat split. Qed.
Lemma notify1_world n a s :
  se1 (notify E1 n a s) = fst (ev_notify n a (se1 s)) /\ swk (notify E1 n a s) = swk s ++ snd (ev_notify n a (se1 s)) /\
  snid (notify E1 n a s) = snid s /\ serr (notify E1 n a s) = serr s /\ sw0 (notify E1 n a s) = sw0 s /\
  sw1 (notify E1 n a s) = sw1 s /\ sw2 (notify E1 n a s) = sw2 s /\ se0 (notify E1 n a s) = se0 s.
Proof. unfold notify. cbn [gete]. destruct (ev_notify n a (se1 s)); repeat split. Qed.

Lemma spec_idle n w id g s st : ev_find id (se1 s) = Some st -> (forall a, st <> Notified a) ->
  bar_spec n w (mkBf None (Some id) (BWaiting g)) s =
  BPending (mkBf None (Some id) (BWaiting g)) (sete E1 (ev_set id (Task w) (se1 s)) s).
Proof. intros Fd NN. unfold bar_spec. cbn [b_state b_evl]. rewrite Fd. destruct st as [|w0|a]; try reflexivity. exfalso. apply (NN a). reflexivity. Qed.
Lemma spec_notified n w id g s a : ev_find id (se1 s) = Some (Notified a) ->
  bar_spec n w (mkBf None (Some id) (BWaiting g)) s =
  if (g =? sw2 s) && (sw1 s <? n) then reg w g (sete E1 (ev_remove id (se1 s)) s)
  else BReady false (mkBf None None (BReacq g)) (sete E1 (ev_remove id (se1 s)) s).
Proof. intros Fd. unfold bar_spec. cbn [b_state b_evl]. rewrite Fd. reflexivity. Qed.

Definition step_ok (x x1 : bworld) (r : res) (o : bop) : Prop :=
  BInvW (swk (b_sh x1)) x1 /\ abs x1 = fst (astep (b_n x) (abs x) o) /\ r = snd (astep (b_n x) (abs x) o) /\
  b_n x1 = b_n x /\ sw2 (b_sh x1) <= sw2 (b_sh x) + 1 /\ (snid (b_sh x1) <= S (snid (b_sh x)))%nat.

Lemma other_id x wk fid fu id g fg idg :
  InvB bfut blis bf_meta wk (se1 (b_sh x)) (snid (b_sh x)) (blook x) ->
  alookup fid (b_futs x) = Some fu -> blis fu = Some id -> g <> fid -> alookup g (b_futs x) = Some fg -> blis fg = Some idg -> idg <> id.
Proof. intros I L Ls N Lg Sg Q. subst idg. apply N. apply (ib_inj _ _ _ _ _ _ _ I g fid fg fu id); assumption. Qed.

Lemma look_aupd x fid f' : forall g, g <> fid -> alookup g (aupdate fid f' (b_futs x)) = blook x g.
Proof. intros g N. apply alookup_aupdate_other. exact N. Qed.

Lemma same_ok x : BInv x -> swk (b_sh x) = [] ->
  BInvW (swk (b_sh x)) x /\ abs x = abs x /\ RInvalid = RInvalid /\ b_n x = b_n x /\ sw2 (b_sh x) <= sw2 (b_sh x) + 1 /\ (snid (b_sh x) <= S (snid (b_sh x)))%nat.
Proof. intros H WK. rewrite WK. split; [exact H|]. repeat split; try reflexivity; clear; lia. Qed.

Ltac simpl_sh := cbn [sw0 sw1 sw2 se0 se1 se2 snid sorc swk serr set_nid sete setw set_wk set_err b_sh b_futs b_nf b_n b_upd bf_meta fm_st bf_st].

Lemma step_core_ok x o : BInv x -> broom x -> swk (b_sh x) = [] ->
  step_ok x (fst (bstep_core x o)) (snd (bstep_core x o)) o.
Proof.
  intros HX (Rg & Rn & Rb) WK. pose proof HX as (Z & Ev & Er & Cn & I & Sh & K1 & K2).
  assert (Fr : fresh1 (b_sh x)) by exact (ib_fresh _ _ _ _ _ _ _ I).
  assert (C1 : wadd (sw1 (b_sh x)) 1 = sw1 (b_sh x) + 1) by (apply wadd_small; clear - Cn Rb; rewrite USZ_val in *; lia).
  assert (G1 : wadd (sw2 (b_sh x)) 1 = sw2 (b_sh x) + 1) by (apply wadd_small; exact Rg).
  unfold step_ok, bstep_core. destruct o as [|fid k|fid]; cbv beta iota zeta.
  - (* BStart *)
    cbn [fst snd b_sh b_n]. rewrite WK.
    assert (NK : alookup (b_nf x) (b_futs x) = None) by (apply alookup_not_key; intro H; apply K2 in H; lia).
    split; [|split; [|split; [reflexivity | split; [reflexivity | split; [simpl_sh; clear; lia | simpl_sh; clear; lia]]]]].
    + unfold BInvW, blook, bshape, bkeys. cbn [b_sh b_futs b_nf b_n].
      split; [exact Z|]. split; [exact Ev|]. split; [exact Er|]. split; [exact Cn|]. split; [|split].
      * apply (InvB_frame bfut blis bf_meta [] _ _ (blook x) _ (b_nf x)); auto.
        -- intros f L. unfold blook in L. congruence.
        -- intros g N. rewrite alookup_app. unfold blook. destruct (alookup g (b_futs x)); [reflexivity|].
           cbn. destruct (Nat.eqb g (b_nf x)) eqn:Q; [apply Nat.eqb_eq in Q; contradiction | reflexivity].
        -- intros f' L. rewrite alookup_app, NK in L. cbn in L. rewrite Nat.eqb_refl in L. inversion L. reflexivity.
      * intros g f L. rewrite alookup_app in L. destruct (alookup g (b_futs x)) eqn:Q; [inversion L; subst; apply (Sh g f Q)|].
        cbn in L. destruct (Nat.eqb g (b_nf x)); inversion L; subst. reflexivity.
      * split.
        -- rewrite map_app. cbn. apply NoDup_app_fresh; [exact K1|]. intro H. apply K2 in H. lia.
        -- intros k Hk. rewrite map_app in Hk. apply in_app_or in Hk. destruct Hk as [Hk|[<-|[]]]; [specialize (K2 k Hk); lia | cbn; lia].
    + unfold abs, amap. cbn [b_sh b_futs b_nf astep a_gen a_cnt a_futs a_nf fst]. rewrite map_app. reflexivity.
  - (* BPoll *)
    cbn [astep]. rewrite (amap_lookup fid (b_futs x) : alookup fid (a_futs (abs x)) = _).
    destruct (alookup fid (b_futs x)) as [fu|] eqn:L; cbn [option_map].
    2:{ cbn [fst snd]. exact (same_ok x HX WK). }
    pose proof (Sh fid fu L) as SP. unfold fshape in SP.
    destruct (fm_st (bf_meta fu)) eqn:St; cbn [fstatus_eqb orb].
    + (* first poll: the wait arrives *)
      assert (AF : abs_fut fu = AUn) by (unfold abs_fut; rewrite St; reflexivity). rewrite AF.
      destruct (Nat.leb 4 k); [cbn [fst snd]; exact (same_ok x HX WK)|].
      rewrite bar_poll_paths; [|exact Z | exact Ev | exact Fr | | |]; rewrite SP; cbn [b_state b_lock b_evl]; [|auto | intros g Q; discriminate | intros g Q; discriminate].
      unfold bar_spec. cbn [b_state]. rewrite C1. cbn [a_cnt a_gen abs].
      destruct (sw1 (b_sh x) + 1 <? b_n x) eqn:LT.
      * (* registers and waits *)
        unfold reg. cbn [fst snd b_sh b_upd b_n swk set_nid sete setw snid se1 sw1 sw2].
        rewrite WK.
        split; [|split; [|split; [reflexivity | split; [reflexivity | split; [simpl_sh; clear; lia | simpl_sh; clear; lia]]]]].
        -- unfold BInvW, blook, bshape, bkeys. cbn [b_sh b_futs b_nf b_n b_upd sw0 se0 serr sw1 se1 snid].
           split; [exact Z|]. split; [exact Ev|]. split; [exact Er|]. split; [left; apply N.ltb_lt; exact LT|]. split; [|split].
           ++ apply (InvB_append bfut blis bf_meta [] _ _ (blook x) _ fid (mkBfut (mkBf None (Some (snid (b_sh x))) (BWaiting (sw2 (b_sh x)))) (mkMeta FPending (Some (wtag fid k)) false)) (wtag fid k) I); auto.
              ** intros f0 L0. unfold blook in L0. rewrite L in L0. inversion L0; subst. unfold blis. rewrite SP. reflexivity.
              ** apply look_aupd.
              ** apply (alookup_aupdate_same _ _ _ _ L).
           ++ intros g fg Lg. destruct (Nat.eq_dec g fid) as [->|N].
              ** rewrite (alookup_aupdate_same _ _ _ _ L) in Lg. inversion Lg; subst. unfold fshape. simpl_sh.
                 exists (snid (b_sh x)), (sw2 (b_sh x)). split; [reflexivity|]. split; [clear; lia|]. split; [clear; intro H; lia|].
                 intros _. apply N.ltb_lt. exact LT.
              ** rewrite alookup_aupdate_other in Lg by exact N. apply (fshape_mono (b_n x) (b_sh x)); [reflexivity | right; cbn [sw1]; apply N.ltb_lt; exact LT | | apply (Sh g fg Lg)].
                 intros id _ Hn. cbn [se1]. apply notif_app. exact Hn.
           ++ rewrite keys_aupdate. split; assumption.
        -- unfold abs. cbn [b_sh b_futs b_nf b_upd sw1 sw2 fst]. rewrite amap_aupdate. reflexivity.
      * (* the n-th arrival: leader, next generation *)
        cbn [fst snd b_sh b_upd b_n].
        set (s2 := setw W2 (wadd (sw2 (b_sh x)) 1) (setw W1 0 (b_sh x))).
        destruct (notify1_world usize_max false s2) as (N1 & N2 & N3 & N4 & N5 & N6 & N7 & N8).
        change (se1 s2) with (se1 (b_sh x)) in N1, N2. change (swk s2) with (swk (b_sh x)) in N2. change (snid s2) with (snid (b_sh x)) in N3.
        change (serr s2) with (serr (b_sh x)) in N4. change (sw0 s2) with (sw0 (b_sh x)) in N5. change (sw1 s2) with 0 in N6.
        change (sw2 s2) with (wadd (sw2 (b_sh x)) 1) in N7. change (se0 s2) with (se0 (b_sh x)) in N8. rewrite G1 in N7.
        split; [|split; [|split; [reflexivity | split; [reflexivity | split; [rewrite N7; clear; lia | rewrite N3; clear; lia]]]]].
        -- unfold BInvW, blook, bshape, bkeys. cbn [b_sh b_futs b_nf b_n b_upd]. rewrite N1, N2, N3, N4, N5, N6, N8, WK. cbn [app].
           split; [exact Z|]. split; [exact Ev|]. split; [exact Er|]. split; [right; reflexivity|]. split; [|split].
           ++ apply (InvB_frame bfut blis bf_meta _ _ _ (blook x) _ fid).
              ** apply (InvB_notify bfut blis bf_meta usize_max false [] _ _ _ I).
              ** intros f0 L0. unfold blook in L0. rewrite L in L0. inversion L0; subst. unfold blis. rewrite SP. reflexivity.
              ** apply look_aupd.
              ** intros f' L'. rewrite (alookup_aupdate_same _ _ _ _ L) in L'. inversion L'. reflexivity.
           ++ intros g fg Lg. destruct (Nat.eq_dec g fid) as [->|N].
              ** rewrite (alookup_aupdate_same _ _ _ _ L) in Lg. inversion Lg; subst. unfold fshape. cbn. split; reflexivity.
              ** rewrite alookup_aupdate_other in Lg by exact N. pose proof (Sh g fg Lg) as Sg. unfold fshape in *.
                 destruct (fm_st (bf_meta fg)); auto. destruct Sg as (id & gg & Sq & Le & No & Cq).
                 exists id, gg. rewrite N1, N6, N7. split; [exact Sq|]. split; [clear - Le; lia|]. split; [|clear - Le; intro H; lia].
                 intros _. apply notify_all.
                 --- pose proof (NoDup_bound _ _ (ib_nodup _ _ _ _ _ _ _ I) (ib_fresh _ _ _ _ _ _ _ I)) as LB. rewrite map_length in LB.
                     change usize_max with 18446744073709551615 in *. clear - LB Rn. lia.
                 --- apply (ib_listed _ _ _ _ _ _ _ I g fg id Lg). unfold blis. rewrite Sq. reflexivity.
           ++ rewrite keys_aupdate. split; assumption.
        -- unfold abs. cbn [b_sh b_futs b_nf b_upd fst]. rewrite N6, N7, amap_aupdate. reflexivity.
    + (* a later poll of a waiting future *)
      destruct SP as (id & g & Sq & Le & No & Cq).
      assert (AF : abs_fut fu = AWait g) by (unfold abs_fut; rewrite St, Sq; reflexivity). rewrite AF.
      destruct (Nat.leb 4 k); [cbn [fst snd]; exact (same_ok x HX WK)|].
      assert (Ls : blis fu = Some id) by (unfold blis; rewrite Sq; reflexivity).
      pose proof (ib_listed _ _ _ _ _ _ _ I fid fu id L Ls) as Hin.
      rewrite bar_poll_paths; [|exact Z | exact Ev | exact Fr | | |]; rewrite Sq; cbn [b_state b_lock b_evl];
        [|intro Q; discriminate | intros g0 Q; split; [reflexivity|]; exists id; split; [reflexivity | intro Q2; apply ev_find_None in Q2; contradiction] | intros g0 Q; discriminate].
      cbn [abs a_gen a_cnt].
      destruct (ev_find id (se1 (b_sh x))) as [st|] eqn:Fd; [|exfalso; apply ev_find_None in Fd; contradiction].
      assert (D : (exists a, st = Notified a) \/ (forall a, st <> Notified a))
        by (destruct st as [|w0|a]; [right; discriminate | right; discriminate | left; exists a; reflexivity]).
      destruct D as [(a & ->)|NN].
      2:{ rewrite (spec_idle _ _ _ _ _ _ Fd NN).
          assert (GE : g = sw2 (b_sh x)).
          { destruct (N.eq_dec g (sw2 (b_sh x))) as [Q|Q]; [exact Q|]. exfalso. assert (g < sw2 (b_sh x)) as H by (clear - Le Q; lia).
            destruct (No H) as (a & Q2). rewrite Fd in Q2. inversion Q2. apply (NN a). assumption. }
          subst g. rewrite N.eqb_refl. cbn [fst snd b_sh b_upd b_n swk sete]. rewrite WK.
          split; [|split; [|split; [reflexivity | split; [reflexivity | split; [simpl_sh; clear; lia | simpl_sh; clear; lia]]]]].
          - unfold BInvW, blook, bshape, bkeys. cbn [b_sh b_futs b_nf b_n b_upd sw0 se0 serr sw1 se1 snid sete].
            split; [exact Z|]. split; [exact Ev|]. split; [exact Er|]. split; [exact Cn|]. split; [|split].
            + apply (InvB_set_task bfut blis bf_meta [] _ _ (blook x) _ fid fu (mkBfut (mkBf None (Some id) (BWaiting (sw2 (b_sh x)))) (mkMeta FPending (Some (wtag fid k)) false)) id (wtag fid k)); auto.
              * apply look_aupd.
              * apply (alookup_aupdate_same _ _ _ _ L).
            + intros g1 fg Lg. destruct (Nat.eq_dec g1 fid) as [->|N].
              * rewrite (alookup_aupdate_same _ _ _ _ L) in Lg. inversion Lg; subst. unfold fshape. simpl_sh.
                exists id, (sw2 (b_sh x)). split; [reflexivity|]. split; [clear; lia|]. split; [clear; intro H; lia | exact Cq].
              * rewrite alookup_aupdate_other in Lg by exact N. apply (fshape_mono (b_n x) (b_sh x)); [reflexivity | left; reflexivity | | apply (Sh g1 fg Lg)].
                intros id1 L1 Hn. cbn [se1 sete]. apply notif_set_other; [apply (other_id x [] fid fu id g1 fg id1); assumption | exact Hn].
            + rewrite keys_aupdate. split; assumption.
          - unfold abs. cbn [b_sh b_futs b_nf b_upd fst sw1 sw2 sete]. rewrite amap_aupdate.
            rewrite aupdate_id; [reflexivity|]. rewrite amap_lookup, L. cbn [option_map]. rewrite AF. reflexivity. }
      rewrite (spec_notified _ _ _ _ _ _ Fd).
      (* the listener was notified *)
      set (s1 := sete E1 (ev_remove id (se1 (b_sh x))) (b_sh x)).
      change (sw2 s1) with (sw2 (b_sh x)). change (sw1 s1) with (sw1 (b_sh x)).
      pose proof (Nat.eqb_refl fid) as EQf.
      destruct (g =? sw2 (b_sh x)) eqn:GQ.
      * apply N.eqb_eq in GQ. assert (CL : sw1 (b_sh x) <? b_n x = true) by (apply N.ltb_lt; apply Cq; exact GQ).
        rewrite CL. cbn [andb]. unfold reg. cbn [fst snd b_sh b_upd b_n swk set_nid sete]. unfold s1. cbn [swk sete snid se1 sw2]. rewrite WK.
        split; [|split; [|split; [reflexivity | split; [reflexivity | split; [simpl_sh; clear; lia | simpl_sh; clear; lia]]]]].
        -- unfold BInvW, blook, bshape, bkeys. cbn [b_sh b_futs b_nf b_n b_upd sw0 se0 serr sw1 se1 snid].
           split; [exact Z|]. split; [exact Ev|]. split; [exact Er|]. split; [exact Cn|]. split; [|split].
           ++ set (mid := fun g0 => if Nat.eqb g0 fid then Some (mkBfut (mkBf None None (BWaiting g)) (bf_meta fu)) else blook x g0).
              assert (IM : InvB bfut blis bf_meta [] (ev_remove id (se1 (b_sh x))) (snid (b_sh x)) mid).
              { apply (InvB_remove bfut blis bf_meta [] _ _ (blook x) mid fid fu id); auto.
                - intros g0 N. unfold mid. destruct (Nat.eqb g0 fid) eqn:Q; [apply Nat.eqb_eq in Q; contradiction | reflexivity].
                - intros f0 L0. unfold mid in L0. rewrite EQf in L0. inversion L0. reflexivity. }
              apply (InvB_append bfut blis bf_meta [] _ _ mid _ fid (mkBfut (mkBf None (Some (snid (b_sh x))) (BWaiting g)) (mkMeta FPending (Some (wtag fid k)) false)) (wtag fid k) IM); auto.
              ** intros f0 L0. unfold mid in L0. rewrite EQf in L0. inversion L0. reflexivity.
              ** intros g0 N. unfold mid. destruct (Nat.eqb g0 fid) eqn:Q; [apply Nat.eqb_eq in Q; contradiction|]. apply look_aupd. exact N.
              ** apply (alookup_aupdate_same _ _ _ _ L).
           ++ intros g1 fg Lg. destruct (Nat.eq_dec g1 fid) as [->|N].
              ** rewrite (alookup_aupdate_same _ _ _ _ L) in Lg. inversion Lg; subst. unfold fshape. simpl_sh.
                 exists (snid (b_sh x)), (sw2 (b_sh x)). split; [reflexivity|]. split; [clear; lia|]. split; [clear; intro H; lia | exact Cq].
              ** rewrite alookup_aupdate_other in Lg by exact N. apply (fshape_mono (b_n x) (b_sh x)); [reflexivity | left; reflexivity | | apply (Sh g1 fg Lg)].
                 intros id1 L1 Hn. cbn [se1]. apply notif_app. apply notif_remove_other; [apply (other_id x [] fid fu id g1 fg id1); assumption | exact Hn].
           ++ rewrite keys_aupdate. split; assumption.
        -- unfold abs. cbn [b_sh b_futs b_nf b_upd fst sw1 sw2]. rewrite amap_aupdate.
           rewrite aupdate_id; [reflexivity|]. rewrite amap_lookup, L. cbn [option_map]. unfold abs_fut. cbn [bf_meta fm_st bf_st].
           rewrite St, Sq. cbn [b_state]. reflexivity.
      * (* released: its generation is over *)
        cbn [andb fst snd b_sh b_upd b_n]. unfold s1. cbn [swk sete snid sw2]. rewrite WK.
        split; [|split; [|split; [reflexivity | split; [reflexivity | split; [simpl_sh; clear; lia | simpl_sh; clear; lia]]]]].
        -- unfold BInvW, blook, bshape, bkeys. cbn [b_sh b_futs b_nf b_n b_upd sw0 se0 serr sw1 se1 snid sete].
           split; [exact Z|]. split; [exact Ev|]. split; [exact Er|]. split; [exact Cn|]. split; [|split].
           ++ apply (InvB_remove bfut blis bf_meta [] _ _ (blook x) _ fid fu id); auto.
              ** apply look_aupd.
              ** intros f' L'. rewrite (alookup_aupdate_same _ _ _ _ L) in L'. inversion L'. reflexivity.
           ++ intros g1 fg Lg. destruct (Nat.eq_dec g1 fid) as [->|N].
              ** rewrite (alookup_aupdate_same _ _ _ _ L) in Lg. inversion Lg; subst. unfold fshape. cbn. split; reflexivity.
              ** rewrite alookup_aupdate_other in Lg by exact N. apply (fshape_mono (b_n x) (b_sh x)); [reflexivity | left; reflexivity | | apply (Sh g1 fg Lg)].
                 intros id1 L1 Hn. cbn [se1 sete]. apply notif_remove_other; [apply (other_id x [] fid fu id g1 fg id1); assumption | exact Hn].
           ++ rewrite keys_aupdate. split; assumption.
        -- unfold abs. cbn [b_sh b_futs b_nf b_upd fst sw1 sw2 sete]. rewrite amap_aupdate. reflexivity.
    + (* completed: the harness never polls it again *)
      assert (AF : abs_fut fu = ADone) by (unfold abs_fut; rewrite St; reflexivity). rewrite AF.
      cbn [fst snd]. destruct (Nat.leb 4 k); exact (same_ok x HX WK).
  - (* BDropFut *)
    cbn [astep]. rewrite (amap_lookup fid (b_futs x) : alookup fid (a_futs (abs x)) = _).
    destruct (alookup fid (b_futs x)) as [fu|] eqn:L; cbn [option_map].
    2:{ cbn [fst snd]. exact (same_ok x HX WK). }
    pose proof (Sh fid fu L) as SP.
    assert (DL : drop_lock_opt (b_lock (bf_st fu)) (b_sh x) = b_sh x).
    { unfold fshape in SP. destruct (fm_st (bf_meta fu)).
      - rewrite SP. reflexivity.
      - destruct SP as (id & g & Sq & _). rewrite Sq. reflexivity.
      - destruct SP as (-> & _). reflexivity. }
    unfold bfut_drop. rewrite DL. cbn [fst snd b_sh b_upd b_n].
    destruct (rest_drop_opt1 (b_evl (bf_st fu)) (b_sh x)) as (R1 & R2 & R3 & R4 & R5 & R6).
    split; [|split; [|split; [reflexivity | split; [reflexivity | split; [rewrite R5; clear; lia | rewrite R1; clear; lia]]]]].
    + destruct (InvB_drop_own bfut blis bf_meta [] (se1 (b_sh x)) (snid (b_sh x)) (blook x) (fun g => alookup g (aremove fid (b_futs x))) fid fu I L) as (I' & _).
      * intros g N. apply alookup_aremove_other. exact N.
      * intros f0 L0. rewrite (alookup_aremove_same fid (b_futs x) K1) in L0. discriminate.
      * unfold BInvW, blook, bshape, bkeys. cbn [b_sh b_futs b_nf b_n b_upd].
        rewrite se1_drop_opt, swk_drop_opt1, R1, R2, R3, R4, R6, WK. cbn [app].
        split; [exact Z|]. split; [exact Ev|]. split; [exact Er|]. split; [exact Cn|]. split; [exact I'|]. split.
        -- intros g1 fg Lg. destruct (Nat.eq_dec g1 fid) as [->|N].
           ++ rewrite (alookup_aremove_same fid (b_futs x) K1) in Lg. discriminate.
           ++ rewrite alookup_aremove_other in Lg by exact N. apply (fshape_mono (b_n x) (b_sh x)); [exact R5 | left; exact R4 | | apply (Sh g1 fg Lg)].
              intros id1 L1 Hn. rewrite se1_drop_opt. unfold blis in I'. destruct (b_evl (bf_st fu)) as [id|] eqn:Q; [|exact Hn].
              cbn [ev_drop_opt]. apply notif_drop_other; [apply (other_id x [] fid fu id g1 fg id1); auto | exact Hn].
        -- split; [apply NoDup_keys_aremove; exact K1 | intros k0 Hk; apply K2; apply (keys_aremove_incl fid); exact Hk].
    + unfold abs. cbn [b_sh b_futs b_nf b_upd fst]. rewrite R4, R5, amap_aremove. reflexivity.
Qed.

(* ---------- the end-of-operation wake-up pass ---------- *)
Lemma meta_wake_st wk m : fm_st (meta_wake wk m) = fm_st m.
Proof. unfold meta_wake. destruct (fm_st m) eqn:Q; try exact Q. destruct (fm_w m) as [w|]; [|exact Q]. destruct (mem_nat w wk); [reflexivity | exact Q]. Qed.

Lemma abs_wake wk x : abs (b_wake_all wk x) = abs x.
Proof.
  unfold abs, b_wake_all, b_upd. cbn [b_sh b_futs b_nf]. f_equal. unfold amap. rewrite map_map. apply map_ext.
  intros [k f]. cbn [fst snd]. unfold abs_fut. cbn [bf_meta bf_st]. rewrite meta_wake_st. reflexivity.
Qed.

Lemma BInvW_wake x : BInvW (swk (b_sh x)) x -> BInv (b_wake_all (swk (b_sh x)) x).
Proof.
  intros (Z & Ev & Er & Cn & I & Sh & K1 & K2). unfold BInv, BInvW, b_wake_all, b_upd. cbn [b_sh b_n].
  set (wk := swk (b_sh x)) in *.
  set (h := fun f => mkBfut (bf_st f) (meta_wake wk (bf_meta f))).
  split; [exact Z|]. split; [exact Ev|]. split; [exact Er|]. split; [exact Cn|]. split; [|split].
  - apply (InvB_wake bfut blis bf_meta wk _ _ (blook x) _ h); auto.
    intro k. unfold blook. cbn [b_futs]. exact (alookup_map h k (b_futs x)).
  - intros fid f L. cbn [b_futs b_sh b_n] in *. pose proof (alookup_map h fid (b_futs x)) as AM. cbv beta in AM. unfold h in AM at 1. rewrite AM in L. clear AM.
    destruct (alookup fid (b_futs x)) as [f0|] eqn:L0; [|discriminate]. inversion L; subst.
    pose proof (Sh fid f0 L0) as S0. unfold fshape in *. cbn [h bf_meta bf_st]. rewrite meta_wake_st. exact S0.
  - unfold bkeys. cbn [b_futs b_nf]. rewrite map_map. cbn [fst]. split; [exact K1 | exact K2].
Qed.

Lemma bstep_ok x o : BInv x -> broom x ->
  let x' := fst (bstep x o) in
  BInv x' /\ abs x' = fst (astep (b_n x) (abs x) o) /\ o_res (snd (bstep x o)) = snd (astep (b_n x) (abs x) o) /\
  b_n x' = b_n x /\ sw2 (b_sh x') <= sw2 (b_sh x) + 1 /\ (snid (b_sh x') <= S (snid (b_sh x)))%nat.
Proof.
  intros HX RM. unfold bstep.
  set (x0 := b_upd x (set_wk [] (b_sh x)) (b_futs x)).
  assert (H0 : BInv x0) by exact HX. assert (R0 : broom x0) by exact RM.
  assert (K0 : swk (b_sh x0) = []) by reflexivity.
  assert (A0 : abs x0 = abs x) by reflexivity.
  pose proof (step_core_ok x0 o H0 R0 K0) as (P1 & P2 & P3 & P4 & P5 & P6).
  destruct (bstep_core x0 o) as [x1 r]. cbn [fst snd] in *. rewrite A0 in *.
  change (b_n x0) with (b_n x) in *. change (sw2 (b_sh x0)) with (sw2 (b_sh x)) in *. change (snid (b_sh x0)) with (snid (b_sh x)) in *.
  split; [apply BInvW_wake; exact P1|]. split; [rewrite abs_wake; exact P2|]. split; [exact P3|].
  split; [exact P4|]. split; [exact P5 | exact P6].
Qed.

Lemma BInv_init n : BInv (bw_init n).
Proof.
  unfold BInv, BInvW, bw_init, blook, bshape, bkeys. cbn.
  split; [reflexivity|]. split; [reflexivity|]. split; [reflexivity|]. split; [right; reflexivity|].
  split; [constructor; cbn; try tauto; try constructor; intros; discriminate|].
  split; [intros; discriminate|]. split; [constructor | tauto].
Qed.

Definition BAR_BOUND : N := 18446744073709551614.   (* 2^64 - 2 *)

Lemma run_gen n ops : forall x, b_n x = n -> BInv x ->
  sw2 (b_sh x) + N.of_nat (length ops) + 1 < USZ -> N.of_nat (snid (b_sh x)) + N.of_nat (length ops) < usize_max -> n < USZ ->
  let y := fold_left (fun x o => fst (bstep x o)) ops x in
  BInv y /\ abs y = fold_left (fun a o => fst (astep n a o)) ops (abs x) /\
  map o_res (btrace x ops) = atrace n (abs x) ops.
Proof.
  induction ops as [|o ops IH]; intros x Hn HX B1 B2 B3; cbn [fold_left btrace atrace map length] in *; [split; [exact HX | split; reflexivity]|].
  assert (RM : broom x) by (unfold broom; rewrite Hn; repeat split; [clear - B1; lia | clear - B2; lia | exact B3]).
  pose proof (bstep_ok x o HX RM) as (Q1 & Q2 & Q3 & Q4 & Q5 & Q6). cbv zeta in *. rewrite Hn in *.
  destruct (bstep x o) as [x' ob] eqn:E. cbn [fst snd] in *.
  destruct (astep n (abs x) o) as [a' r'] eqn:E2. cbn [fst snd] in *.
  destruct (IH x') as (R1 & R2 & R3); [exact Q4 | exact Q1 | clear - B1 Q5; lia | clear - B2 Q6; lia | exact B3|].
  split; [exact R1|]. split; [rewrite R2, Q2; reflexivity|]. cbn [map]. rewrite Q3, R3, Q2. reflexivity.
Qed.

Lemma bstep_n x o : b_n (fst (bstep x o)) = b_n x.
Proof.
  unfold bstep. set (y := b_upd x (set_wk [] (b_sh x)) (b_futs x)). change (b_n x) with (b_n y). generalize y. clear. intro y.
  destruct (bstep_core y o) as [x1 r] eqn:E. cbn [fst]. unfold b_wake_all, b_upd. cbn [b_n].
  unfold bstep_core in E. destruct o; cbv beta iota zeta in E.
  all: repeat match type of E with context [match ?d with _ => _ end] => destruct d end; inversion E; subst; reflexivity.
Qed.
Lemma brun_n n ops : b_n (brun n ops) = n.
Proof.
  unfold brun. assert (H : b_n (bw_init n) = n) by reflexivity. revert H. generalize (bw_init n).
  induction ops as [|o l IH]; intros y Hy; cbn [fold_left]; [exact Hy|]. apply IH. rewrite bstep_n. exact Hy.
Qed.

(* ---------- the theorems ---------- *)
Theorem barrier_refines n ops : n < USZ -> N.of_nat (length ops) < BAR_BOUND ->
  map o_res (btrace (bw_init n) ops) = atrace n a_init ops /\ abs (brun n ops) = arun n ops /\ BInv (brun n ops).
Proof.
  intros Hn B. unfold brun, arun.
  destruct (run_gen n ops (bw_init n) eq_refl (BInv_init n)) as (R1 & R2 & R3); [| |exact Hn|].
  - cbn. unfold BAR_BOUND in B. rewrite USZ_val. clear - B. lia.
  - cbn. unfold BAR_BOUND in B. change usize_max with 18446744073709551615. clear - B. lia.
  - split; [exact R3|]. split; [exact R2 | exact R1].
Qed.

(* liveness of a released generation: at rest (every woken task polled again) every pending wait
   belongs to the CURRENT generation, which is still short of n arrivals *)
Lemma pending_current x : BInv x -> quiescent x ->
  forall fid f, alookup fid (b_futs x) = Some f -> fm_st (bf_meta f) = FPending ->
  exists id, bf_st f = mkBf None (Some id) (BWaiting (sw2 (b_sh x))) /\ sw1 (b_sh x) < b_n x.
Proof.
  intros (_ & _ & _ & _ & I & Sh & _) Q fid f L P. pose proof (Sh fid f L) as S0. unfold fshape in S0. rewrite P in S0.
  destruct S0 as (id & g & St & Le & No & Cq).
  destruct (N.eq_dec g (sw2 (b_sh x))) as [->|NE]; [exists id; split; [exact St | apply Cq; reflexivity]|].
  exfalso. assert (H : g < sw2 (b_sh x)) by (clear - Le NE; lia). destruct (No H) as (a & Fd).
  apply ev_find_In in Fd.
  destruct (InvB_notified_woken bfut blis bf_meta _ _ _ _ I Fd eq_refl) as (g1 & f1 & L1 & P1 & W1).
  apply (Q g1 f1 L1). split; assumption.
Qed.

Theorem barrier_released_complete n ops : n < USZ -> N.of_nat (length ops) < BAR_BOUND ->
  let x := brun n ops in quiescent x ->
  forall fid f, alookup fid (b_futs x) = Some f -> fm_st (bf_meta f) = FPending ->
  exists id, bf_st f = mkBf None (Some id) (BWaiting (sw2 (b_sh x))) /\ sw1 (b_sh x) < n.
Proof.
  intros Hn B x Q fid f L P. destruct (barrier_refines n ops Hn B) as (_ & _ & I).
  destruct (pending_current x I Q fid f L P) as (id & A & C). exists id. split; [exact A|].
  assert (E : b_n x = n) by apply brun_n.
  rewrite <- E. exact C.
Qed.

Theorem barrier_no_error n ops : n < USZ -> N.of_nat (length ops) < BAR_BOUND -> serr (b_sh (brun n ops)) = false.
Proof. intros Hn B. destruct (barrier_refines n ops Hn B) as (_ & _ & (_ & _ & E & _)). exact E. Qed.

(* the state mutex inside the barrier is never left locked and nobody is left queued on it *)
Theorem barrier_mutex_free n ops : n < USZ -> N.of_nat (length ops) < BAR_BOUND ->
  sw0 (b_sh (brun n ops)) = 0 /\ se0 (b_sh (brun n ops)) = [].
Proof. intros Hn B. destruct (barrier_refines n ops Hn B) as (_ & _ & (Z & E & _)). split; assumption. Qed.

(* ---------- sanity of the abstract barrier itself ---------- *)
Definition is_wait (g : N) (f : afut) : N := match f with AWait g' => if g' =? g then 1 else 0 | _ => 0 end.
Definition AInv (n : N) (a : aspec) : Prop :=
  (a_cnt a < n \/ a_cnt a = 0) /\ asum (is_wait (a_gen a)) (a_futs a) <= a_cnt a /\
  Forall (fun p => match snd p with AWait g => g <= a_gen a | _ => True end) (a_futs a).

Lemma asum_zero {A} (g : A -> N) l : (forall k v, In (k, v) l -> g v = 0) -> asum g l = 0.
Proof. induction l as [|[k v] l IH]; intro H; cbn; [reflexivity|]. rewrite (H k v (or_introl eq_refl)), IH; [reflexivity|]. intros k' v' Hi. apply (H k' v'). right. exact Hi. Qed.

Lemma in_aupdate_inv {A} k (v : A) l k0 v0 : In (k0, v0) (aupdate k v l) -> v0 = v \/ In (k0, v0) l.
Proof.
  induction l as [|[k' v'] l IH]; cbn; [tauto|]. destruct (Nat.eqb k k').
  - intros [H|H]; [inversion H; left; reflexivity | right; right; exact H].
  - intros [H|H]; [right; left; exact H|]. destruct (IH H) as [Q|Q]; [left; exact Q | right; right; exact Q].
Qed.

Lemma astep_AInv n a o : AInv n a -> AInv n (fst (astep n a o)).
Proof.
  intros (C & W & G). unfold astep. destruct o as [|fid k|fid].
  - cbn [fst]. unfold AInv. cbn [a_cnt a_gen a_futs]. split; [exact C|]. split.
    + rewrite asum_app. cbn. clear - W. lia.
    + apply Forall_app. split; [exact G | constructor; [exact I | constructor]].
  - destruct (alookup fid (a_futs a)) as [f|] eqn:L; [|cbn [fst]; repeat split; assumption].
    destruct (Nat.leb 4 k); [cbn [fst]; repeat split; assumption|]. destruct f as [|g|].
    + destruct (a_cnt a + 1 <? n) eqn:LT; cbn [fst]; unfold AInv; cbn [a_cnt a_gen a_futs].
      * split; [left; apply N.ltb_lt; exact LT|]. split.
        -- pose proof (asum_aupdate (is_wait (a_gen a)) fid AUn (AWait (a_gen a)) (a_futs a) L) as U. cbn [is_wait] in U. rewrite N.eqb_refl in U. clear - U W. lia.
        -- apply Forall_aupdate; [exact G | cbn; clear; lia].
      * split; [right; reflexivity|]. split.
        -- rewrite asum_zero; [clear; lia|]. intros k0 v Hi. unfold is_wait. destruct v as [|g|]; try reflexivity.
           destruct (g =? a_gen a + 1) eqn:Q; [|reflexivity]. apply N.eqb_eq in Q. exfalso.
           apply in_aupdate_inv in Hi. destruct Hi as [Hi|Hi]; [discriminate Hi|].
           rewrite Forall_forall in G. specialize (G _ Hi). cbn in G. clear - G Q. lia.
        -- apply Forall_aupdate; [|exact I]. eapply Forall_impl; [|exact G]. intros [k0 v]. cbn. destruct v; auto. clear. intro; lia.
    + destruct (g =? a_gen a) eqn:Q; cbn [fst]; [repeat split; assumption|]. unfold AInv; cbn [a_cnt a_gen a_futs].
      split; [exact C|]. split.
      * pose proof (asum_aupdate (is_wait (a_gen a)) fid (AWait g) ADone (a_futs a) L) as U. cbn [is_wait] in U. rewrite Q in U. clear - U W. lia.
      * apply Forall_aupdate; [exact G | exact I].
    + cbn [fst]. repeat split; assumption.
  - destruct (alookup fid (a_futs a)) as [f|] eqn:L; [|cbn [fst]; repeat split; assumption].
    cbn [fst]. unfold AInv; cbn [a_cnt a_gen a_futs]. split; [exact C|]. split.
    + pose proof (asum_aremove (is_wait (a_gen a)) fid f (a_futs a) L) as U. clear - U W. lia.
    + apply Forall_aremove. exact G.
Qed.

Theorem arun_AInv n ops : AInv n (arun n ops).
Proof.
  unfold arun. assert (H : AInv n a_init) by (unfold AInv, a_init; cbn; split; [right; reflexivity | split; [lia | constructor]]).
  revert H. generalize a_init. induction ops as [|o l IH]; intros a H; cbn [fold_left]; [exact H|]. apply IH. apply astep_AInv. exact H.
Qed.
