(* BarrierSettle.v — C17 for the Barrier: re-polling woken waits settles after a bounded number of polls.
   Potential: Phi = (#pending waits flagged woken) + 2 * (#notified entries of the event) + 3 * (#pending waits). *)
From AL Require Import Base Api Mutex BarrierApi BaseFacts ApiFacts EventFacts OwnUpd BarrierInv Settle.
From Coq Require Import Lia.

Definition bh_wake (wk : list waker) (f : bfut) : bfut := mkBfut (bf_st f) (meta_wake wk (bf_meta f)).
Lemma bh_wake_meta wk f : bf_meta (bh_wake wk f) = meta_wake wk (bf_meta f). Proof. reflexivity. Qed.

Definition bW (x : bworld) : N := cW bfut bf_meta (b_futs x).
Definition bP (x : bworld) : N := cP bfut bf_meta (b_futs x).
Definition bPhi (x : bworld) : N := bW x + 2 * cN (se1 (b_sh x)) + 3 * bP x.
Definition bWOK (x : bworld) : Prop := wakers_ok bfut bf_meta (b_futs x).

Lemma b_wake_all_eq wk x : b_futs (b_wake_all wk x) = wake_all bfut bh_wake wk (b_futs x).
Proof. reflexivity. Qed.

Lemma bWOK_step x o : bWOK x -> bWOK (fst (bstep x o)).
Proof.
  intro WO. unfold bstep. set (x0 := b_upd x (set_wk [] (b_sh x)) (b_futs x)).
  assert (W0' : bWOK x0) by exact WO.
  assert (CORE : bWOK (fst (bstep_core x0 o))).
  { revert W0'. generalize x0. clear. intros x WO. unfold bstep_core. destruct o as [|f k|f]; cbv beta iota zeta.
    - cbn [fst]. unfold bWOK. cbn [b_futs]. apply wakers_ok_app; [exact WO | reflexivity].
    - destruct (alookup f (b_futs x)) as [fu|] eqn:L; [|exact WO].
      destruct (fstatus_eqb (fm_st (bf_meta fu)) FDone || Nat.leb 4 k) eqn:V; [exact WO|].
      apply Bool.orb_false_iff in V. destruct V as (_ & V2). apply Nat.leb_gt in V2.
      assert (G : forall st m, wakers_ok bfut bf_meta (aupdate f (mkBfut st (mkMeta m (Some (wtag f k)) false)) (b_futs x))).
      { intros st m. apply wakers_ok_aupdate; [exact WO|]. intros w Hw. cbn in Hw. inversion Hw. exists k. split; [exact V2 | reflexivity]. }
      destruct (bar_loop BFUEL (b_n x) (wtag f k) (bf_st fu) (b_sh x)); cbn [fst]; apply G.
    - destruct (alookup f (b_futs x)) as [fu|] eqn:L; [|exact WO]. cbn [fst]. unfold bWOK. cbn [b_futs b_upd]. apply wakers_ok_aremove. exact WO. }
  destruct (bstep_core x0 o) as [x1 r]. cbn [fst] in *. unfold bWOK. rewrite b_wake_all_eq. apply wakers_ok_wake; [apply bh_wake_meta | exact CORE].
Qed.

Lemma bar_settle_step x fid k f : BInv x -> bWOK x ->
  alookup fid (b_futs x) = Some f -> fm_st (bf_meta f) = FPending -> fm_woken (bf_meta f) = true -> (k < 4)%nat ->
  bPhi (fst (bstep x (BPoll fid k))) + 1 <= bPhi x.
Proof.
  intros HX WO L P Wk K4. pose proof HX as (Z & Ev & Er & Cn & I & Sh & K1 & K2).
  assert (WF : wW bfut bf_meta f = 1) by (unfold wW, pendb; rewrite P, Wk; reflexivity).
  assert (PF : wP bfut bf_meta f = 1) by (unfold wP, pendb; rewrite P; reflexivity).
  pose proof (Sh fid f L) as SP. unfold fshape in SP. rewrite P in SP. destruct SP as (id & g & Sq & Le & No & Cq).
  assert (Ls : blis f = Some id) by (unfold blis; rewrite Sq; reflexivity).
  pose proof (ib_listed _ _ _ _ _ _ _ I fid f id L Ls) as Hin.
  unfold bstep. set (x0 := b_upd x (set_wk [] (b_sh x)) (b_futs x)).
  unfold bstep_core. cbv zeta. change (b_futs x0) with (b_futs x). rewrite L.
  assert (V : fstatus_eqb (fm_st (bf_meta f)) FDone || Nat.leb 4 k = false).
  { apply Bool.orb_false_iff. split; [rewrite P; reflexivity | apply Nat.leb_gt; exact K4]. }
  rewrite V. change (b_sh x0) with (set_wk [] (b_sh x)). change (b_n x0) with (b_n x).
  rewrite bar_poll_paths; [|exact Z | exact Ev | exact (ib_fresh _ _ _ _ _ _ _ I) | | |]; rewrite Sq; cbn [b_state b_lock b_evl];
    [|intro Q; discriminate | intros g0 Q; split; [reflexivity|]; exists id; split; [reflexivity | intro Q2; apply ev_find_None in Q2; contradiction] | intros g0 Q; discriminate].
  change (se1 (set_wk [] (b_sh x))) with (se1 (b_sh x)).
  assert (PHI : bPhi x = bW x + 2 * cN (se1 (b_sh x)) + 3 * bP x) by reflexivity.
  pose proof (cN_remove id (se1 (b_sh x))) as CR. unfold notified_at in CR.
  destruct (ev_find id (se1 (b_sh x))) as [st|] eqn:Fd; [|exfalso; apply ev_find_None in Fd; contradiction].
  assert (D : (exists a, st = Notified a) \/ (forall a, st <> Notified a))
    by (destruct st as [|w0|a]; [right; discriminate | right; discriminate | left; exists a; reflexivity]).
  destruct D as [(a & ->)|NNo].
  - rewrite (spec_notified _ _ _ _ (set_wk [] (b_sh x)) _ Fd). change (sw2 (set_wk [] (b_sh x))) with (sw2 (b_sh x)). change (sw1 (set_wk [] (b_sh x))) with (sw1 (b_sh x)).
    destruct ((g =? sw2 (b_sh x)) && (sw1 (b_sh x) <? b_n x)).
    + (* its generation is still current (forwarded notification): registers again *)
      unfold BarrierInv.reg. cbn [fst b_sh b_upd swk set_nid sete set_wk se1 snid b_futs].
      set (f' := mkBfut (mkBf None (Some (snid (b_sh x))) (BWaiting g)) (mkMeta FPending (Some (wtag fid k)) false)).
      destruct (upd_wake_counts bfut bf_meta bh_wake bh_wake_meta (b_futs x) fid k f f' [] K1 WO K4 L eq_refl) as (UW & UP).
      unfold bPhi, bW, bP. rewrite b_wake_all_eq. cbn [b_sh b_wake_all b_upd b_futs se1 swk snid set_nid sete set_wk].
      rewrite cN_app. cbn [is_notified est]. rewrite WF in UW. rewrite PF in UP. change (wW bfut bf_meta f') with 0 in UW. change (wP bfut bf_meta f') with 1 in UP.
      cbn [length] in UW. lia.
    + (* released *)
      cbn [fst b_sh b_upd swk sete set_wk se1 b_futs].
      set (f' := mkBfut (mkBf None None (BReacq g)) (mkMeta FDone (Some (wtag fid k)) false)).
      destruct (upd_wake_counts bfut bf_meta bh_wake bh_wake_meta (b_futs x) fid k f f' [] K1 WO K4 L eq_refl) as (UW & UP).
      unfold bPhi, bW, bP. rewrite b_wake_all_eq. cbn [b_sh b_wake_all b_upd b_futs se1 swk snid set_nid sete set_wk].
      rewrite WF in UW. rewrite PF in UP. change (wW bfut bf_meta f') with 0 in UW. change (wP bfut bf_meta f') with 0 in UP.
      cbn [length] in UW. lia.
  - (* not notified: the flag was stale; the waker is replaced *)
    rewrite (spec_idle _ _ _ _ (set_wk [] (b_sh x)) _ Fd NNo). cbn [fst b_sh b_upd swk sete set_wk se1 b_futs].
    set (f' := mkBfut (mkBf None (Some id) (BWaiting g)) (mkMeta FPending (Some (wtag fid k)) false)).
    destruct (upd_wake_counts bfut bf_meta bh_wake bh_wake_meta (b_futs x) fid k f f' [] K1 WO K4 L eq_refl) as (UW & UP).
    unfold bPhi, bW, bP. rewrite b_wake_all_eq. cbn [b_sh b_wake_all b_upd b_futs se1 swk snid set_nid sete set_wk].
    rewrite (cN_set_task id (wtag fid k)) by (unfold notified_at; rewrite Fd; destruct st as [|w0|a]; [reflexivity | reflexivity | exfalso; apply (NNo a); reflexivity]).
    rewrite WF in UW. rewrite PF in UP. change (wW bfut bf_meta f') with 0 in UW. change (wP bfut bf_meta f') with 1 in UP.
    cbn [length] in UW. lia.
Qed.

Fixpoint bsettle_run (x : bworld) (ops : list bop) : Prop :=
  match ops with
  | [] => True
  | o :: r => (exists fid k f, o = BPoll fid k /\ (k < 4)%nat /\ alookup fid (b_futs x) = Some f /\
                               fm_st (bf_meta f) = FPending /\ fm_woken (bf_meta f) = true) /\ bsettle_run (fst (bstep x o)) r
  end.

Lemma bar_settle_gen ops : forall x, BInv x -> bWOK x ->
  sw2 (b_sh x) + N.of_nat (length ops) + 1 < USZ -> N.of_nat (snid (b_sh x)) + N.of_nat (length ops) < usize_max -> b_n x < USZ ->
  bsettle_run x ops -> N.of_nat (length ops) <= bPhi x.
Proof.
  induction ops as [|o r IH]; intros x HX WO B1 B2 B3 SR; [cbn; lia|]. destruct SR as ((fid & k & f & -> & K4 & L & P & Wk) & SR).
  pose proof (bar_settle_step x fid k f HX WO L P Wk K4) as ST. cbn [length] in *.
  assert (RM : broom x) by (unfold broom; repeat split; [clear - B1; lia | clear - B2; lia | exact B3]).
  pose proof (bstep_ok x (BPoll fid k) HX RM) as (Q1 & _ & _ & Q4 & Q5 & Q6). cbv zeta in *.
  specialize (IH _ Q1 (bWOK_step x (BPoll fid k) WO)). rewrite Q4 in IH.
  assert (N.of_nat (length r) <= bPhi (fst (bstep x (BPoll fid k)))) by (apply IH; [clear - B1 Q5; lia | clear - B2 Q6; lia | exact B3 | exact SR]).
  lia.
Qed.

Lemma bWOK_init n : bWOK (bw_init n).
Proof. intros k f w []. Qed.
Lemma run_bWOK n ops : bWOK (brun n ops).
Proof.
  unfold brun. generalize (bWOK_init n). generalize (bw_init n). induction ops as [|o l IH]; intros x H; cbn [fold_left]; [exact H|]. apply IH. apply bWOK_step. exact H.
Qed.

Lemma bW_le_bP x : bW x <= bP x.
Proof. unfold bW, bP, cW, cP. induction (b_futs x) as [|[k f] l IH]; cbn [asum]; [lia|]. unfold wW, wP in *. destruct (pendb (bf_meta f)); destruct (fm_woken (bf_meta f)); cbn; lia. Qed.

Lemma brun_bounds n ops : n < USZ -> N.of_nat (length ops) < BAR_BOUND ->
  sw2 (b_sh (brun n ops)) <= N.of_nat (length ops) /\ (snid (b_sh (brun n ops)) <= length ops)%nat.
Proof.
  intros Hn B. unfold brun.
  assert (G : forall l x, BInv x -> b_n x = n -> sw2 (b_sh x) + N.of_nat (length l) + 1 < USZ -> N.of_nat (snid (b_sh x)) + N.of_nat (length l) < usize_max ->
     sw2 (b_sh (fold_left (fun x o => fst (bstep x o)) l x)) <= sw2 (b_sh x) + N.of_nat (length l) /\
     (snid (b_sh (fold_left (fun x o => fst (bstep x o)) l x)) <= snid (b_sh x) + length l)%nat).
  { induction l as [|o l IH]; intros x HX En B1 B2; cbn [fold_left length] in *; [split; lia|].
    assert (RM : broom x) by (unfold broom; rewrite En; repeat split; [clear - B1; lia | clear - B2; lia | exact Hn]).
    pose proof (bstep_ok x o HX RM) as (Q1 & _ & _ & Q4 & Q5 & Q6). cbv zeta in *.
    destruct (IH _ Q1) as (A1 & A2); [rewrite Q4; exact En | clear - B1 Q5; lia | clear - B2 Q6; lia|]. split; lia. }
  destruct (G ops (bw_init n) (BInv_init n) eq_refl) as (A1 & A2).
  - cbn. unfold BAR_BOUND in B. rewrite USZ_val. clear - B. lia.
  - cbn. unfold BAR_BOUND in B. change usize_max with 18446744073709551615. clear - B. lia.
  - cbn in A1, A2. split; lia.
Qed.

(* C17 for the Barrier: from any reachable state, however the woken waits are re-polled, at most
   4 * pending + 2 * listeners polls happen before no pending wait is flagged woken *)
Theorem bar_settle_bound n ops0 ops : n < USZ -> N.of_nat (length ops0) + N.of_nat (length ops) + 1 < BAR_BOUND ->
  bsettle_run (brun n ops0) ops ->
  N.of_nat (length ops) <= 4 * bP (brun n ops0) + 2 * N.of_nat (length (se1 (b_sh (brun n ops0)))).
Proof.
  intros Hn B SR. destruct (barrier_refines n ops0 Hn) as (_ & _ & HX); [clear - B; lia|].
  destruct (brun_bounds n ops0 Hn) as (A1 & A2); [clear - B; lia|].
  pose proof (bar_settle_gen ops _ HX (run_bWOK n ops0)) as G. rewrite brun_n in G.
  assert (N.of_nat (length ops) <= bPhi (brun n ops0)).
  { apply G; [| | exact Hn | exact SR]; unfold BAR_BOUND in B; [rewrite USZ_val | change usize_max with 18446744073709551615]; clear - B A1 A2; lia. }
  unfold bPhi in H. pose proof (bW_le_bP (brun n ops0)). unfold cN in H. pose proof (count_le_len (se1 (b_sh (brun n ops0)))). lia.
Qed.
