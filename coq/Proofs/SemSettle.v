(* SemSettle.v — C17 for the Semaphore: re-polling woken acquire futures settles after a number of polls
   bounded by a small multiple of the number of pending futures. Potential:
     Phi = (#pending futures flagged woken) + 2 * (#notified entries of the event) + 3 * (#pending futures).
   (The weight 3 pays for the notification a completing acquire passes on when permits are left.) *)
From AL Require Import Base Api Semaphore SemApi BaseFacts ApiFacts EventFacts SemCount SemLive Settle.
From Coq Require Import Lia.

Definition sh_wake (wk : list waker) (f : sfut) : sfut := mkSfut (sf_arc f) (sf_lis f) (meta_wake wk (sf_meta f)).
Lemma sh_wake_meta wk f : sf_meta (sh_wake wk f) = meta_wake wk (sf_meta f). Proof. reflexivity. Qed.

Definition sW (x : sworld) : N := cW sfut sf_meta (s_futs x).
Definition sP (x : sworld) : N := cP sfut sf_meta (s_futs x).
Definition sPhi (x : sworld) : N := sW x + 2 * cN (se0 (s_sh x)) + 3 * sP x.
Definition sWOK (x : sworld) : Prop := wakers_ok sfut sf_meta (s_futs x).

Lemma s_wake_all_eq wk x : s_futs (s_wake_all wk x) = wake_all sfut sh_wake wk (s_futs x).
Proof. reflexivity. Qed.

Lemma sWOK_step x o : sWOK x -> sWOK (fst (sstep x o)).
Proof.
  intro WO. unfold sstep. set (x0 := s_upd x (set_wk [] (s_sh x)) (s_futs x) (s_guards x)).
  assert (W0' : sWOK x0) by exact WO.
  assert (CORE : sWOK (fst (sstep_core x0 o))).
  { revert W0'. generalize x0. clear. intros x WO. unfold sstep_core. destruct o; cbv beta iota zeta.
    - destruct (Nat.eqb (s_handles x) 0); [exact WO|].
      assert (G : wakers_ok sfut sf_meta (s_futs x ++ [(s_nf x, mkSfut arc None meta0)])) by (apply wakers_ok_app; [exact WO | reflexivity]).
      destruct arc; exact G.
    - destruct (alookup f (s_futs x)) as [fu|] eqn:L; [|exact WO].
      destruct (fstatus_eqb (fm_st (sf_meta fu)) FDone || Nat.leb 4 k) eqn:V; [exact WO|].
      apply Bool.orb_false_iff in V. destruct V as (_ & V2). apply Nat.leb_gt in V2.
      destruct (sem_poll (wtag f k) (sf_lis fu) (s_sh x)) as [[l s'] r].
      assert (G : forall st, wakers_ok sfut sf_meta (aupdate f (mkSfut (sf_arc fu) l (mkMeta st (Some (wtag f k)) false)) (s_futs x))).
      { intro st. apply wakers_ok_aupdate; [exact WO|]. intros w Hw. cbn in Hw. inversion Hw. exists k. split; [exact V2 | reflexivity]. }
      destruct r; [destruct (sf_arc fu)|]; apply G.
    - destruct (alookup f (s_futs x)) as [fu|] eqn:L; [|exact WO].
      assert (G : wakers_ok sfut sf_meta (aremove f (s_futs x))) by (apply wakers_ok_aremove; exact WO).
      destruct (sf_arc fu); exact G.
    - destruct (Nat.eqb (s_handles x) 0); [exact WO|]. destruct (sem_try (s_sh x)) as [s' ok]. destruct ok; [destruct arc|]; exact WO.
    - destruct (alookup g (s_guards x)) as [arc|]; [|exact WO]. destruct arc; exact WO.
    - destruct (alookup g (s_guards x)) as [arc|]; [|exact WO]. destruct arc; exact WO.
    - destruct (Nat.eqb (s_handles x) 0); exact WO.
    - destruct (Nat.eqb (s_handles x) 0); exact WO.
    - destruct (Nat.eqb (s_handles x) 0); [exact WO|]. destruct (Nat.eqb (s_handles x) 1 && s_borrowed_alive x); exact WO. }
  destruct (sstep_core x0 o) as [x1 r]. cbn [fst] in *. unfold sWOK. rewrite s_wake_all_eq. apply wakers_ok_wake; [apply sh_wake_meta | exact CORE].
Qed.

Lemma sWOK_init n : sWOK (sw_init n).
Proof. intros k f w []. Qed.

Lemma cW_aupdate l k (f f' : sfut) : alookup k l = Some f -> cW sfut sf_meta (aupdate k f' l) + wW sfut sf_meta f = cW sfut sf_meta l + wW sfut sf_meta f'.
Proof. intro L. apply asum_aupdate. exact L. Qed.
Lemma cP_aupdate l k (f f' : sfut) : alookup k l = Some f -> cP sfut sf_meta (aupdate k f' l) + wP sfut sf_meta f = cP sfut sf_meta l + wP sfut sf_meta f'.
Proof. intro L. apply asum_aupdate. exact L. Qed.

(* the potential after the wake-up pass, in terms of what the poll did to the polled future and the store *)
Lemma phi_bound x fid k f f' x1 : NoDup (map fst (s_futs x)) -> sWOK x -> (k < 4)%nat ->
  alookup fid (s_futs x) = Some f -> fm_w (sf_meta f') = Some (wtag fid k) ->
  s_futs x1 = aupdate fid f' (s_futs x) ->
  sPhi (s_wake_all (swk (s_sh x1)) x1) + wW sfut sf_meta f + 3 * wP sfut sf_meta f <=
  sW x + wW sfut sf_meta f' + N.of_nat (length (swk (s_sh x1))) + 2 * cN (se0 (s_sh x1)) + 3 * (sP x + wP sfut sf_meta f').
Proof.
  intros ND WO K4 L Hw EF. unfold sPhi, sW, sP. rewrite s_wake_all_eq. change (s_sh (s_wake_all (swk (s_sh x1)) x1)) with (s_sh x1).
  rewrite (cP_wake sfut sf_meta sh_wake sh_wake_meta). rewrite EF.
  assert (ND' : NoDup (map fst (aupdate fid f' (s_futs x)))) by (rewrite keys_aupdate; exact ND).
  assert (WO' : wakers_ok sfut sf_meta (aupdate fid f' (s_futs x))).
  { apply wakers_ok_aupdate; [exact WO|]. intros w E. rewrite Hw in E. inversion E. exists k. split; [exact K4 | reflexivity]. }
  pose proof (cW_wake sfut sf_meta sh_wake sh_wake_meta (swk (s_sh x1)) _ ND' WO') as CW.
  pose proof (cW_aupdate _ fid f f' L) as UW. pose proof (cP_aupdate _ fid f f' L) as UP. lia.
Qed.

(* one re-poll of a pending future that was flagged woken strictly decreases the potential *)
Lemma sem_settle_step x fid k f : SLive x -> sWOK x ->
  alookup fid (s_futs x) = Some f -> fm_st (sf_meta f) = FPending -> fm_woken (sf_meta f) = true -> (k < 4)%nat ->
  sPhi (fst (sstep x (SPoll fid k))) + 1 <= sPhi x.
Proof.
  intros HL WO L P Wk K4. pose proof HL as (I & Pe & Av & Er & K1 & K2).
  assert (WF : wW sfut sf_meta f = 1) by (unfold wW, pendb; rewrite P, Wk; reflexivity).
  assert (PF : wP sfut sf_meta f = 1) by (unfold wP, pendb; rewrite P; reflexivity).
  destruct (sf_lis f) as [id|] eqn:Ls; [|exfalso; apply (proj1 (Pe fid f L) P); exact Ls].
  pose proof (ib_listed _ _ _ _ _ _ _ I fid f id L Ls) as Hin.
  unfold sstep. set (x0 := s_upd x (set_wk [] (s_sh x)) (s_futs x) (s_guards x)).
  unfold sstep_core. cbv zeta. change (s_futs x0) with (s_futs x). rewrite L.
  assert (V : fstatus_eqb (fm_st (sf_meta f)) FDone || Nat.leb 4 k = false).
  { apply Bool.orb_false_iff. split; [rewrite P; reflexivity | apply Nat.leb_gt; exact K4]. }
  rewrite V. change (s_sh x0) with (set_wk [] (s_sh x)).
  rewrite (sem_poll_paths (wtag fid k) (sf_lis f) (set_wk [] (s_sh x)) (ib_fresh _ _ _ _ _ _ _ I)).
  unfold sem_poll_spec. rewrite Ls. change (sw0 (set_wk [] (s_sh x))) with (sw0 (s_sh x)). change (se0 (set_wk [] (s_sh x))) with (se0 (s_sh x)).
  change (snid (set_wk [] (s_sh x))) with (snid (s_sh x)).
  assert (PHI : sPhi x = sW x + 2 * cN (se0 (s_sh x)) + 3 * sP x) by reflexivity.
  destruct (0 <? sw0 (s_sh x)) eqn:C.
  - (* acquires: done; its listener is dropped, a notification it holds is passed on *)
    set (s' := drop_listener_opt E0 (Some id) (setw W0 (sw0 (s_sh x) - 1) (set_wk [] (s_sh x)))).
    set (f' := mkSfut (sf_arc f) None (mkMeta FDone (Some (wtag fid k)) false)).
    assert (E0' : se0 s' = fst (ev_drop id (se0 (s_sh x))) /\ swk s' = snd (ev_drop id (se0 (s_sh x)))).
    { unfold s', drop_listener_opt, drop_listener. cbn [gete se0 setw set_wk]. destruct (ev_drop id (se0 (s_sh x))); split; reflexivity. }
    destruct E0' as (Q1 & Q2). pose proof (drop_count id (se0 (s_sh x))) as DC. destruct (ev_drop id (se0 (s_sh x))) as [l' ws]. cbn [fst snd] in Q1, Q2. destruct DC as (DC1 & DC2).
    assert (NA : notified_at id (se0 (s_sh x)) <= 1) by (unfold notified_at; destruct (ev_find id (se0 (s_sh x))) as [[| |]|]; lia).
    pose proof (cN_remove id (se0 (s_sh x))) as CR.
    assert (B : N.of_nat (length (swk (baton s'))) + 2 * cN (se0 (baton s')) <= 2 * cN (se0 (s_sh x)) + 3).
    { unfold baton. destruct (0 <? sw0 s'); [|rewrite Q1, Q2; lia].
      destruct (notify_world 1 false s') as (N1 & N2 & _). pose proof (notify1_count (se0 s')) as NC.
      destruct (ev_notify 1 false (se0 s')) as [l2 ws2]. cbn [fst snd] in N1, N2. destruct NC as (NC1 & NC2 & NC3).
      rewrite N1, N2, app_length, Q2. rewrite Q1 in NC1, NC2, NC3.
      destruct (N.eq_dec (cN l') 0) as [Z|NZ]; [specialize (NC3 Z) | assert (NC4 : cN l2 = cN l') by (apply NC2; lia)]; lia. }
    assert (G : forall x1, s_futs x1 = aupdate fid f' (s_futs x) -> s_sh x1 = baton s' -> sPhi (s_wake_all (swk (s_sh x1)) x1) + 1 <= sPhi x).
    { intros x1 EF ES. pose proof (phi_bound x fid k f f' x1 K1 WO K4 L eq_refl EF) as PB. rewrite ES in PB.
      rewrite WF, PF in PB. change (wW sfut sf_meta f') with 0 in PB. change (wP sfut sf_meta f') with 0 in PB. rewrite PHI, ES. lia. }
    destruct (sf_arc f); cbn [fst]; apply G; reflexivity.
  - destruct (ev_find id (se0 (s_sh x))) as [[|w0|a]|] eqn:Fd.
    4:{ exfalso. apply ev_find_None in Fd. contradiction. }
    + (* not notified (the flag was stale): the waker is replaced *)
      cbn [fst]. set (f' := mkSfut (sf_arc f) (Some id) (mkMeta FPending (Some (wtag fid k)) false)).
      match goal with |- sPhi (s_wake_all _ ?x1) + 1 <= _ => pose proof (phi_bound x fid k f f' x1 K1 WO K4 L eq_refl eq_refl) as PB end.
      cbn [s_sh s_upd swk se0 sete set_wk length] in PB. rewrite (cN_set_task id (wtag fid k)) in PB by (unfold notified_at; rewrite Fd; reflexivity).
      rewrite WF, PF in PB. change (wW sfut sf_meta f') with 0 in PB. change (wP sfut sf_meta f') with 1 in PB. rewrite PHI. cbn [s_sh s_upd swk sete set_wk]. lia.
    + cbn [fst]. set (f' := mkSfut (sf_arc f) (Some id) (mkMeta FPending (Some (wtag fid k)) false)).
      match goal with |- sPhi (s_wake_all _ ?x1) + 1 <= _ => pose proof (phi_bound x fid k f f' x1 K1 WO K4 L eq_refl eq_refl) as PB end.
      cbn [s_sh s_upd swk se0 sete set_wk length] in PB. rewrite (cN_set_task id (wtag fid k)) in PB by (unfold notified_at; rewrite Fd; reflexivity).
      rewrite WF, PF in PB. change (wW sfut sf_meta f') with 0 in PB. change (wP sfut sf_meta f') with 1 in PB. rewrite PHI. cbn [s_sh s_upd swk sete set_wk]. lia.
    + (* notified, but no permit: the notification is consumed and a fresh listener registered *)
      cbn [fst]. set (f' := mkSfut (sf_arc f) (Some (snid (s_sh x))) (mkMeta FPending (Some (wtag fid k)) false)).
      match goal with |- sPhi (s_wake_all _ ?x1) + 1 <= _ => pose proof (phi_bound x fid k f f' x1 K1 WO K4 L eq_refl eq_refl) as PB end.
      cbn [s_sh s_upd swk se0 sete set_wk set_nid length] in PB. rewrite cN_app in PB. cbn [is_notified est] in PB.
      pose proof (cN_remove id (se0 (s_sh x))) as CR. unfold notified_at in CR. rewrite Fd in CR.
      rewrite WF, PF in PB. change (wW sfut sf_meta f') with 0 in PB. change (wP sfut sf_meta f') with 1 in PB. rewrite PHI. cbn [s_sh s_upd swk sete set_wk set_nid]. lia.
Qed.

(* a run of settle polls: each one re-polls a future that is pending and flagged woken *)
Fixpoint settle_run (x : sworld) (ops : list sop) : Prop :=
  match ops with
  | [] => True
  | o :: r => (exists fid k f, o = SPoll fid k /\ (k < 4)%nat /\ alookup fid (s_futs x) = Some f /\
                               fm_st (sf_meta f) = FPending /\ fm_woken (sf_meta f) = true) /\ settle_run (fst (sstep x o)) r
  end.

Theorem sem_settle_bound_gen ops : forall x, SLive x -> sWOK x -> settle_run x ops -> N.of_nat (length ops) <= sPhi x.
Proof.
  induction ops as [|o r IH]; intros x HL WO SR; [cbn; lia|]. destruct SR as ((fid & k & f & -> & K4 & L & P & Wk) & SR).
  pose proof (sem_settle_step x fid k f HL WO L P Wk K4) as ST.
  specialize (IH _ (step_SLive x (SPoll fid k) HL) (sWOK_step x (SPoll fid k) WO) SR). cbn [length]. lia.
Qed.

Lemma run_sWOK n ops : sWOK (srun n ops).
Proof.
  unfold srun. generalize (sWOK_init n). generalize (sw_init n). induction ops as [|o l IH]; intros x H; cbn [fold_left]; [exact H|]. apply IH. apply sWOK_step. exact H.
Qed.

Lemma sW_le_sP x : sW x <= sP x.
Proof. unfold sW, sP, cW, cP. induction (s_futs x) as [|[k f] l IH]; cbn [asum]; [lia|]. unfold wW, wP in *. destruct (pendb (sf_meta f)); destruct (fm_woken (sf_meta f)); cbn; lia. Qed.

(* C17 for the Semaphore: from any reachable state, however the woken futures are re-polled, at most
   4 * pending + 2 * listeners polls happen before no pending future is flagged woken any more *)
Theorem sem_settle_bound n ops0 ops : settle_run (srun n ops0) ops ->
  N.of_nat (length ops) <= 4 * sP (srun n ops0) + 2 * N.of_nat (length (se0 (s_sh (srun n ops0)))).
Proof.
  intro SR. pose proof (sem_settle_bound_gen ops _ (run_SLive n ops0) (run_sWOK n ops0) SR) as B.
  unfold sPhi in B. pose proof (sW_le_sP (srun n ops0)). unfold cN in B. pose proof (count_le_len (se0 (s_sh (srun n ops0)))). lia.
Qed.
