#!/bin/sh
# Builds the whole framework from files on disk (offline): Coq development, extracted
# model + OCaml driver, the translator, and the harness against /repo.
set -e
cd "$(dirname "$0")"
export CARGO_NET_OFFLINE=true
mkdir -p build evidence replays coq/Gen
(cd tools/extract && cargo build --offline --quiet --release)
./check --prepare
(cd coq && coq_makefile -f _CoqProject -o Makefile >/dev/null && timeout 3000 make -j16 >/dev/null)
(cd driver && sh build.sh)
python3 - <<'PY'
import sys, os
sys.argv=['check']
sys.path.insert(0,'.')
import importlib.util, importlib.machinery
loader = importlib.machinery.SourceFileLoader('check', './check')
spec = importlib.util.spec_from_loader('check', loader)
m = importlib.util.module_from_spec(spec); loader.exec_module(m)
h, err = m.build_harness()
if h is None:
    print(err); sys.exit(1)
print('harness:', h)
res, err = m.run_loom('C01')
print('loomsearch:', 'ok' if not err else err[-500:])
res, err = m.run_miri('C15')
print('mirisearch:', res if not err else err[-500:])
PY
