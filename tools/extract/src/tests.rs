//! Unit tests: macro descent, hook skipping, constant folding, fingerprint normalisation.

use super::*;

fn extract(src: &str) -> Output {
    let mut out = Output::default();
    extract_source("m", src, &mut out).expect("source parses");
    disambiguate(&mut out.fns);
    out
}

fn find<'a>(out: &'a Output, name: &str) -> &'a FnInfo {
    out.fns.iter().find(|f| f.name == name).unwrap_or_else(|| panic!("no entry {}", name))
}

fn kinds(f: &FnInfo) -> Vec<&str> {
    f.sites.iter().map(|s| s.kind.as_str()).collect()
}

#[test]
fn pin_project_is_descended_into() {
    let out = extract(
        r#"
        pin_project_lite::pin_project! {
            /// Docs.
            #[project = SlowProj]
            struct Slow<B: Borrow<Mutex<T>>, T: ?Sized> {
                mutex: Option<B>,
                #[pin]
                _pin: PhantomPinned
            }
            impl<T: ?Sized, B: Borrow<Mutex<T>>> PinnedDrop for Slow<B, T> {
                fn drop(this: Pin<&mut Self>) {
                    this.mutex.state.fetch_sub(2, Ordering::Release);
                }
            }
        }
        "#,
    );
    let drop = find(&out, "m::Slow::drop");
    assert_eq!(drop.sites, vec![Site { kind: "fetch_sub".into(), recv: "this.mutex.state".into(), args: vec!["2".into()], ords: vec!["Release".into()] }]);
    assert_eq!(out.trait_impls, vec![("PinnedDrop".to_string(), "Slow".to_string())]);
    let ty = &out.types[0];
    assert_eq!((ty.name.as_str(), ty.public, ty.generics.as_str()), ("Slow", false, "<B:Borrow<Mutex<T>>,T:?Sized>"));
    let fields: Vec<_> = ty.fields.iter().map(|f| (f.name.as_str(), f.ty.as_str(), f.pinned)).collect();
    assert_eq!(fields, vec![("mutex", "Option<B>", false), ("_pin", "PhantomPinned", true)]);
    assert!(out.warnings.is_empty());
}

#[test]
fn expression_macros_and_nested_items() {
    let out = extract(
        r#"
        impl S {
            const_fn! {
                const_if: #[cfg(not(loom))];
                /// Docs.
                pub const fn new() -> S { S { state: AtomicUsize::new(0) } }
            }
            async fn go(&self, strategy: &mut St) {
                event_listener::listener!(self.ev => listener);
                ready!(strategy.poll(this.listener, cx));
                if matches!(self.state.load(Ordering::Acquire), State::A { .. } | State::B) {}
                f.poll(&mut cx);
                strategy.wait(listener).await;
                self.lock().wait();
                let g = |x| self.ev.notify(x);
                struct Guard<'a>(&'a S);
                impl Drop for Guard<'_> {
                    fn drop(&mut self) { self.0.ev.notify(1); }
                }
            }
        }
        "#,
    );
    assert_eq!(kinds(find(&out, "m::S::new")), Vec::<&str>::new());
    assert_eq!(kinds(find(&out, "m::S::go")), vec!["listener!", "poll", "load", "wait", "await", "notify"]);
    assert_eq!(find(&out, "m::S::go").sites[0].recv, "self.ev");
    assert_eq!(kinds(find(&out, "m::Guard::drop")), vec!["notify"]);
    assert_eq!(out.types.iter().map(|t| t.name.as_str()).collect::<Vec<_>>(), vec!["Guard"]);
    assert!(out.warnings.is_empty());
}

#[test]
fn unparsable_macro_is_scanned_with_a_warning() {
    let out = extract("fn f(a: &A) { weird!(a.state.store(1, Ordering::SeqCst) => then else @ ); }");
    let f = find(&out, "m::f");
    assert_eq!(f.sites, vec![Site { kind: "store".into(), recv: "a.state".into(), args: vec!["1".into()], ords: vec!["SeqCst".into()] }]);
    assert_eq!(out.warnings.len(), 1);
    assert!(render_sites(&out).contains("(* WARNING m::f"));
}

#[test]
fn easy_wrapper_yields_type_and_wrapper() {
    let out = extract(
        r#"
        easy_wrapper! {
            /// The future.
            pub struct Lock<'a, T: ?Sized>(LockInner<'a, T> => MutexGuard<'a, T>);
            #[cfg(all(feature = "std", not(target_family = "wasm")))]
            pub(crate) wait();
        }
        "#,
    );
    assert_eq!(out.wrappers, vec![("Lock".to_string(), "LockInner".to_string(), "MutexGuard".to_string())]);
    let t = &out.types[0];
    assert_eq!((t.name.as_str(), t.public, t.generics.as_str()), ("Lock", true, "<'a,T:?Sized>"));
    assert_eq!((t.fields[0].name.as_str(), t.fields[0].ty.as_str(), t.fields[0].pinned), ("_inner", "LockInner<'a,T>", true));
}

const HOOKED: &str = r#"
    /// Hook module.
    #[cfg(all(smol_rs_async_lock_verif, feature = "std"))]
    pub mod verif;
    impl<T> M<T> {
        fn poll(&self) {
            loop {
                self.lock_ops.notify(1);
                /// Doc on the hook.
                #[cfg(all(smol_rs_async_lock_verif, feature = "std"))]
                match crate::verif::oracle_next() {
                    Some(true) => break,
                    None => {}
                }
                #[cfg(feature = "std")]
                if start.elapsed() > LIMIT { break; }
            }
            let s = S {
                #[cfg(smol_rs_async_lock_verif)]
                hook: self.state.load(Ordering::SeqCst),
                a: 1,
            };
            ready!({
                #[cfg(smol_rs_async_lock_verif)]
                self.state.store(0, Ordering::SeqCst);
                strategy.poll(l, cx)
            });
        }
    }
    #[cfg(all(smol_rs_async_lock_verif, feature = "std"))]
    impl<T> M<T> {
        pub fn verif_state(&self) -> usize { self.state.load(Ordering::SeqCst) }
    }
    struct P {
        #[cfg(smol_rs_async_lock_verif)]
        hook: HashMap<u8, u8>,
        x: u8,
    }
"#;

const UNHOOKED: &str = r#"
    impl<T> M<T> {
        fn poll(&self) {
            loop {
                self.lock_ops.notify(1);
                #[cfg(feature = "std")]
                if start.elapsed() > LIMIT { break; }
            }
            let s = S {
                a: 1,
            };
            ready!({
                strategy.poll(l, cx)
            });
        }
    }
    struct P {
        x: u8,
    }
"#;

#[test]
fn verification_hooks_are_invisible() {
    let (a, b) = (extract(HOOKED), extract(UNHOOKED));
    assert_eq!(render_sites(&a), render_sites(&b));
    assert_eq!(render_markers(&a), render_markers(&b));
    assert_eq!(kinds(find(&a, "m::M::poll")), vec!["notify", "poll"]);
    assert_eq!(a.fns.len(), 1);
}

#[test]
fn constants_are_folded() {
    let out = extract(
        r#"
        const WRITER_BIT: usize = 1;
        const ONE_READER: usize = 2;
        const BOTH: usize = ONE_READER | WRITER_BIT;
        const NAME: &str = "x";
        fn f(s: &S, state: usize) {
            s.state.fetch_sub(ONE_READER - WRITER_BIT, Ordering::SeqCst);
            s.state.compare_exchange(state, state + ONE_READER, Ordering::AcqRel, Ordering::Acquire);
            s.state.fetch_and(!WRITER_BIT, Ordering::SeqCst);
            s.state.compare_exchange(2, 2 | 1, Ordering::Acquire, Ordering::Acquire);
            s.ev.notify(usize::MAX);
            s.state.fetch_add((BOTH + 1) * 0x10, Ordering::Relaxed);
            s.state.load(load_ordering);
        }
        "#,
    );
    let args: Vec<Vec<&str>> = find(&out, "m::f").sites.iter().map(|s| s.args.iter().map(|a| a.as_str()).collect()).collect();
    assert_eq!(args, vec![vec!["1"], vec!["state", "state+2"], vec!["!1"], vec!["2", "3"], vec!["usize::MAX"], vec!["64"], vec![]]);
    assert_eq!(find(&out, "m::f").sites[1].ords, vec!["AcqRel", "Acquire"]);
    assert_eq!(find(&out, "m::f").sites[6].ords, vec!["OrdVar \"load_ordering\""]);
    let consts: Vec<_> = out.consts.iter().map(|(m, n, v)| (m.as_str(), n.as_str(), v.as_str())).collect();
    assert_eq!(consts, vec![("m", "WRITER_BIT", "1"), ("m", "ONE_READER", "2"), ("m", "BOTH", "3")]);
}

fn body_of(src: &str) -> String {
    find(&extract(src), "m::f").body.clone()
}

#[test]
fn fingerprint_ignores_orderings_layout_and_docs() {
    let base = body_of("fn f(s: &S) { s.a.store(1, Ordering::Release); s.ev.notify(1); }");
    assert_eq!(base.len(), 16);
    // Ordering placeholder.
    assert_eq!(base, body_of("fn f(s: &S) { s.a.store(1, Ordering::Relaxed); s.ev.notify(1); }"));
    // Layout, comments, doc comments and ignorable attributes.
    assert_eq!(
        base,
        body_of("fn f(s: &S) {\n  // comment\n  /// doc\n  #[inline]\n  #[allow(unused)]\n  s . a\n .store( 1 ,Ordering::Release ) ; /* c */ s.ev.notify(1);\n}")
    );
    // An ordering that is not a direct argument of a site call is NOT masked.
    let indirect = |o: &str| body_of(&format!("fn f(s: &S) {{ let o = if c {{ Ordering::{} }} else {{ Ordering::SeqCst }}; s.a.load(o); s.a.load(pick(Ordering::Acquire)); }}", o));
    assert_ne!(indirect("Acquire"), indirect("Relaxed"));
    assert_ne!(
        body_of("fn f(s: &S) { s.a.load(pick(Ordering::Acquire)); }"),
        body_of("fn f(s: &S) { s.a.load(pick(Ordering::Relaxed)); }")
    );
    // Direct arguments are masked also with a longer path, a trailing comma, or inside a macro.
    assert_eq!(
        body_of("fn f(s: &S) { ready!(s.a.swap(1, atomic::Ordering::AcqRel,)); }"),
        body_of("fn f(s: &S) { ready!(s.a.swap(1, atomic::Ordering::Relaxed,)); }")
    );
    // Anything else is visible.
    assert_ne!(base, body_of("fn f(s: &S) { s.a.store(1, Ordering::Release); s.ev.notify(0); }"));
    assert_ne!(base, body_of("fn f(s: &S) { s.ev.notify(1); s.a.store(1, Ordering::Release); }"));
    assert_ne!(base, body_of("fn f(s: &S) { #[cfg(loom)] s.a.store(1, Ordering::Release); s.ev.notify(1); }"));
}

#[test]
fn fnv1a64_reference_values() {
    assert_eq!(fnv1a64(b""), 0xcbf29ce484222325);
    assert_eq!(fnv1a64(b"a"), 0xaf63dc4c8601ec8c);
    assert_eq!(fnv1a64(b"foobar"), 0x85944171f73967e8);
}

#[test]
fn markers_bounds_and_duplicate_names() {
    let out = extract(
        r#"
        unsafe impl<T: Send + Sync + ?Sized> Send for G<'_, T> {}
        unsafe impl<T: ?Sized> Sync for G<'_, T> where T: Sync {}
        impl<T: ?Sized> G<'_, T> {
            pub fn source(g: &Self) -> &T where T: Send { g.0 }
            fn a(&self) {}
        }
        impl<T> G<'_, T> { fn a(&self) {} }
        pub enum E { Unit, Tuple(*mut T, u8), Named { #[pin] inner: &'a mut X } }
        "#,
    );
    let markers: Vec<_> = out.markers.iter().map(|m| (m.tr.as_str(), m.ty.as_str(), m.bounds.join("+"))).collect();
    assert_eq!(markers, vec![("Send", "G", "Send+Sync".to_string()), ("Sync", "G", "Sync".to_string())]);
    assert_eq!(out.method_bounds, vec![("G".to_string(), "source".to_string(), vec!["Send".to_string()])]);
    assert_eq!(out.fns.iter().map(|f| f.name.as_str()).collect::<Vec<_>>(), vec!["m::G::source", "m::G::a", "m::G::a#2"]);
    let fields: Vec<_> = out.types[0].fields.iter().map(|f| (f.name.as_str(), f.ty.as_str(), f.pinned)).collect();
    assert_eq!(fields, vec![("Tuple.0", "*mutT", false), ("Tuple.1", "u8", false), ("Named.inner", "&'amutX", true)]);
    assert!(out.types[0].public);
}

#[test]
fn ordering_variables_carry_their_initialiser() {
    let out = extract(
        r#"
        fn f(this: &mut T) {
            let load_ordering = if this.no_readers.is_some() {
                Ordering::Acquire
            } else {
                Ordering::SeqCst
            };
            this.lock.state.load(load_ordering);
            let load_ordering: Ordering = Ordering::Relaxed;
            this.lock.state.load(load_ordering);
            this.lock.state.load(param);
        }
        "#,
    );
    let ords: Vec<&str> = find(&out, "m::f").sites.iter().map(|s| s.ords[0].as_str()).collect();
    assert_eq!(
        ords,
        vec![
            "OrdVar \"load_ordering=ifthis.no_readers.is_some(){Ordering::Acquire}else{Ordering::SeqCst}\"",
            "OrdVar \"load_ordering=Ordering::Relaxed\"",
            "OrdVar \"param\"",
        ]
    );
}

fn ast(ty: &str, params: &[&str]) -> String {
    let params: Vec<String> = params.iter().map(|p| p.to_string()).collect();
    ty_ast(&syn::parse_str::<Type>(ty).unwrap(), &params, false)
}

#[test]
fn type_ast_printer() {
    // Type parameters versus other identifiers; lifetimes dropped; nested generics.
    assert_eq!(ast("T", &["T"]), r#"TParam "T""#);
    assert_eq!(ast("T", &["B"]), r#"TApp "T" []"#);
    assert_eq!(ast("usize", &["T"]), r#"TApp "usize" []"#);
    assert_eq!(ast("Self", &["T"]), r#"TApp "Self" []"#);
    assert_eq!(ast("Arc<Mutex<T>>", &["T"]), r#"TApp "Arc" [TApp "Mutex" [TParam "T"]]"#);
    assert_eq!(ast("alloc::sync::Arc<T>", &["T"]), r#"TApp "Arc" [TParam "T"]"#);
    assert_eq!(ast("AcquireSlow<&'a Mutex<T>, T>", &["T"]), r#"TApp "AcquireSlow" [TRef false (TApp "Mutex" [TParam "T"]); TParam "T"]"#);
    assert_eq!(ast("ManuallyDrop<RawUpgrade<'static>>", &[]), r#"TApp "ManuallyDrop" [TApp "RawUpgrade" []]"#);
    // References and raw pointers.
    assert_eq!(ast("&'a RawRwLock", &[]), r#"TRef false (TApp "RawRwLock" [])"#);
    assert_eq!(ast("&'a mut T", &["T"]), r#"TRef true (TParam "T")"#);
    assert_eq!(ast("*const T", &["T"]), r#"TPtr false (TParam "T")"#);
    assert_eq!(ast("*mut Option<B>", &["B", "T"]), r#"TPtr true (TApp "Option" [TParam "B"])"#);
    // Tuples, parentheses and everything else.
    assert_eq!(ast("Mutex<()>", &[]), r#"TApp "Mutex" [TTuple []]"#);
    assert_eq!(ast("(T, &u8)", &["T"]), r#"TTuple [TParam "T"; TRef false (TApp "u8" [])]"#);
    assert_eq!(ast("(T)", &["T"]), r#"TParam "T""#);
    assert_eq!(ast("fn(&T) -> u8", &["T"]), r#"TOther "fn(&T)->u8""#);
    assert_eq!(ast("[T; 4]", &["T"]), r#"TOther "[T;4]""#);
    assert_eq!(ast("T::Output", &["T"]), r#"TOther "T::Output""#);
    assert_eq!(ast("Box<dyn Fn(u8) -> T>", &["T"]), r#"TApp "Box" [TOther "dynFn(u8)->T"]"#);
}

#[test]
fn type_params_wrappers_and_guard_methods() {
    let out = extract(
        r#"
        easy_wrapper! {
            pub struct Lock<'a, T: ?Sized>(LockInner<'a, T> => MutexGuard<'a, T>);
        }
        pub struct G<'a, T: ?Sized> { lock: &'a Raw, value: *mut T }
        struct Raw;
        struct Private;
        impl<'a, T: ?Sized> G<'a, T> {
            pub fn downgrade(guard: Self) -> Lock<'a, T> { todo!() }
            pub fn try_up(self) -> Result<Lock<'a, T>, Self> { todo!() }
            pub fn same(self) -> G<'a, T> { self }
            pub fn into_inner(self) -> T { todo!() }
            pub fn by_ref(&self) -> Lock<'a, T> { todo!() }
            pub fn pinned(self: Pin<&mut Self>) -> Lock<'a, T> { todo!() }
        }
        impl Private { fn f(self) -> Raw { Raw } }
        "#,
    );
    let lock = &out.types[0];
    assert_eq!((lock.params.clone(), lock.lifetimes.clone()), (vec!["T".to_string()], vec!["'a".to_string()]));
    assert_eq!(lock.fields[0].ast, r#"(TApp "LockInner" [TParam "T"])"#);
    let g = &out.types[1];
    assert_eq!(g.fields.iter().map(|f| f.ast.as_str()).collect::<Vec<_>>(), vec![r#"(TRef false (TApp "Raw" []))"#, r#"(TPtr true (TParam "T"))"#]);
    let text = render_markers(&out);
    let listed = text.split("Definition guard_methods").nth(1).unwrap();
    assert!(listed.contains(r#"("G", "downgrade", "Self", "Lock<'a,T>")"#));
    assert!(listed.contains(r#"("G", "try_up", "Self", "Result<Lock<'a,T>,Self>")"#));
    assert_eq!(listed.matches("(\"").count(), 2, "{}", listed);
}
