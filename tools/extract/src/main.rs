//! extract — translate the Rust sources of a crate into two Coq tables.
//!
//! `extract <src_dir> <out_dir>` parses every `*.rs` file under `<src_dir>` (except `verif.rs`)
//! and writes `<out_dir>/Sites.v` (per-function atomic/event call sites and body fingerprints)
//! and `<out_dir>/Markers.v` (Send/Sync markers, type definitions, wrappers, trait impls).
//! `SPEC.md` next to `Cargo.toml` is the contract for the output format.
//!
//! Pipeline per file:
//!   text --tokenise--> TokenStream --strip_hooks--> TokenStream --syn--> File --Cx::items--> Output
//! Verification hooks (`#[cfg(.. smol_rs_async_lock_verif ..)]`) are removed at token level,
//! before parsing, so nothing downstream (sites, fingerprints, types) can ever see them, whether
//! they sit at item level, inside a function body or inside a macro invocation.

use proc_macro2::{Delimiter, Group, TokenStream, TokenTree};
use quote::ToTokens;
use std::collections::{BTreeMap, HashMap};
use std::fmt::Write as _;
use std::path::{Path, PathBuf};
use syn::parse::{Parse, ParseStream, Parser};
use syn::punctuated::Punctuated;
use syn::visit::Visit;
use syn::{Expr, Fields, Generics, Item, Token, Type};

/// The cfg flag that guards verification hooks.
const VERIF_CFG: &str = "smol_rs_async_lock_verif";

/// Method names that constitute a site.
const SITE_METHODS: &[&str] = &[
    "load", "store", "swap", "compare_exchange", "compare_exchange_weak", "fetch_add", "fetch_sub",
    "fetch_or", "fetch_and", "fetch_xor", "fetch_update", "with_mut", "listen", "notify",
    "notify_additional", "notify_relaxed", "notify_additional_relaxed", "poll", "wait",
    "total_listeners",
];

/// Attributes that do not take part in a body fingerprint.
const DROPPED_ATTRS: &[&str] = &["doc", "inline", "cold", "must_use", "allow"];

/// Traits recorded in `trait_impls`.
const LISTED_TRAITS: &[&str] = &[
    "Deref", "DerefMut", "Drop", "Future", "EventListenerFuture", "Clone", "Copy", "PinnedDrop",
];

const ORDERINGS: &[&str] = &["Relaxed", "Acquire", "Release", "AcqRel", "SeqCst"];

// ───────────────────────────── token helpers ─────────────────────────────

fn toks(ts: TokenStream) -> Vec<TokenTree> {
    ts.into_iter().collect()
}

fn is_punct(t: &TokenTree, c: char) -> bool {
    matches!(t, TokenTree::Punct(p) if p.as_char() == c)
}

fn ident_of(t: &TokenTree) -> Option<String> {
    match t {
        TokenTree::Ident(i) => Some(i.to_string()),
        _ => None,
    }
}

/// If an attribute starts at `v[i]`, return its length in tokens (2 for `#[..]`, 3 for `#![..]`)
/// and the contents of the brackets.
fn attr_at(v: &[TokenTree], i: usize) -> Option<(usize, TokenStream)> {
    if !v.get(i).map_or(false, |t| is_punct(t, '#')) {
        return None;
    }
    let bang = v.get(i + 1).map_or(false, |t| is_punct(t, '!')) as usize;
    match v.get(i + 1 + bang) {
        Some(TokenTree::Group(g)) if g.delimiter() == Delimiter::Bracket => Some((2 + bang, g.stream())),
        _ => None,
    }
}

fn first_ident(ts: &TokenStream) -> Option<String> {
    ts.clone().into_iter().next().and_then(|t| ident_of(&t))
}

/// Does the identifier `name` occur anywhere (at any depth) in `ts`?
fn mentions(ts: TokenStream, name: &str) -> bool {
    ts.into_iter().any(|t| match t {
        TokenTree::Group(g) => mentions(g.stream(), name),
        t => ident_of(&t).as_deref() == Some(name),
    })
}

fn delims(d: Delimiter) -> (&'static str, &'static str) {
    match d {
        Delimiter::Parenthesis => ("(", ")"),
        Delimiter::Brace => ("{", "}"),
        Delimiter::Bracket => ("[", "]"),
        Delimiter::None => ("", ""),
    }
}

/// Flatten a token stream into its leaf tokens; groups contribute their delimiters.
fn leaves(ts: TokenStream, out: &mut Vec<String>) {
    for t in ts {
        match t {
            TokenTree::Group(g) => {
                let (open, close) = delims(g.delimiter());
                out.push(open.to_string());
                leaves(g.stream(), out);
                out.push(close.to_string());
            }
            t => out.push(t.to_string()),
        }
    }
}

/// Print tokens with all whitespace removed (`&'a Mutex<T>` becomes `&'aMutex<T>`).
fn compact(t: &impl ToTokens) -> String {
    let mut l = Vec::new();
    leaves(t.to_token_stream(), &mut l);
    l.concat()
}

/// Split a token stream at its top-level commas (a trailing comma yields no empty chunk).
fn split_commas(ts: TokenStream) -> Vec<TokenStream> {
    let mut chunks = vec![TokenStream::new()];
    for t in ts {
        if is_punct(&t, ',') {
            chunks.push(TokenStream::new());
        } else {
            chunks.last_mut().unwrap().extend([t]);
        }
    }
    if chunks.last().map_or(false, |c| c.is_empty()) {
        chunks.pop();
    }
    chunks
}

// ───────────────────────────── hook removal ─────────────────────────────

/// Parse one `T` from the front of `ts` and return what is left. With `terminated`, the node must
/// be followed by `,` or the end of input (the comma is consumed).
fn rest_after<T: Parse>(ts: &TokenStream, terminated: bool) -> Option<TokenStream> {
    let parser = |input: ParseStream| {
        input.parse::<T>()?;
        if terminated && !input.is_empty() {
            input.parse::<Token![,]>()?;
        }
        input.parse::<TokenStream>()
    };
    parser.parse2(ts.clone()).ok()
}

struct NamedField;
impl Parse for NamedField {
    fn parse(input: ParseStream) -> syn::Result<Self> {
        syn::Field::parse_named(input).map(|_| NamedField)
    }
}

/// Drop the syntactic node a hook attribute was attached to: a statement or item, a match arm,
/// a field definition or a field initialiser; as a last resort everything up to the next `,`/`;`.
fn skip_one_node(ts: TokenStream) -> TokenStream {
    rest_after::<syn::Stmt>(&ts, false)
        .or_else(|| rest_after::<syn::Arm>(&ts, false))
        .or_else(|| rest_after::<NamedField>(&ts, true))
        .or_else(|| rest_after::<syn::FieldValue>(&ts, true))
        .unwrap_or_else(|| {
            let v = toks(ts);
            let end = v.iter().position(|t| is_punct(t, ',') || is_punct(t, ';'));
            v.into_iter().skip(end.map_or(usize::MAX, |e| e + 1)).collect()
        })
}

/// Remove everything that carries a `#[cfg(..)]` attribute mentioning [`VERIF_CFG`], together
/// with the other attributes (doc comments) of the same node. Works at every nesting depth.
fn strip_hooks(ts: TokenStream) -> TokenStream {
    let mut v = toks(ts);
    let mut out: Vec<TokenTree> = Vec::new();
    let mut i = 0;
    while i < v.len() {
        match attr_at(&v, i) {
            Some((2, body)) if first_ident(&body).as_deref() == Some("cfg") && mentions(body.clone(), VERIF_CFG) => {
                // Attributes of the same node that were already copied go away too.
                while out.len() >= 2 && attr_at(&out, out.len() - 2).is_some() {
                    out.truncate(out.len() - 2);
                }
                v = toks(skip_one_node(v.drain(i + 2..).collect()));
                i = 0;
            }
            _ => {
                out.push(match &v[i] {
                    TokenTree::Group(g) => Group::new(g.delimiter(), strip_hooks(g.stream())).into(),
                    t => t.clone(),
                });
                i += 1;
            }
        }
    }
    out.into_iter().collect()
}

// ───────────────────────────── fingerprints ─────────────────────────────

/// Is this token run exactly a path `[a::b::]Ordering::X`?
fn is_ordering_path(chunk: &[TokenTree]) -> bool {
    let n = chunk.len();
    n >= 4
        && chunk.iter().all(|t| ident_of(t).is_some() || is_punct(t, ':'))
        && ident_of(&chunk[n - 1]).is_some()
        && is_punct(&chunk[n - 2], ':')
        && is_punct(&chunk[n - 3], ':')
        && ident_of(&chunk[n - 4]).as_deref() == Some("Ordering")
}

/// Methods whose direct `Ordering::X` arguments are masked in fingerprints: the site methods
/// that are unconditionally sites (`poll`/`wait` depend on the receiver and take no orderings),
/// so every masked ordering is guaranteed to be reported in some `s_ords`.
fn masks_orderings(method: &str) -> bool {
    SITE_METHODS.contains(&method) && method != "poll" && method != "wait"
}

/// The argument list of a site call: a direct argument `Ordering::X` becomes `Ordering::_`.
fn fp_site_args(ts: TokenStream, out: &mut Vec<String>) {
    let v = toks(ts);
    for (k, chunk) in v.split(|t| is_punct(t, ',')).enumerate() {
        if k > 0 {
            out.push(",".to_string());
        }
        if is_ordering_path(chunk) {
            out.extend(chunk[..chunk.len() - 1].iter().map(|t| t.to_string()));
            out.push("_".to_string());
        } else {
            fp_leaves(chunk.iter().cloned().collect(), out);
        }
    }
}

/// Leaf tokens of a body, normalised: ignorable attributes dropped, and `Ordering::X` replaced
/// by `Ordering::_` where (and only where) it is a direct argument of a site call. Any other
/// `Ordering::X` (e.g. in `let load_ordering = if c { Ordering::Acquire } else { .. }`) stays.
fn fp_leaves(ts: TokenStream, out: &mut Vec<String>) {
    let v = toks(ts);
    let mut i = 0;
    while i < v.len() {
        if let Some((n, body)) = attr_at(&v, i) {
            if first_ident(&body).map_or(false, |s| DROPPED_ATTRS.contains(&s.as_str())) {
                i += n;
                continue;
            }
        }
        match &v[i] {
            TokenTree::Group(g) => {
                let site_call = g.delimiter() == Delimiter::Parenthesis
                    && i >= 2
                    && is_punct(&v[i - 2], '.')
                    && ident_of(&v[i - 1]).map_or(false, |m| masks_orderings(&m));
                let (open, close) = delims(g.delimiter());
                out.push(open.to_string());
                if site_call {
                    fp_site_args(g.stream(), out);
                } else {
                    fp_leaves(g.stream(), out);
                }
                out.push(close.to_string());
            }
            t => out.push(t.to_string()),
        }
        i += 1;
    }
}

fn fnv1a64(bytes: &[u8]) -> u64 {
    bytes.iter().fold(0xcbf2_9ce4_8422_2325, |h, b| (h ^ *b as u64).wrapping_mul(0x0000_0100_0000_01b3))
}

/// 16 hex digits: FNV-1a 64 of the normalised tokens joined by single spaces.
fn fingerprint(ts: TokenStream) -> String {
    let mut l = Vec::new();
    fp_leaves(ts, &mut l);
    l.retain(|s| !s.is_empty());
    format!("{:016x}", fnv1a64(l.join(" ").as_bytes()))
}

// ───────────────────────────── constants and arguments ─────────────────────────────

type Consts = BTreeMap<String, i128>;

/// Evaluate an arithmetic expression over integer literals and known constants (`+ - * | & << >>`,
/// parentheses). Anything else — including `!x`, whose value depends on the word size, and
/// negative results — is "not foldable".
fn fold(e: &Expr, consts: &Consts) -> Option<i128> {
    use syn::BinOp::*;
    match e {
        Expr::Lit(syn::ExprLit { lit: syn::Lit::Int(i), .. }) => i.base10_parse().ok(),
        Expr::Path(p) => p.path.get_ident().and_then(|i| consts.get(&i.to_string()).copied()),
        Expr::Paren(p) => fold(&p.expr, consts),
        Expr::Group(g) => fold(&g.expr, consts),
        Expr::Binary(b) => {
            let (l, r) = (fold(&b.left, consts)?, fold(&b.right, consts)?);
            let v = match b.op {
                Add(_) => l.checked_add(r),
                Sub(_) => l.checked_sub(r),
                Mul(_) => l.checked_mul(r),
                BitOr(_) => Some(l | r),
                BitAnd(_) => Some(l & r),
                Shl(_) => u32::try_from(r).ok().and_then(|r| l.checked_shl(r)),
                Shr(_) => u32::try_from(r).ok().and_then(|r| l.checked_shr(r)),
                _ => None,
            }?;
            (v >= 0).then_some(v)
        }
        _ => None,
    }
}

/// Argument text: the folded value if the whole argument folds, otherwise the compact text with
/// constant names replaced by their values (`state+ONE_READER` -> `state+2`, `!WRITER_BIT` -> `!1`).
fn arg_text(ts: &TokenStream, consts: &Consts) -> String {
    if let Some(v) = syn::parse2::<Expr>(ts.clone()).ok().and_then(|e| fold(&e, consts)) {
        return v.to_string();
    }
    let mut l = Vec::new();
    leaves(ts.clone(), &mut l);
    for k in 0..l.len() {
        let prev = if k > 0 { l[k - 1].as_str() } else { "" };
        let next = l.get(k + 1).map_or("", |s| s.as_str());
        // Only a free-standing identifier is a constant: not `x.NAME`, `a::NAME`, `NAME::b`, `NAME(..)`.
        if let (Some(v), false, false) = (consts.get(&l[k]), [".", ":"].contains(&prev), [":", "(", "!"].contains(&next)) {
            l[k] = v.to_string();
        }
    }
    l.concat()
}

fn is_ident_text(s: &str) -> bool {
    !s.is_empty() && !s.starts_with(|c: char| c.is_ascii_digit()) && s.chars().all(|c| c.is_alphanumeric() || c == '_')
}

/// Argument positions that hold memory orderings, for the atomic methods we know.
fn ordering_positions(method: &str, nargs: usize) -> &'static [usize] {
    match (method, nargs) {
        ("load", 1) => &[0],
        ("store" | "swap" | "fetch_add" | "fetch_sub" | "fetch_or" | "fetch_and" | "fetch_xor", 2) => &[1],
        ("compare_exchange" | "compare_exchange_weak", 4) => &[2, 3],
        ("fetch_update", 3) => &[0, 1],
        _ => &[],
    }
}

enum Arg {
    /// Coq term of type `ord`.
    Ord(String),
    /// Plain argument text.
    Val(String),
}

/// `Ordering::X` paths are orderings wherever they occur; a bare variable is one only in an
/// ordering position of a known atomic method (`state.load(load_ordering)`). Such a variable is
/// printed as `name=<initialiser>` when `lets` knows a `let name = <initialiser>;` for it.
fn classify_arg(method: &str, idx: usize, nargs: usize, ts: &TokenStream, consts: &Consts, lets: &HashMap<String, String>) -> Arg {
    let s = compact(ts);
    if let Some((head, last)) = s.rsplit_once("::") {
        let head_is_ordering = head == "Ordering" || head.ends_with("::Ordering");
        if head_is_ordering && is_ident_text(last) && head.split("::").all(is_ident_text) {
            return Arg::Ord(if ORDERINGS.contains(&last) { last.to_string() } else { format!("OrdVar {}", q(&s)) });
        }
    }
    if ordering_positions(method, nargs).contains(&idx) && is_ident_text(&s) {
        let text = lets.get(&s).map_or(s.clone(), |init| format!("{}={}", s, init));
        return Arg::Ord(format!("OrdVar {}", q(&text)));
    }
    Arg::Val(arg_text(ts, consts))
}

// ───────────────────────────── macro bodies ─────────────────────────────

enum MacroBody {
    Items(Vec<Item>),
    Exprs(Vec<Expr>),
    Stmts(Vec<syn::Stmt>),
    Unparsed,
}

/// Remove `#[pin]`, `#[project = ..]`, `#[project_ref = ..]`, `#[project_replace = ..]` everywhere.
fn strip_pin_attrs(ts: TokenStream) -> TokenStream {
    let v = toks(ts);
    let mut out = Vec::new();
    let mut i = 0;
    while i < v.len() {
        match attr_at(&v, i) {
            Some((n, body)) if first_ident(&body).map_or(false, |s| s == "pin" || s.starts_with("project")) => i += n,
            _ => {
                out.push(match &v[i] {
                    TokenTree::Group(g) => Group::new(g.delimiter(), strip_pin_attrs(g.stream())).into(),
                    t => t.clone(),
                });
                i += 1;
            }
        }
    }
    out.into_iter().collect()
}

/// Make sense of a macro invocation's tokens: items, then a comma-separated expression list, then
/// statements, then comma-separated chunks that are each an expression or a pattern (`matches!`).
fn parse_macro_body(name: &str, ts: &TokenStream) -> MacroBody {
    if ts.is_empty() {
        return MacroBody::Exprs(Vec::new());
    }
    if let Ok(f) = syn::parse2::<syn::File>(ts.clone()) {
        return MacroBody::Items(f.items);
    }
    if name == "pin_project" {
        // Only reached if the attributes confused the parser; `fd_pinned` is then lost.
        if let Ok(f) = syn::parse2::<syn::File>(strip_pin_attrs(ts.clone())) {
            return MacroBody::Items(f.items);
        }
    }
    if let Ok(es) = Punctuated::<Expr, Token![,]>::parse_terminated.parse2(ts.clone()) {
        return MacroBody::Exprs(es.into_iter().collect());
    }
    if let Ok(stmts) = syn::Block::parse_within.parse2(ts.clone()) {
        return MacroBody::Stmts(stmts);
    }
    let mut exprs = Vec::new();
    for chunk in split_commas(ts.clone()) {
        if let Ok(e) = syn::parse2::<Expr>(chunk.clone()) {
            exprs.push(e);
        } else if syn::Pat::parse_multi_with_leading_vert.parse2(chunk).is_err() {
            return MacroBody::Unparsed;
        }
    }
    MacroBody::Exprs(exprs)
}

/// `const_fn! { const_if: #[cfg(..)]; <fn item> }` -> the fn item.
fn parse_const_fn(ts: &TokenStream) -> syn::Result<syn::ImplItemFn> {
    let v = toks(ts.clone());
    let semi = v.iter().position(|t| is_punct(t, ';')).map_or(0, |p| p + 1);
    syn::parse2(v.into_iter().skip(semi).collect())
}

/// `easy_wrapper! { #[doc..] pub struct Name<generics>(Inner => Output) [where ..]; ... }`
fn parse_easy_wrapper(ts: &TokenStream) -> syn::Result<(syn::Ident, Generics, Type, Type)> {
    let parser = |input: ParseStream| {
        input.call(syn::Attribute::parse_outer)?;
        input.parse::<syn::Visibility>()?;
        input.parse::<Token![struct]>()?;
        let name = input.parse()?;
        let generics = input.parse()?;
        let content;
        syn::parenthesized!(content in input);
        let inner = content.parse()?;
        content.parse::<Token![=>]>()?;
        let output = content.parse()?;
        input.parse::<TokenStream>()?; // `where` clause, `;`, the `wait();` line
        Ok((name, generics, inner, output))
    };
    parser.parse2(ts.clone())
}

// ───────────────────────────── collected data ─────────────────────────────

#[derive(Debug, Clone, PartialEq)]
struct Site {
    kind: String,
    recv: String,
    args: Vec<String>,
    /// Coq terms: `Acquire`, `OrdVar "x"`.
    ords: Vec<String>,
}

struct FnInfo {
    name: String,
    sites: Vec<Site>,
    body: String,
}

struct Marker {
    tr: String,
    ty: String,
    bounds: Vec<String>,
    file: String,
    source: String,
}

struct Field {
    name: String,
    ty: String,
    pinned: bool,
    /// Coq term of type `ty` (see [`ty_ast`]).
    ast: String,
}

struct TyDef {
    name: String,
    file: String,
    public: bool,
    generics: String,
    /// Generic type parameters, in order (`["B"; "T"]`).
    params: Vec<String>,
    /// Generic lifetime parameters, in order (`["'a"]`).
    lifetimes: Vec<String>,
    fields: Vec<Field>,
}

/// Candidate for `guard_methods`: an inherent fn taking its own type by value. Whether the type
/// is public and whether the return type mentions another crate type is only known at the end.
struct GuardMethod {
    ty: String,
    method: String,
    param: String,
    ret: String,
    /// Identifiers occurring in the return type.
    ret_idents: Vec<String>,
}

#[derive(Default)]
struct Output {
    fns: Vec<FnInfo>,
    consts: Vec<(String, String, String)>,
    markers: Vec<Marker>,
    types: Vec<TyDef>,
    wrappers: Vec<(String, String, String)>,
    trait_impls: Vec<(String, String)>,
    method_bounds: Vec<(String, String, Vec<String>)>,
    guard_methods: Vec<GuardMethod>,
    warnings: Vec<String>,
}

// ───────────────────────────── sites inside one function ─────────────────────────────

/// Walks one function body, collecting sites in token order. Items nested in the body are set
/// aside (they become entries of their own); macro invocations are descended into.
struct SiteVisitor<'c> {
    consts: &'c Consts,
    owner: String,
    sites: Vec<Site>,
    nested: Vec<Item>,
    warnings: Vec<String>,
    /// `let name = init;` bindings seen so far in this function (latest wins): name -> init text.
    lets: HashMap<String, String>,
}

impl SiteVisitor<'_> {
    /// A call `recv.kind(args)`; `None` unless it is a site.
    fn call_site(&self, kind: &str, recv: &TokenStream, args: &[TokenStream]) -> Option<Site> {
        let recv = compact(recv);
        let waits = kind == "poll" || kind == "wait";
        if !SITE_METHODS.contains(&kind) || (waits && !recv.contains("strategy") && !recv.contains("listener")) {
            return None;
        }
        let mut site = Site { kind: kind.to_string(), recv, args: Vec::new(), ords: Vec::new() };
        for (i, a) in args.iter().enumerate() {
            match classify_arg(kind, i, args.len(), a, self.consts, &self.lets) {
                Arg::Ord(o) => site.ords.push(o),
                Arg::Val(v) => site.args.push(v),
            }
        }
        Some(site)
    }

    /// `recv.await`; a site only when something event-related is awaited.
    fn await_site(&self, recv: &TokenStream) -> Option<Site> {
        let recv = compact(recv);
        (recv.contains("listener") || recv.contains("strategy.wait"))
            .then(|| Site { kind: "await".into(), recv, args: Vec::new(), ords: Vec::new() })
    }

    /// Descend into the tokens of the macro invocation `name!(ts)`.
    fn macro_tokens(&mut self, name: &str, ts: &TokenStream) {
        if name == "listener" {
            // event_listener::listener!(event_expr => binding)
            let v = toks(ts.clone());
            if let Some(p) = (1..v.len()).find(|&p| is_punct(&v[p - 1], '=') && is_punct(&v[p], '>')) {
                let recv: TokenStream = v[..p - 1].iter().cloned().collect();
                match syn::parse2::<Expr>(recv.clone()) {
                    Ok(e) => self.visit_expr(&e),
                    Err(_) => self.scan(recv.clone()),
                }
                let binding: TokenStream = v[p + 1..].iter().cloned().collect();
                self.sites.push(Site { kind: "listener!".into(), recv: compact(&recv), args: vec![compact(&binding)], ords: Vec::new() });
                return;
            }
        }
        match parse_macro_body(name, ts) {
            MacroBody::Items(items) => self.nested.extend(items),
            MacroBody::Exprs(es) => es.iter().for_each(|e| self.visit_expr(e)),
            MacroBody::Stmts(ss) => ss.iter().for_each(|s| self.visit_stmt(s)),
            MacroBody::Unparsed => {
                self.warnings.push(format!("{}: body of {}! could not be parsed; scanned at token level", self.owner, name));
                self.scan(ts.clone());
            }
        }
    }

    /// Token-level fallback for unparsable macro bodies: find `recv . method ( args )`,
    /// `recv . await` and nested `listener!(..)` by shape, so that no site is silently lost.
    fn scan(&mut self, ts: TokenStream) {
        let v = toks(ts);
        // The receiver is the longest run of path/field/call tokens ending just before `end`.
        let receiver = |end: usize| -> TokenStream {
            let part = |t: &TokenTree| match t {
                TokenTree::Ident(i) => !["return", "let", "if", "match", "else", "in", "while", "mut", "move"].contains(&i.to_string().as_str()),
                TokenTree::Literal(_) => true,
                TokenTree::Group(g) => g.delimiter() != Delimiter::Brace,
                TokenTree::Punct(p) => ['.', ':', '$', '?'].contains(&p.as_char()),
            };
            let start = (0..end).rev().find(|&j| !part(&v[j])).map_or(0, |j| j + 1);
            v[start..end].iter().cloned().collect()
        };
        for i in 0..v.len() {
            match &v[i] {
                TokenTree::Group(g) => {
                    let method = (i >= 2 && is_punct(&v[i - 2], '.')).then(|| ident_of(&v[i - 1])).flatten();
                    if let (Some(m), Delimiter::Parenthesis) = (method, g.delimiter()) {
                        let site = self.call_site(&m, &receiver(i - 2), &split_commas(g.stream()));
                        self.sites.extend(site);
                    }
                    let is_listener_macro = i >= 2 && is_punct(&v[i - 1], '!') && ident_of(&v[i - 2]).as_deref() == Some("listener");
                    if is_listener_macro {
                        self.macro_tokens("listener", &g.stream());
                    } else {
                        self.scan(g.stream());
                    }
                }
                t if i >= 1 && ident_of(t).as_deref() == Some("await") && is_punct(&v[i - 1], '.') => {
                    let site = self.await_site(&receiver(i - 1));
                    self.sites.extend(site);
                }
                _ => {}
            }
        }
    }
}

impl<'ast> Visit<'ast> for SiteVisitor<'_> {
    fn visit_item(&mut self, i: &'ast Item) {
        self.nested.push(i.clone()); // not part of this function's sites
    }

    fn visit_expr_method_call(&mut self, m: &'ast syn::ExprMethodCall) {
        self.visit_expr(&m.receiver); // token order: receiver, this call, arguments
        let args: Vec<TokenStream> = m.args.iter().map(|a| a.to_token_stream()).collect();
        let site = self.call_site(&m.method.to_string(), &m.receiver.to_token_stream(), &args);
        self.sites.extend(site);
        m.args.iter().for_each(|a| self.visit_expr(a));
    }

    fn visit_local(&mut self, l: &'ast syn::Local) {
        syn::visit::visit_local(self, l); // the binding is in scope only after its initialiser
        let name = match &l.pat {
            syn::Pat::Ident(p) => Some(&p.ident),
            syn::Pat::Type(syn::PatType { pat, .. }) => match &**pat {
                syn::Pat::Ident(p) => Some(&p.ident),
                _ => None,
            },
            _ => None,
        };
        match (name, &l.init) {
            (Some(name), Some(init)) if init.diverge.is_none() => self.lets.insert(name.to_string(), compact(&init.expr)),
            (Some(name), _) => self.lets.remove(&name.to_string()),
            _ => None,
        };
    }

    /// `place = None`: the drop of whatever the place held (the listeners of the futures are `Option<EventListener>`
    /// fields, and dropping a listener is an operation on the event's list).
    fn visit_expr_assign(&mut self, a: &'ast syn::ExprAssign) {
        syn::visit::visit_expr_assign(self, a);
        if compact(&a.right) == "None" {
            self.sites.push(Site { kind: "set_none".into(), recv: compact(&a.left), args: Vec::new(), ords: Vec::new() });
        }
    }

    fn visit_expr_await(&mut self, a: &'ast syn::ExprAwait) {
        self.visit_expr(&a.base);
        let site = self.await_site(&a.base.to_token_stream());
        self.sites.extend(site);
    }

    fn visit_macro(&mut self, m: &'ast syn::Macro) {
        let name = m.path.segments.last().map(|s| s.ident.to_string()).unwrap_or_default();
        self.macro_tokens(&name, &m.tokens);
    }
}

// ───────────────────────────── items of one file ─────────────────────────────

/// Ident of a (self) type without generics: `fmt::Foo<'_, T>` -> `Foo`, `&T` -> `T`.
fn type_ident(ty: &Type) -> String {
    match ty {
        Type::Path(p) => p.path.segments.last().map(|s| s.ident.to_string()).unwrap_or_default(),
        Type::Reference(r) => type_ident(&r.elem),
        Type::Paren(p) => type_ident(&p.elem),
        Type::Group(g) => type_ident(&g.elem),
        other => compact(other),
    }
}

/// Trait bounds on the type parameter `T` (generic parameter list and where clause), without
/// `?Sized`, sorted.
fn t_bounds(g: &Generics) -> Vec<String> {
    let traits = |bounds: &Punctuated<syn::TypeParamBound, Token![+]>| -> Vec<String> {
        bounds
            .iter()
            .filter_map(|b| match b {
                syn::TypeParamBound::Trait(t) if matches!(t.modifier, syn::TraitBoundModifier::None) => Some(compact(&t.path)),
                _ => None,
            })
            .collect()
    };
    let mut out: Vec<String> = g.type_params().filter(|p| p.ident == "T").flat_map(|p| traits(&p.bounds)).collect();
    for pred in g.where_clause.iter().flat_map(|w| &w.predicates) {
        if let syn::WherePredicate::Type(pt) = pred {
            if compact(&pt.bounded_ty) == "T" {
                out.extend(traits(&pt.bounds));
            }
        }
    }
    out.sort();
    out.dedup();
    out
}

fn generics_text(g: &Generics) -> String {
    match &g.where_clause {
        Some(w) => format!("{} where {}", compact(g), compact(&w.predicates)),
        None => compact(g),
    }
}

fn type_params(g: &Generics) -> Vec<String> {
    g.type_params().map(|p| p.ident.to_string()).collect()
}

/// Structured form of a type as a Coq term of the inductive `ty` of Markers.v. `params` are the
/// generic type parameters of the enclosing item. Lifetimes are dropped. With `atom`, the term is
/// parenthesised so that it can be used as a constructor argument.
fn ty_ast(ty: &Type, params: &[String], atom: bool) -> String {
    let list = |tys: Vec<&Type>| coq_list(&tys.into_iter().map(|t| ty_ast(t, params, false)).collect::<Vec<_>>());
    let term = match ty {
        Type::Paren(p) => return ty_ast(&p.elem, params, atom),
        Type::Group(g) => return ty_ast(&g.elem, params, atom),
        Type::Reference(r) => format!("TRef {} {}", r.mutability.is_some(), ty_ast(&r.elem, params, true)),
        Type::Ptr(p) => format!("TPtr {} {}", p.mutability.is_some(), ty_ast(&p.elem, params, true)),
        Type::Tuple(t) => format!("TTuple {}", list(t.elems.iter().collect())),
        Type::Path(p) if p.qself.is_none() => {
            let segs = &p.path.segments;
            let first = segs[0].ident.to_string();
            let last = segs.last().unwrap();
            match &last.arguments {
                syn::PathArguments::None if segs.len() == 1 && params.contains(&first) => format!("TParam {}", q(&first)),
                // `T::Output`, `Self::Item`: projections are not path types of the crate.
                _ if segs.len() > 1 && (params.contains(&first) || first == "Self") => format!("TOther {}", q(&compact(ty))),
                syn::PathArguments::Parenthesized(_) => format!("TOther {}", q(&compact(ty))),
                syn::PathArguments::None => format!("TApp {} []", q(&last.ident.to_string())),
                syn::PathArguments::AngleBracketed(a) => {
                    let args = a.args.iter().filter_map(|g| match g {
                        syn::GenericArgument::Type(t) => Some(t),
                        _ => None, // lifetimes, const arguments, associated-type bindings
                    });
                    format!("TApp {} {}", q(&last.ident.to_string()), list(args.collect()))
                }
            }
        }
        other => format!("TOther {}", q(&compact(other))),
    };
    if atom { format!("({})", term) } else { term }
}

fn fields_of(fields: &Fields, prefix: &str, params: &[String]) -> Vec<Field> {
    fields
        .iter()
        .enumerate()
        .map(|(i, f)| Field {
            name: format!("{}{}", prefix, f.ident.as_ref().map_or(i.to_string(), |id| id.to_string())),
            ty: compact(&f.ty),
            pinned: f.attrs.iter().any(|a| a.path().is_ident("pin")),
            ast: ty_ast(&f.ty, params, true),
        })
        .collect()
}

/// All identifiers of a token stream, at any depth.
fn idents_in(ts: TokenStream, out: &mut Vec<String>) {
    for t in ts {
        match t {
            TokenTree::Group(g) => idents_in(g.stream(), out),
            t => out.extend(ident_of(&t)),
        }
    }
}

/// If the first parameter of `sig` takes `self_ty` by value (`self`, `x: Self`, `x: SelfTy<..>`),
/// its normalised type text (`Self` for a plain `self`).
fn by_value_self_param(sig: &syn::Signature, self_ty: &str) -> Option<String> {
    let own = |ty: &Type| matches!(ty, Type::Path(p) if p.qself.is_none() && { let id = type_ident(ty); id == "Self" || id == self_ty });
    match sig.inputs.first()? {
        syn::FnArg::Receiver(r) if r.reference.is_none() && own(&r.ty) => Some(if r.colon_token.is_some() { compact(&r.ty) } else { "Self".to_string() }),
        syn::FnArg::Typed(t) if own(&t.ty) => Some(compact(&t.ty)),
        _ => None,
    }
}

/// Per-file context.
struct Cx<'o> {
    module: String,
    consts: Consts,
    out: &'o mut Output,
}

impl Cx<'_> {
    fn qualified(&self, self_ty: Option<&str>, name: &impl std::fmt::Display) -> String {
        match self_ty {
            Some(t) => format!("{}::{}::{}", self.module, t, name),
            None => format!("{}::{}", self.module, name),
        }
    }

    /// Run a [`SiteVisitor`] over something function-like, record the entry, then process the
    /// items that were nested inside. Entries without sites are dropped unless `always`.
    fn function_like(&mut self, name: String, body: TokenStream, always: bool, walk: impl FnOnce(&mut SiteVisitor)) {
        let mut v = SiteVisitor { consts: &self.consts, owner: name.clone(), sites: Vec::new(), nested: Vec::new(), warnings: Vec::new(), lets: HashMap::new() };
        walk(&mut v);
        let SiteVisitor { sites, nested, warnings, .. } = v;
        self.out.warnings.extend(warnings);
        if always || !sites.is_empty() {
            self.out.fns.push(FnInfo { name, sites, body: fingerprint(body) });
        }
        self.items(&nested);
    }

    fn function(&mut self, self_ty: Option<&str>, sig: &syn::Signature, block: &syn::Block) {
        let bounds = t_bounds(&sig.generics);
        if let (Some(t), false) = (self_ty, bounds.is_empty()) {
            self.out.method_bounds.push((t.to_string(), sig.ident.to_string(), bounds));
        }
        if let (Some(t), syn::ReturnType::Type(_, ret)) = (self_ty, &sig.output) {
            if let Some(param) = by_value_self_param(sig, t) {
                let mut ret_idents = Vec::new();
                idents_in(ret.to_token_stream(), &mut ret_idents);
                self.out.guard_methods.push(GuardMethod { ty: t.to_string(), method: sig.ident.to_string(), param, ret: compact(ret), ret_idents });
            }
        }
        self.function_like(self.qualified(self_ty, &sig.ident), block.to_token_stream(), true, |v| v.visit_block(block));
    }

    fn type_def(&mut self, name: &syn::Ident, public: bool, g: &Generics, fields: Vec<Field>) {
        let lifetimes = g.lifetimes().map(|l| l.lifetime.to_string()).collect();
        self.out.types.push(TyDef {
            name: name.to_string(),
            file: self.module.clone(),
            public,
            generics: generics_text(g),
            params: type_params(g),
            lifetimes,
            fields,
        });
    }

    fn items(&mut self, items: &[Item]) {
        items.iter().for_each(|it| self.item(it));
    }

    fn item(&mut self, it: &Item) {
        let is_pub = |v: &syn::Visibility| matches!(v, syn::Visibility::Public(_));
        match it {
            Item::Fn(f) => self.function(None, &f.sig, &f.block),
            Item::Impl(i) => self.impl_block(i),
            Item::Struct(s) => self.type_def(&s.ident, is_pub(&s.vis), &s.generics, fields_of(&s.fields, "", &type_params(&s.generics))),
            Item::Enum(e) => {
                let params = type_params(&e.generics);
                let fields = e.variants.iter().flat_map(|v| fields_of(&v.fields, &format!("{}.", v.ident), &params)).collect();
                self.type_def(&e.ident, is_pub(&e.vis), &e.generics, fields);
            }
            Item::Trait(t) => {
                for ti in &t.items {
                    if let syn::TraitItem::Fn(syn::TraitItemFn { sig, default: Some(block), .. }) = ti {
                        // Provided method: named after the trait; never an inherent `method_bounds` entry.
                        let name = self.qualified(Some(&t.ident.to_string()), &sig.ident);
                        self.function_like(name, block.to_token_stream(), true, |v| v.visit_block(block));
                    }
                }
            }
            Item::Mod(m) => {
                if let Some((_, items)) = &m.content {
                    self.items(items); // inline modules keep the file's module path
                }
            }
            Item::Macro(m) => self.item_macro(&m.mac, m.ident.as_ref(), None),
            _ => {}
        }
    }

    fn impl_block(&mut self, i: &syn::ItemImpl) {
        let ty = type_ident(&i.self_ty);
        let tr = i.trait_.as_ref().and_then(|(_, p, _)| p.segments.last()).map(|s| s.ident.to_string());
        if let Some(tr) = &tr {
            if i.unsafety.is_some() && (tr == "Send" || tr == "Sync") {
                let source = format!("unsafe impl{} {} for {}", generics_text(&i.generics), tr, compact(&i.self_ty));
                self.out.markers.push(Marker { tr: tr.clone(), ty: ty.clone(), bounds: t_bounds(&i.generics), file: self.module.clone(), source });
            }
            if LISTED_TRAITS.contains(&tr.as_str()) {
                self.out.trait_impls.push((tr.clone(), ty.clone()));
            }
        }
        // `method_bounds` is about inherent methods only, hence no self type for trait impls there.
        for ii in &i.items {
            match ii {
                syn::ImplItem::Fn(f) if tr.is_none() => self.function(Some(&ty), &f.sig, &f.block),
                syn::ImplItem::Fn(f) => {
                    let name = self.qualified(Some(&ty), &f.sig.ident);
                    self.function_like(name, f.block.to_token_stream(), true, |v| v.visit_block(&f.block));
                }
                syn::ImplItem::Macro(m) => self.item_macro(&m.mac, None, Some(&ty)),
                _ => {}
            }
        }
    }

    /// A macro invocation in item position (file level, impl body, or nested in a function).
    fn item_macro(&mut self, mac: &syn::Macro, defined: Option<&syn::Ident>, self_ty: Option<&str>) {
        let name = mac.path.segments.last().map(|s| s.ident.to_string()).unwrap_or_default();
        let ts = &mac.tokens;
        match name.as_str() {
            // A macro definition is not code of its own; still make sure it hides no site.
            "macro_rules" => {
                let label = self.qualified(self_ty, &format!("macro_rules!{}", defined.map_or(String::new(), |d| d.to_string())));
                self.function_like(label, ts.clone(), false, |v| v.scan(ts.clone()));
            }
            "const_fn" => match parse_const_fn(ts) {
                Ok(f) => self.function(self_ty, &f.sig, &f.block),
                Err(_) => self.opaque_macro(&name, ts, self_ty),
            },
            "easy_wrapper" => match parse_easy_wrapper(ts) {
                Ok((wrapper, generics, inner, output)) => {
                    let ast = ty_ast(&inner, &type_params(&generics), true);
                    let field = Field { name: "_inner".into(), ty: compact(&inner), pinned: true, ast };
                    self.type_def(&wrapper, true, &generics, vec![field]);
                    self.out.wrappers.push((wrapper.to_string(), type_ident(&inner), type_ident(&output)));
                }
                Err(_) => self.opaque_macro(&name, ts, self_ty),
            },
            _ => self.opaque_macro(&name, ts, self_ty),
        }
    }

    /// Any other item-position macro (`pin_project!`, ..): items inside are processed as items;
    /// sites found outside of functions are reported under the pseudo-function `<macro>!`.
    fn opaque_macro(&mut self, name: &str, ts: &TokenStream, self_ty: Option<&str>) {
        let label = self.qualified(self_ty, &format!("{}!", name));
        self.function_like(label, ts.clone(), false, |v| v.macro_tokens(name, ts));
    }
}

/// Process the text of one source file belonging to module path `module`.
fn extract_source(module: &str, text: &str, out: &mut Output) -> Result<(), String> {
    let tokens: TokenStream = text.parse().map_err(|e| format!("{}: cannot tokenise: {}", module, e))?;
    let file: syn::File = syn::parse2(strip_hooks(tokens)).map_err(|e| format!("{}: cannot parse: {}", module, e))?;
    // File-level integer constants first: they may be used before their definition.
    let mut consts = Consts::new();
    for it in &file.items {
        if let Item::Const(c) = it {
            if let Some(v) = fold(&c.expr, &consts) {
                consts.insert(c.ident.to_string(), v);
                out.consts.push((module.to_string(), c.ident.to_string(), v.to_string()));
            }
        }
    }
    Cx { module: module.to_string(), consts, out }.items(&file.items);
    Ok(())
}

/// Functions that would share a name get `#2`, `#3`, .. in source order.
fn disambiguate(fns: &mut [FnInfo]) {
    let mut seen: HashMap<String, usize> = HashMap::new();
    for f in fns {
        let n = seen.entry(f.name.clone()).or_insert(0);
        *n += 1;
        if *n > 1 {
            f.name = format!("{}#{}", f.name, n);
        }
    }
}

// ───────────────────────────── Coq output ─────────────────────────────

/// Coq string literal.
fn q(s: &str) -> String {
    format!("\"{}\"", s.replace('"', "\"\""))
}

fn coq_list(items: &[String]) -> String {
    if items.is_empty() { "[]".to_string() } else { format!("[{}]", items.join("; ")) }
}

fn qlist(items: &[String]) -> String {
    coq_list(&items.iter().map(|s| q(s)).collect::<Vec<_>>())
}

/// One list element per line.
fn coq_block(items: &[String]) -> String {
    if items.is_empty() { "[]".to_string() } else { format!("[\n  {}\n]", items.join(";\n  ")) }
}

/// Text that is safe inside a Coq comment (comments nest and lex string literals).
fn comment(s: &str) -> String {
    format!("(* {} *)", s.replace("(*", "( *").replace("*)", "* )").replace('"', "'"))
}

const HEADER: &str = "(* generated by tools/extract — do not edit *)\n";

fn render_sites(out: &Output) -> String {
    let mut s = String::from(HEADER);
    s.push_str("From Coq Require Import List String.\nImport ListNotations.\nOpen Scope string_scope.\n");
    for w in &out.warnings {
        writeln!(s, "{}", comment(&format!("WARNING {}", w))).unwrap();
    }
    s.push_str("Inductive ord := Relaxed | Acquire | Release | AcqRel | SeqCst | OrdVar (expr : string).\n");
    s.push_str("Record site := mkSite { s_kind : string; s_recv : string; s_args : list string; s_ords : list ord }.\n");
    s.push_str("Record fn_info := mkFn { f_name : string; f_sites : list site; f_body : string }.\n");
    let fns: Vec<String> = out
        .fns
        .iter()
        .map(|f| {
            let sites: Vec<String> = f
                .sites
                .iter()
                .map(|x| format!("mkSite {} {} {} {}", q(&x.kind), q(&x.recv), qlist(&x.args), coq_list(&x.ords)))
                .collect();
            let sites = if sites.is_empty() { "[]".to_string() } else { format!("[ {} ]", sites.join(";\n         ")) };
            format!("mkFn {}\n       {}\n       {}", q(&f.name), sites, q(&f.body))
        })
        .collect();
    writeln!(s, "Definition fns : list fn_info := {}.", coq_block(&fns)).unwrap();
    let consts: Vec<String> = out.consts.iter().map(|(m, n, v)| format!("({}, {}, {})", q(m), q(n), q(v))).collect();
    writeln!(s, "Definition consts : list (string * string * string) := {}.", coq_list(&consts)).unwrap();
    s
}

fn render_markers(out: &Output) -> String {
    let mut s = String::from(HEADER);
    s.push_str("From Coq Require Import List String Bool.\nImport ListNotations.\nOpen Scope string_scope.\n");
    s.push_str("Record marker := mkMarker { m_trait : string; m_type : string; m_bounds : list string; m_file : string }.\n");
    // The comment goes before the element so that the `;` separators stay regular.
    let markers: Vec<String> = out
        .markers
        .iter()
        .map(|m| format!("{}\n  mkMarker {} {} {} {}", comment(&m.source), q(&m.tr), q(&m.ty), qlist(&m.bounds), q(&m.file)))
        .collect();
    writeln!(s, "Definition markers : list marker := {}.", coq_block(&markers)).unwrap();
    s.push_str("Inductive ty :=\n| TParam (name : string)\n| TApp (name : string) (args : list ty)\n| TRef (mutable : bool) (t : ty)\n| TPtr (mutable : bool) (t : ty)\n| TTuple (l : list ty)\n| TOther (s : string).\n");
    s.push_str("Record field := mkField { fd_name : string; fd_ty : string; fd_pinned : bool; fd_ast : ty }.\n");
    s.push_str("Record tydef := mkTy { t_name : string; t_file : string; t_public : bool; t_generics : string; t_params : list string; t_lifetimes : list string; t_fields : list field }.\n");
    let types: Vec<String> = out
        .types
        .iter()
        .map(|t| {
            let fields: Vec<String> = t.fields.iter().map(|f| format!("mkField {} {} {} {}", q(&f.name), q(&f.ty), f.pinned, f.ast)).collect();
            format!("mkTy {} {} {} {} {} {} {}", q(&t.name), q(&t.file), t.public, q(&t.generics), qlist(&t.params), qlist(&t.lifetimes), coq_list(&fields))
        })
        .collect();
    writeln!(s, "Definition types : list tydef := {}.", coq_block(&types)).unwrap();
    let wrappers: Vec<String> = out.wrappers.iter().map(|(a, b, c)| format!("({}, {}, {})", q(a), q(b), q(c))).collect();
    writeln!(s, "Definition wrappers : list (string * string * string) := {}.", coq_block(&wrappers)).unwrap();
    let impls: Vec<String> = out.trait_impls.iter().map(|(a, b)| format!("({}, {})", q(a), q(b))).collect();
    writeln!(s, "Definition trait_impls : list (string * string) := {}.", coq_block(&impls)).unwrap();
    let bounds: Vec<String> = out.method_bounds.iter().map(|(a, b, c)| format!("({}, {}, {})", q(a), q(b), qlist(c))).collect();
    writeln!(s, "Definition method_bounds : list (string * string * list string) := {}.", coq_list(&bounds)).unwrap();
    // Inherent fns of public types that consume the type and return another type of the crate.
    let is_public = |name: &str| out.types.iter().any(|t| t.public && t.name == name);
    let is_crate_type = |name: &str| out.types.iter().any(|t| t.name == name);
    let guards: Vec<String> = out
        .guard_methods
        .iter()
        .filter(|g| is_public(&g.ty) && g.ret_idents.iter().any(|i| *i != g.ty && is_crate_type(i)))
        .map(|g| format!("({}, {}, {}, {})", q(&g.ty), q(&g.method), q(&g.param), q(&g.ret)))
        .collect();
    writeln!(s, "Definition guard_methods : list (string * string * string * string) := {}.", coq_block(&guards)).unwrap();
    s
}

// ───────────────────────────── driver ─────────────────────────────

/// All `*.rs` files under `dir`, as paths relative to `root`.
fn rust_files(root: &Path, dir: &Path, acc: &mut Vec<PathBuf>) -> std::io::Result<()> {
    for entry in std::fs::read_dir(dir)? {
        let path = entry?.path();
        if path.is_dir() {
            rust_files(root, &path, acc)?;
        } else if path.extension().map_or(false, |e| e == "rs") && path.file_name().map_or(false, |n| n != "verif.rs") {
            acc.push(path.strip_prefix(root).unwrap().to_path_buf());
        }
    }
    Ok(())
}

/// `rwlock/raw.rs` -> `rwlock::raw` (`foo/mod.rs` -> `foo`).
fn module_path(rel: &Path) -> String {
    let mut parts: Vec<String> = rel.with_extension("").iter().map(|p| p.to_string_lossy().into_owned()).collect();
    if parts.len() > 1 && parts.last().map_or(false, |p| p == "mod") {
        parts.pop();
    }
    parts.join("::")
}

fn run(src: &Path, out_dir: &Path) -> Result<(), String> {
    let mut files = Vec::new();
    rust_files(src, src, &mut files).map_err(|e| format!("{}: {}", src.display(), e))?;
    files.sort_by_key(|p| p.to_string_lossy().into_owned());
    let mut out = Output::default();
    for rel in &files {
        let text = std::fs::read_to_string(src.join(rel)).map_err(|e| format!("{}: {}", rel.display(), e))?;
        extract_source(&module_path(rel), &text, &mut out)?;
    }
    disambiguate(&mut out.fns);
    std::fs::create_dir_all(out_dir).map_err(|e| format!("{}: {}", out_dir.display(), e))?;
    for (name, text) in [("Sites.v", render_sites(&out)), ("Markers.v", render_markers(&out))] {
        std::fs::write(out_dir.join(name), text).map_err(|e| format!("{}: {}", name, e))?;
    }
    Ok(())
}

fn main() {
    let args: Vec<String> = std::env::args().collect();
    if args.len() != 3 {
        eprintln!("usage: extract <src_dir> <out_dir>");
        std::process::exit(2);
    }
    if let Err(e) = run(Path::new(&args[1]), Path::new(&args[2])) {
        eprintln!("extract: {}", e);
        std::process::exit(1);
    }
}

#[cfg(test)]
mod tests;
