// Search support for C15 under Miri (`cargo +nightly miri run`): every Arc-owning guard and future of the crate is
// made the LAST owner of its lock and dropped — unpolled, pending or completed — so that a use-after-free, a double
// free or a leak in the unsafe Arc / ManuallyDrop plumbing is reported by Miri as undefined behaviour (or a leak).
// Plain safe client code only. Each scenario prints `MIRI-OK <name>`; Miri aborts the process on the first error.
use async_lock::{Mutex, RwLock, RwLockUpgradableReadGuardArc, RwLockWriteGuardArc, Semaphore};
use std::future::Future;
use std::pin::Pin;
use std::sync::atomic::{AtomicUsize, Ordering};
use std::sync::Arc;
use std::task::{Context, Poll, RawWaker, RawWakerVTable, Waker};

static DROPS: AtomicUsize = AtomicUsize::new(0);
struct Payload(#[allow(dead_code)] u64);
impl Drop for Payload {
    fn drop(&mut self) {
        DROPS.fetch_add(1, Ordering::SeqCst);
    }
}

fn noop_waker() -> Waker {
    fn clone(_: *const ()) -> RawWaker { RawWaker::new(std::ptr::null(), &VT) }
    fn noop(_: *const ()) {}
    static VT: RawWakerVTable = RawWakerVTable::new(clone, noop, noop, noop);
    unsafe { Waker::from_raw(RawWaker::new(std::ptr::null(), &VT)) }
}
fn poll_once<F: Future>(f: &mut Pin<Box<F>>) -> Poll<F::Output> {
    let w = noop_waker();
    let mut cx = Context::from_waker(&w);
    f.as_mut().poll(&mut cx)
}
fn expect_drops(name: &str, before: usize, n: usize) {
    let d = DROPS.load(Ordering::SeqCst) - before;
    if d != n {
        panic!("MIRI-VIOLATION {}: the protected value was dropped {} times, expected {}", name, d, n);
    }
    println!("MIRI-OK {}", name);
}

fn rw_guards_last_owner() {
    let b = DROPS.load(Ordering::SeqCst);
    // read guard as last owner
    let l = Arc::new(RwLock::new(Payload(1)));
    let g = l.try_read_arc().unwrap();
    drop(l);
    drop(g);
    // upgradable guard as last owner
    let l = Arc::new(RwLock::new(Payload(2)));
    let g = l.try_upgradable_read_arc().unwrap();
    drop(l);
    drop(g);
    // write guard as last owner, and its two downgrades
    let l = Arc::new(RwLock::new(Payload(3)));
    let g = l.try_write_arc().unwrap();
    drop(l);
    drop(g);
    let l = Arc::new(RwLock::new(Payload(4)));
    let g = l.try_write_arc().unwrap();
    drop(l);
    let r = RwLockWriteGuardArc::downgrade(g);
    drop(r);
    let l = Arc::new(RwLock::new(Payload(5)));
    let g = l.try_write_arc().unwrap();
    drop(l);
    let u = RwLockWriteGuardArc::downgrade_to_upgradable(g);
    let r = RwLockUpgradableReadGuardArc::downgrade(u);
    drop(r);
    expect_drops("rw_guards_last_owner", b, 5);
}

fn rw_upgrade_future_last_owner() {
    let b = DROPS.load(Ordering::SeqCst);
    // an unpolled upgrade future, cancelled as the last owner
    let l = Arc::new(RwLock::new(Payload(1)));
    let u = l.try_upgradable_read_arc().unwrap();
    drop(l);
    let f = RwLockUpgradableReadGuardArc::upgrade(u);
    drop(f);
    // a completed upgrade future kept alive after its guard, then dropped as the last owner
    let l = Arc::new(RwLock::new(Payload(2)));
    let u = l.try_upgradable_read_arc().unwrap();
    drop(l);
    let mut f = Box::pin(RwLockUpgradableReadGuardArc::upgrade(u));
    let g = match poll_once(&mut f) { Poll::Ready(g) => g, Poll::Pending => panic!("upgrade with no reader must complete") };
    drop(g);
    drop(f);
    // a pending upgrade future (a reader is alive), cancelled; the reader is the last owner afterwards
    let l = Arc::new(RwLock::new(Payload(3)));
    let r = l.try_read_arc().unwrap();
    let u = l.try_upgradable_read_arc().unwrap();
    drop(l);
    let mut f = Box::pin(RwLockUpgradableReadGuardArc::upgrade(u));
    assert!(poll_once(&mut f).is_pending());
    drop(f);
    drop(r);
    // try_upgrade, both outcomes
    let l = Arc::new(RwLock::new(Payload(4)));
    let u = l.try_upgradable_read_arc().unwrap();
    drop(l);
    let w = RwLockUpgradableReadGuardArc::try_upgrade(u).ok().unwrap();
    drop(w);
    let l = Arc::new(RwLock::new(Payload(5)));
    let r = l.try_read_arc().unwrap();
    let u = l.try_upgradable_read_arc().unwrap();
    drop(l);
    let u = RwLockUpgradableReadGuardArc::try_upgrade(u).err().unwrap();
    drop(r);
    drop(u);
    expect_drops("rw_upgrade_future_last_owner", b, 5);
}

fn rw_acquire_futures_last_owner() {
    let b = DROPS.load(Ordering::SeqCst);
    // read_arc / write_arc / upgradable_read_arc futures: unpolled, pending (cancelled), completed
    let l = Arc::new(RwLock::new(Payload(1)));
    let w = l.try_write_arc().unwrap();
    let mut fr = Box::pin(l.read_arc());
    let mut fw = Box::pin(l.write_arc());
    let mut fu = Box::pin(l.upgradable_read_arc());
    let f0 = l.read_arc();
    assert!(poll_once(&mut fr).is_pending());
    assert!(poll_once(&mut fw).is_pending());
    assert!(poll_once(&mut fu).is_pending());
    drop(f0);
    drop(fw);
    drop(fu);
    drop(w);
    let g = match poll_once(&mut fr) { Poll::Ready(g) => g, Poll::Pending => panic!("read after the writer left must complete") };
    drop(fr);
    drop(g);
    drop(l);
    expect_drops("rw_acquire_futures_last_owner", b, 1);
}

fn mutex_last_owner() {
    let b = DROPS.load(Ordering::SeqCst);
    let m = Arc::new(Mutex::new(Payload(1)));
    let g = m.try_lock_arc().unwrap();
    let mut f = Box::pin(m.lock_arc());
    let f0 = m.lock_arc();
    drop(m);
    assert!(poll_once(&mut f).is_pending());
    drop(f0);
    drop(g);
    let g2 = match poll_once(&mut f) { Poll::Ready(g) => g, Poll::Pending => panic!("lock after unlock must complete") };
    drop(f);
    drop(g2);
    // a pending lock_arc future cancelled while it is the last owner besides the guard
    let m = Arc::new(Mutex::new(Payload(2)));
    let g = m.try_lock_arc().unwrap();
    let mut f = Box::pin(m.lock_arc());
    drop(m);
    assert!(poll_once(&mut f).is_pending());
    drop(g);
    drop(f);
    expect_drops("mutex_last_owner", b, 2);
}

fn semaphore_last_owner() {
    let s = Arc::new(Semaphore::new(1));
    let g = s.try_acquire_arc().unwrap();
    let mut f = Box::pin(s.acquire_arc());
    let f0 = s.acquire_arc();
    drop(s);
    assert!(poll_once(&mut f).is_pending());
    drop(f0);
    drop(g);
    let g2 = match poll_once(&mut f) { Poll::Ready(g) => g, Poll::Pending => panic!("acquire after release must complete") };
    drop(f);
    drop(g2);
    let s = Arc::new(Semaphore::new(0));
    let mut f = Box::pin(s.acquire_arc());
    drop(s);
    assert!(poll_once(&mut f).is_pending());
    drop(f);
    println!("MIRI-OK semaphore_last_owner");
}

fn main() {
    let which = std::env::args().nth(1).unwrap_or_else(|| "all".to_string());
    let tests: Vec<(&str, fn())> = vec![
        ("rw_guards_last_owner", rw_guards_last_owner),
        ("rw_upgrade_future_last_owner", rw_upgrade_future_last_owner),
        ("rw_acquire_futures_last_owner", rw_acquire_futures_last_owner),
        ("mutex_last_owner", mutex_last_owner),
        ("semaphore_last_owner", semaphore_last_owner),
    ];
    for (name, f) in tests {
        if which == "all" || which == name {
            eprintln!("MIRI-RUN {}", name);
            f();
        }
    }
    println!("MIRI-DONE");
}
