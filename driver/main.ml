(* main.ml — correspondence driver: replays the histories executed by the Rust
   harness on the extracted Coq model and compares every observation.
   Input (stdin or file): blocks
     H <prim> [param]
     <op tokens> | <res> | <wakes> | <dump>
     ...
     E
   Output: one line per mismatch, then a summary line.
   With --print the model's observations are printed instead of compared. *)
open Model

let rec nat_of_int i = if i <= 0 then O else S (nat_of_int (i - 1))
let rec int_of_nat = function O -> 0 | S n -> 1 + int_of_nat n

let rec pos_of_z (z : Z.t) : positive =
  if Z.equal z Z.one then XH
  else if Z.is_even z then XO (pos_of_z (Z.shift_right z 1))
  else XI (pos_of_z (Z.shift_right z 1))
and n_of_z z = if Z.equal z Z.zero then N0 else Npos (pos_of_z z)
let rec z_of_pos = function
  | XH -> Z.one
  | XO p -> Z.shift_left (z_of_pos p) 1
  | XI p -> Z.add (Z.shift_left (z_of_pos p) 1) Z.one
let z_of_n = function N0 -> Z.zero | Npos p -> z_of_pos p
let n_of_string s = n_of_z (Z.of_string s)
let string_of_n n = Z.to_string (z_of_n n)

let b_of_string s = (s = "1")
let nat_s s = nat_of_int (int_of_string s)

let fmt_res = function
  | RUnit -> "-" | RInvalid -> "X" | RPending -> "P"
  | RReady g -> "R" ^ string_of_int (int_of_nat g)
  | RNone -> "N"
  | RSome g -> "S" ^ string_of_int (int_of_nat g)
  | RVal v -> "V" ^ string_of_n v
  | RErr v -> "E" ^ string_of_n v
  | RPanic -> "!"
  | RLeader b -> if b then "L1" else "L0"

let fmt_obs (o : obs) =
  Printf.sprintf "%s | %s | %s" (fmt_res o.o_res)
    (String.concat " " (List.map (fun w -> string_of_int (int_of_nat w)) o.o_wakes))
    (String.concat " " (List.map string_of_n o.o_dump))

exception Bad of string

let parse_mop toks = match toks with
  | ["lock"; a] -> MLock (b_of_string a)
  | ["poll"; f; k] -> MPoll (nat_s f, nat_s k)
  | ["dropfut"; f] -> MDropFut (nat_s f)
  | ["try"; a] -> MTry (b_of_string a)
  | ["dropguard"; g] -> MDropGuard (nat_s g)
  | ["oracle"; bs] -> MSetOracle (if bs = "-" then [] else List.init (String.length bs) (fun i -> bs.[i] = '1'))
  | ["clone"] -> MCloneArc
  | ["droparc"] -> MDropArc
  | _ -> raise (Bad (String.concat " " toks))

let parse_sop toks = match toks with
  | ["acquire"; a] -> SAcquire (b_of_string a)
  | ["poll"; f; k] -> SPoll (nat_s f, nat_s k)
  | ["dropfut"; f] -> SDropFut (nat_s f)
  | ["try"; a] -> STry (b_of_string a)
  | ["dropguard"; g] -> SDropGuard (nat_s g)
  | ["forget"; g] -> SForget (nat_s g)
  | ["add"; n] -> SAdd (n_of_string n)
  | ["clone"] -> SCloneArc
  | ["droparc"] -> SDropArc
  | _ -> raise (Bad (String.concat " " toks))

let rkind = function "r" -> KRead | "u" -> KUpRead | "w" -> KWrite | s -> raise (Bad s)
let parse_rop toks = match toks with
  | ["start"; k; a] -> RStart (rkind k, b_of_string a)
  | ["upgrade"; g] -> RUpgrade (nat_s g)
  | ["poll"; f; k] -> RPoll (nat_s f, nat_s k)
  | ["dropfut"; f] -> RDropFut (nat_s f)
  | ["try"; k; a] -> RTry (rkind k, b_of_string a)
  | ["tryupgrade"; g] -> RTryUpgrade (nat_s g)
  | ["downgrade"; g] -> RDowngrade (nat_s g)
  | ["downgradeup"; g] -> RDowngradeUp (nat_s g)
  | ["dropguard"; g] -> RDropGuard (nat_s g)
  | ["read"; g] -> RRead (nat_s g)
  | ["bump"; g] -> RBump (nat_s g)
  | ["clone"] -> RCloneArc
  | ["droparc"] -> RDropArc
  | _ -> raise (Bad (String.concat " " toks))

let parse_oop toks = match toks with
  | ["wait"] -> OStartWait
  | ["init"; "try"] -> OStartInit IKTry
  | ["init"; "init"] -> OStartInit IKInit
  | ["init"; "set"; x] -> OStartInit (IKSet (n_of_string x))
  | ["poll"; f; k] -> OPoll (nat_s f, nat_s k)
  | ["resolve"; f; "ok"; v] -> OResolve (nat_s f, OOk (n_of_string v))
  | ["resolve"; f; "err"; e] -> OResolve (nat_s f, OErr (n_of_string e))
  | ["resolve"; f; "panic"] -> OResolve (nat_s f, OPanic)
  | ["dropfut"; f] -> ODropFut (nat_s f)
  | ["get"] -> OGet
  | ["take"] -> OTake
  | ["dropcell"] -> ODropCell
  | _ -> raise (Bad (String.concat " " toks))

let parse_bop toks = match toks with
  | ["start"] -> BStart
  | ["poll"; f; k] -> BPoll (nat_s f, nat_s k)
  | ["dropfut"; f] -> BDropFut (nat_s f)
  | _ -> raise (Bad (String.concat " " toks))

(* a world is a closure: op tokens -> (world, obs, micro-step machine agrees?)
   For every primitive the poll-granular model runs in lockstep with the micro-step machine of
   coq/Sched/*EvSched.v executed without interleaving (coq/Sched/*EvSolo.v); the flag says whether the two states
   still correspond after the operation. *)
type world = W of (string list -> world * obs * bool)
let rec mk_m x = W (fun t -> let ((x', o), ok) = mstep2 true x (parse_mop t) in (mk_m x', o, ok))
let rec mk_s x = W (fun t -> let ((x', o), ok) = sstep2 true x (parse_sop t) in (mk_s x', o, ok))
(* RwLock: the model runs in lockstep with the reader-side machine (rstep2), the writer-side machine (wstep2) and the
   product of reader side, writer side and inner mutex (xstep2) *)
let rec mk_r (x, y, z) = W (fun t -> let op = parse_rop t in
                                     let ((x', o), ok1) = rstep2 x op in
                                     let ((y', _), ok2) = wstep2 y op in
                                     let ((z', _), ok3) = xstep2 z op in      (* the product of the three machines *)
                                     (mk_r (x', y', z'), o, ok1 && ok2 && ok3))
(* OnceCell: the harness operations `initb v` (get_or_init_blocking with a closure that completes at once) and
   `init trypc` (get_or_try_init with a closure that panics when it is called) are replayed on the model as the
   histories they are equal to: a set-like / get_or_init future that is started, polled once and dropped; a
   get_or_try_init future whose initialiser is resolved to a panic before its first poll. The micro-step machine runs in
   lockstep (OnceEvSolo). *)
let once_expand (x : oworld) (t : string list) : oop list * int =
  (* (model operations, index of the one whose result is reported) *)
  match t with
  | ["initb"; v] ->
      if not x.o_alive then ([OGet], 0)
      else
        let st = z_of_n x.o_sh.sw0 in
        if Z.equal st Z.one then ([OPoll (S (S (S x.o_nf)), O)], 0)   (* rejected by the harness: a poll of a future that does not exist is rejected by the model too *)
        else
          let k = if Z.equal st (Z.of_int 2) then IKInit else IKSet (n_of_string v) in
          ([OStartInit k; OPoll (x.o_nf, O); ODropFut x.o_nf], 1)
  | ["init"; "trypc"] ->
      if not x.o_alive then ([OGet], 0) else ([OStartInit IKTry; OResolve (x.o_nf, OPanic)], 0)
  | _ -> ([parse_oop t], 0)
let rec mk_o xs = W (fun t ->
  let (((x, _), _)) = xs in
  let (ops, ri) = once_expand x t in
  let rec go xs ops i res wakes dump ok = match ops with
    | [] -> (xs, res, wakes, dump, ok)
    | o :: r ->
        let ((xs', ob), ok') = ostep2 xs o in
        go xs' r (i + 1) (if i = ri then Some ob.o_res else res) (wakes @ ob.o_wakes) (Some ob.o_dump) (ok && ok') in
  let (xs', res, wakes, dump, ok) = go xs ops 0 None [] None true in
  match res, dump with
  | Some r, Some d -> (mk_o xs', { o_res = r; o_wakes = wakes; o_dump = d }, ok)
  | _ -> raise (Bad "empty expansion"))
(* Barrier: lockstep with the barrier's machine (bstep2) and with its product with the machine of the state mutex (ystep2) *)
let rec mk_b (x, y) = W (fun t -> let op = parse_bop t in
                                  let ((x', o), ok1) = bstep2 x op in
                                  let ((y', _), ok2) = ystep2 y op in
                                  (mk_b (x', y'), o, ok1 && ok2))

let init_world toks = match toks with
  | ["mutex"] -> mk_m mw2_init
  | ["sem"; n] -> mk_s (sw2_init (n_of_string n))
  | ["rw"] -> mk_r (rw2_init, ww2_init, x3_init)
  | ["once"] -> mk_o ow2_init
  | ["bar"; n] -> mk_b (bw2_init (n_of_string n), by2_init (n_of_string n))
  | _ -> raise (Bad ("header " ^ String.concat " " toks))

let split_ws s = List.filter (fun x -> x <> "") (String.split_on_char ' ' (String.trim s))
let norm s = String.concat " " (split_ws s)

let () =
  let print_mode = Array.exists (fun a -> a = "--print") Sys.argv in
  let files = List.filter (fun a -> a <> "--print") (List.tl (Array.to_list Sys.argv)) in
  let ic = match files with [] -> stdin | f :: _ -> open_in f in
  let hist = ref 0 and steps = ref 0 and mism = ref 0 and bad = ref 0 in
  let cur : world option ref = ref None in
  let step_no = ref 0 in
  let skipping = ref false in
  (try
     while true do
       let line = input_line ic in
       let line = String.trim line in
       if line = "" || line.[0] = '#' then ()
       else if String.length line >= 2 && String.sub line 0 2 = "H " then begin
         incr hist; step_no := 0; skipping := false;
         (try cur := Some (init_world (split_ws (String.sub line 2 (String.length line - 2))))
          with Bad m -> (incr bad; Printf.printf "BAD %d header %s\n" !hist m; cur := None; skipping := true));
         if print_mode then print_endline line
       end
       else if line = "E" then (cur := None; if print_mode then print_endline "E")
       else if !skipping then ()
       else match !cur with
         | None -> ()
         | Some (W f) ->
             incr step_no; incr steps;
             let (opstr, rest) =
               match String.index_opt line '|' with
               | None -> (line, "")
               | Some i -> (String.sub line 0 i, String.sub line (i + 1) (String.length line - i - 1)) in
             (try
                let (w', o, micro_ok) = f (split_ws opstr) in
                cur := Some w';
                if not micro_ok && not !skipping then begin
                  incr mism; skipping := true;
                  Printf.printf "MISMATCH hist=%d step=%d op=[%s] micro-step machine (run without interleaving) and poll-granular model disagree on the state after this operation\n"
                    !hist !step_no (norm opstr)
                end;
                let model = fmt_obs o in
                if print_mode then Printf.printf "%s | %s\n" (norm opstr) model
                else begin
                  let parts = List.map norm (String.split_on_char '|' rest) in
                  let impl = String.concat " | " parts in
                  let modeln = String.concat " | " (List.map norm (String.split_on_char '|' model)) in
                  if impl <> modeln then begin
                    incr mism; skipping := true;
                    Printf.printf "MISMATCH hist=%d step=%d op=[%s] model=[%s] impl=[%s]\n"
                      !hist !step_no (norm opstr) modeln impl
                  end
                end
              with Bad m -> (incr bad; skipping := true; Printf.printf "BAD %d step %d: %s\n" !hist !step_no m))
     done
   with End_of_file -> ());
  Printf.printf "SUMMARY histories=%d steps=%d mismatches=%d bad=%d\n" !hist !steps !mism !bad;
  exit (if !mism > 0 || !bad > 0 then 1 else 0)
