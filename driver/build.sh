#!/bin/sh
# builds the correspondence driver from the extracted model (model.ml is produced by coq/Extract.v)
set -e
cd "$(dirname "$0")"
ocamlfind ocamlopt -O2 -w -a -package zarith -linkpkg model.mli model.ml main.ml -o driver 2>/dev/null || \
ocamlfind ocamlopt -w -a -package zarith -linkpkg model.mli model.ml main.ml -o driver
