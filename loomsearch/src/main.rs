// loom search for the Semaphore lost wake-up: a notified waiter (A) is polled while two releases happen;
// if A's poll is preempted between its failed try_acquire and the poll of its (already notified) listener,
// both notify(1) calls are absorbed by A's entry, A then consumes the notification, acquires, and nobody
// wakes B although a permit is available.
use async_lock::{Mutex, Semaphore};
use loom::sync::atomic::{AtomicBool, Ordering};
use loom::sync::Arc;
use std::future::Future;
use std::pin::Pin;
use std::task::{Context, Poll, RawWaker, RawWakerVTable, Waker};

fn flag_waker(flag: Arc<AtomicBool>) -> Waker {
    unsafe fn clone(p: *const ()) -> RawWaker {
        let a = Arc::from_raw(p as *const AtomicBool);
        let b = a.clone();
        std::mem::forget(a);
        RawWaker::new(Arc::into_raw(b) as *const (), &VT)
    }
    unsafe fn wake(p: *const ()) {
        let a = Arc::from_raw(p as *const AtomicBool);
        a.store(true, Ordering::SeqCst);
    }
    unsafe fn wake_by_ref(p: *const ()) {
        let a = Arc::from_raw(p as *const AtomicBool);
        a.store(true, Ordering::SeqCst);
        std::mem::forget(a);
    }
    unsafe fn drop_w(p: *const ()) {
        drop(Arc::from_raw(p as *const AtomicBool));
    }
    static VT: RawWakerVTable = RawWakerVTable::new(clone, wake, wake_by_ref, drop_w);
    unsafe { Waker::from_raw(RawWaker::new(Arc::into_raw(flag) as *const (), &VT)) }
}

static EXECUTIONS: std::sync::atomic::AtomicUsize = std::sync::atomic::AtomicUsize::new(0);

/// A future with the flag its wakers set; `poll` = "the task whose waker was called is polled again".
struct Task<F: Future> {
    fut: Pin<Box<F>>,
    flag: Arc<AtomicBool>,
    out: Option<F::Output>,
    polled: bool,
}
impl<F: Future> Task<F> {
    fn new(f: F) -> Self {
        Task { fut: Box::pin(f), flag: Arc::new(AtomicBool::new(false)), out: None, polled: false }
    }
    fn poll(&mut self) {
        if self.out.is_some() {
            return;
        }
        self.polled = true;
        self.flag.store(false, Ordering::SeqCst);
        let w = flag_waker(self.flag.clone());
        let mut cx = Context::from_waker(&w);
        if let Poll::Ready(v) = self.fut.as_mut().poll(&mut cx) {
            self.out = Some(v);
        }
    }
    fn pending(&self) -> bool {
        self.polled && self.out.is_none()
    }
    fn woken(&self) -> bool {
        self.flag.load(Ordering::SeqCst)
    }
    /// poll again for as long as the task is pending and its waker has been called
    fn settle(&mut self) {
        while self.pending() && self.woken() {
            self.poll();
        }
    }
}

/// C07, schedule half: two releases while a notified waiter is being re-polled on another thread.
fn sem_absorbed_release() {
    let mut b = loom::model::Builder::new();
    b.preemption_bound = Some(3);
    b.check(|| {
        EXECUTIONS.fetch_add(1, std::sync::atomic::Ordering::Relaxed);
        let sem = std::sync::Arc::new(Semaphore::new(2));
        let g1 = sem.try_acquire_arc().unwrap();
        let g2 = sem.try_acquire_arc().unwrap();
        let mut ta = Task::new(sem.acquire_arc());
        let mut tb = Task::new(sem.acquire_arc());
        ta.poll();
        tb.poll();
        assert!(ta.pending() && tb.pending());
        drop(g1); // count = 1, A notified
        assert!(ta.woken());
        let c = sem.try_acquire_arc().unwrap(); // a barger takes the permit: count = 0
        let t = loom::thread::spawn(move || {
            ta.poll(); // the woken task is polled again, concurrently with the two releases
            ta
        });
        drop(g2); // count += 1, notify(1)
        drop(c); // count += 1, notify(1)
        let mut ta = t.join().unwrap();
        // run to quiescence: every task whose waker was called is polled again
        loop {
            let before = (ta.pending(), tb.pending());
            ta.settle();
            tb.settle();
            if !(ta.pending() && ta.woken()) && !(tb.pending() && tb.woken()) && before == (ta.pending(), tb.pending()) {
                break;
            }
        }
        let free = sem.try_acquire_arc();
        if free.is_some() && (ta.pending() || tb.pending()) {
            panic!("LOOM-VIOLATION sem_absorbed_release: lost wake-up: a permit is available, every woken task has been polled again, but a polled acquire future is pending and was not woken (A pending = {}, B pending = {})", ta.pending(), tb.pending());
        }
        drop(free);
        drop(tb);
        drop(ta);
    });
}

/// C05, schedule half: a lock future completes through the compare_exchange right after listen() (the holder
/// unlocked between the future's try_lock and that compare_exchange) and is kept alive; does its listener stay in
/// lock_ops and swallow the notification of the next unlock?
fn mutex_stale_listener() {
    let mut b = loom::model::Builder::new();
    b.preemption_bound = Some(3);
    b.check(|| {
        EXECUTIONS.fetch_add(1, std::sync::atomic::Ordering::Relaxed);
        let m = std::sync::Arc::new(Mutex::new(0u32));
        let g = m.try_lock_arc().unwrap();
        let mut ta = Task::new(m.lock_arc());
        let t = loom::thread::spawn(move || drop(g)); // the holder unlocks concurrently with A's first poll
        ta.poll();
        t.join().unwrap();
        ta.settle();
        if ta.pending() {
            panic!("LOOM-VIOLATION mutex_stale_listener: lost wake-up: the mutex is unlocked, every woken task has been polled again, A is pending");
        }
        // A completed; its future is kept alive while its guard is used and dropped
        let mut tb = Task::new(m.lock_arc());
        tb.poll();
        assert!(tb.pending());
        let ga = ta.out.take();
        drop(ga); // unlock: notify(1)
        tb.settle();
        let free = m.try_lock_arc();
        if free.is_some() && tb.pending() {
            panic!("LOOM-VIOLATION mutex_stale_listener: lost wake-up: the mutex is unlocked, every woken task has been polled again, B (polled, pending) was never woken; the completed lock_arc() future A is still alive");
        }
        drop(free);
        drop(tb);
        drop(ta);
    });
}

fn main() {
    let which = std::env::args().nth(1).unwrap_or_else(|| "all".to_string());
    let tests: Vec<(&str, fn())> = vec![("sem_absorbed_release", sem_absorbed_release), ("mutex_stale_listener", mutex_stale_listener)];
    for (name, f) in tests {
        if which == "all" || which == name {
            eprintln!("LOOM-RUN {}", name);
            EXECUTIONS.store(0, std::sync::atomic::Ordering::Relaxed);
            f(); // a violation panics (loom prints the failing execution's panic message) and the process exits non-zero
            println!("LOOM-OK {} executions={}", name, EXECUTIONS.load(std::sync::atomic::Ordering::Relaxed));
        }
    }
}
