// loom search for the Semaphore lost wake-up: a notified waiter (A) is polled while two releases happen;
// if A's poll is preempted between its failed try_acquire and the poll of its (already notified) listener,
// both notify(1) calls are absorbed by A's entry, A then consumes the notification, acquires, and nobody
// wakes B although a permit is available.
use async_lock::Semaphore;
use loom::sync::atomic::{AtomicBool, Ordering};
use loom::sync::Arc;
use std::future::Future;
use std::pin::Pin;
use std::task::{Context, Poll, RawWaker, RawWakerVTable, Waker};

fn flag_waker(flag: Arc<AtomicBool>) -> Waker {
    unsafe fn clone(p: *const ()) -> RawWaker {
        let a = Arc::from_raw(p as *const AtomicBool);
        let b = a.clone();
        std::mem::forget(a);
        RawWaker::new(Arc::into_raw(b) as *const (), &VT)
    }
    unsafe fn wake(p: *const ()) {
        let a = Arc::from_raw(p as *const AtomicBool);
        a.store(true, Ordering::SeqCst);
    }
    unsafe fn wake_by_ref(p: *const ()) {
        let a = Arc::from_raw(p as *const AtomicBool);
        a.store(true, Ordering::SeqCst);
        std::mem::forget(a);
    }
    unsafe fn drop_w(p: *const ()) {
        drop(Arc::from_raw(p as *const AtomicBool));
    }
    static VT: RawWakerVTable = RawWakerVTable::new(clone, wake, wake_by_ref, drop_w);
    unsafe { Waker::from_raw(RawWaker::new(Arc::into_raw(flag) as *const (), &VT)) }
}

/// C07, schedule half: two releases while a notified waiter is being re-polled.
fn sem_absorbed_release() {
    let mut b = loom::model::Builder::new();
    b.preemption_bound = Some(3);
    b.check(|| {
        let sem = std::sync::Arc::new(Semaphore::new(2));
        let g1 = sem.try_acquire_arc().unwrap();
        let g2 = sem.try_acquire_arc().unwrap();
        let wa = Arc::new(AtomicBool::new(false));
        let wb = Arc::new(AtomicBool::new(false));
        let mut fa = Box::pin(sem.acquire_arc());
        let mut fb = Box::pin(sem.acquire_arc());
        {
            let w = flag_waker(wa.clone());
            let mut cx = Context::from_waker(&w);
            assert!(fa.as_mut().poll(&mut cx).is_pending());
            let w = flag_waker(wb.clone());
            let mut cx = Context::from_waker(&w);
            assert!(fb.as_mut().poll(&mut cx).is_pending());
        }
        drop(g1); // count = 1, A notified
        assert!(wa.load(Ordering::SeqCst));
        let c = sem.try_acquire_arc().unwrap(); // a barger takes the permit: count = 0
        let wa2 = wa.clone();
        let t = loom::thread::spawn(move || {
            let w = flag_waker(wa2);
            let mut cx = Context::from_waker(&w);
            let r = fa.as_mut().poll(&mut cx);
            match r { Poll::Ready(g) => (Some(g), fa), Poll::Pending => (None, fa) }
        });
        drop(g2); // count += 1, notify(1)
        drop(c); // count += 1, notify(1)
        let (ra, fa) = t.join().unwrap();
        // quiescent point: A has been re-polled. Two permits were released; A holds at most one.
        let b_woken = wb.load(Ordering::SeqCst);
        let free = sem.try_acquire_arc();
        if free.is_some() && !b_woken {
            panic!("LOOM-VIOLATION sem_absorbed_release: lost wake-up: a permit is available, every woken task has been polled again, B (polled, pending) was never woken; A ready = {}", ra.is_some());
        }
        drop(free);
        drop(fb);
        drop(fa);
        drop(ra);
    });
}

fn main() {
    let which = std::env::args().nth(1).unwrap_or_else(|| "all".to_string());
    let tests: Vec<(&str, fn())> = vec![("sem_absorbed_release", sem_absorbed_release)];
    for (name, f) in tests {
        if which == "all" || which == name {
            eprintln!("LOOM-RUN {}", name);
            f(); // a violation panics (loom prints the failing execution's panic message) and the process exits non-zero
            println!("LOOM-OK {}", name);
        }
    }
}
