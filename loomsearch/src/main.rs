// loom search for the Semaphore lost wake-up: a notified waiter (A) is polled while two releases happen;
// if A's poll is preempted between its failed try_acquire and the poll of its (already notified) listener,
// both notify(1) calls are absorbed by A's entry, A then consumes the notification, acquires, and nobody
// wakes B although a permit is available.
use async_lock::{Barrier, Mutex, OnceCell, RwLock, RwLockWriteGuard, Semaphore};
use loom::sync::atomic::{AtomicBool, Ordering};
use loom::sync::Arc;
use std::future::Future;
use std::pin::Pin;
use std::task::{Context, Poll, RawWaker, RawWakerVTable, Waker};

fn flag_waker(flag: Arc<AtomicBool>) -> Waker {
    unsafe fn clone(p: *const ()) -> RawWaker {
        let a = Arc::from_raw(p as *const AtomicBool);
        let b = a.clone();
        std::mem::forget(a);
        RawWaker::new(Arc::into_raw(b) as *const (), &VT)
    }
    unsafe fn wake(p: *const ()) {
        let a = Arc::from_raw(p as *const AtomicBool);
        a.store(true, Ordering::SeqCst);
    }
    unsafe fn wake_by_ref(p: *const ()) {
        let a = Arc::from_raw(p as *const AtomicBool);
        a.store(true, Ordering::SeqCst);
        std::mem::forget(a);
    }
    unsafe fn drop_w(p: *const ()) {
        drop(Arc::from_raw(p as *const AtomicBool));
    }
    static VT: RawWakerVTable = RawWakerVTable::new(clone, wake, wake_by_ref, drop_w);
    unsafe { Waker::from_raw(RawWaker::new(Arc::into_raw(flag) as *const (), &VT)) }
}

/// a waker that sets the flag and unparks a thread (for scenarios in which a thread sleeps until its task is woken)
fn unpark_waker(flag: Arc<AtomicBool>, th: loom::thread::Thread) -> Waker {
    struct W { flag: Arc<AtomicBool>, th: loom::thread::Thread }
    impl std::task::Wake for W {
        fn wake(self: std::sync::Arc<Self>) { self.wake_by_ref() }
        fn wake_by_ref(self: &std::sync::Arc<Self>) {
            self.flag.store(true, Ordering::SeqCst);
            self.th.unpark();
        }
    }
    Waker::from(std::sync::Arc::new(W { flag, th }))
}

/// preemption bound: VERIF_LOOM_BOUND (default 3); 255 or more = no bound (every schedule of the scenario)
fn bound() -> Option<usize> {
    let v = std::env::var("VERIF_LOOM_BOUND").ok().and_then(|v| v.parse::<usize>().ok()).unwrap_or(3);
    if v >= 255 { None } else { Some(v) }
}

static EXECUTIONS: std::sync::atomic::AtomicUsize = std::sync::atomic::AtomicUsize::new(0);

/// A future with the flag its wakers set; `poll` = "the task whose waker was called is polled again".
struct Task<F: Future> {
    fut: Pin<Box<F>>,
    flag: Arc<AtomicBool>,
    out: Option<F::Output>,
    polled: bool,
}
impl<F: Future> Task<F> {
    fn new(f: F) -> Self {
        Task { fut: Box::pin(f), flag: Arc::new(AtomicBool::new(false)), out: None, polled: false }
    }
    fn poll(&mut self) {
        if self.out.is_some() {
            return;
        }
        self.polled = true;
        self.flag.store(false, Ordering::SeqCst);
        let w = flag_waker(self.flag.clone());
        let mut cx = Context::from_waker(&w);
        if let Poll::Ready(v) = self.fut.as_mut().poll(&mut cx) {
            self.out = Some(v);
        }
    }
    fn poll_with(&mut self, w: &Waker) {
        if self.out.is_some() {
            return;
        }
        self.polled = true;
        self.flag.store(false, Ordering::SeqCst);
        let mut cx = Context::from_waker(w);
        if let Poll::Ready(v) = self.fut.as_mut().poll(&mut cx) {
            self.out = Some(v);
        }
    }
    fn pending(&self) -> bool {
        self.polled && self.out.is_none()
    }
    fn woken(&self) -> bool {
        self.flag.load(Ordering::SeqCst)
    }
    /// poll again for as long as the task is pending and its waker has been called
    fn settle(&mut self) {
        while self.pending() && self.woken() {
            self.poll();
        }
    }
}

/// C07, schedule half: two releases while a notified waiter is being re-polled on another thread.
fn sem_absorbed_release() {
    let mut b = loom::model::Builder::new();
    b.preemption_bound = bound();
    b.check(|| {
        EXECUTIONS.fetch_add(1, std::sync::atomic::Ordering::Relaxed);
        let sem = std::sync::Arc::new(Semaphore::new(2));
        let g1 = sem.try_acquire_arc().unwrap();
        let g2 = sem.try_acquire_arc().unwrap();
        let mut ta = Task::new(sem.acquire_arc());
        let mut tb = Task::new(sem.acquire_arc());
        ta.poll();
        tb.poll();
        assert!(ta.pending() && tb.pending());
        drop(g1); // count = 1, A notified
        assert!(ta.woken());
        let c = sem.try_acquire_arc().unwrap(); // a barger takes the permit: count = 0
        let t = loom::thread::spawn(move || {
            ta.poll(); // the woken task is polled again, concurrently with the two releases
            ta
        });
        drop(g2); // count += 1, notify(1)
        drop(c); // count += 1, notify(1)
        let mut ta = t.join().unwrap();
        // run to quiescence: every task whose waker was called is polled again
        loop {
            let before = (ta.pending(), tb.pending());
            ta.settle();
            tb.settle();
            if !(ta.pending() && ta.woken()) && !(tb.pending() && tb.woken()) && before == (ta.pending(), tb.pending()) {
                break;
            }
        }
        let free = sem.try_acquire_arc();
        if free.is_some() && (ta.pending() || tb.pending()) {
            panic!("LOOM-VIOLATION sem_absorbed_release: lost wake-up: a permit is available, every woken task has been polled again, but a polled acquire future is pending and was not woken (A pending = {}, B pending = {})", ta.pending(), tb.pending());
        }
        drop(free);
        drop(tb);
        drop(ta);
    });
}

/// C05, schedule half: a lock future completes through the compare_exchange right after listen() (the holder
/// unlocked between the future's try_lock and that compare_exchange) and is kept alive; does its listener stay in
/// lock_ops and swallow the notification of the next unlock?
fn mutex_stale_listener() {
    let mut b = loom::model::Builder::new();
    b.preemption_bound = bound();
    b.check(|| {
        EXECUTIONS.fetch_add(1, std::sync::atomic::Ordering::Relaxed);
        let m = std::sync::Arc::new(Mutex::new(0u32));
        let g = m.try_lock_arc().unwrap();
        let mut ta = Task::new(m.lock_arc());
        let t = loom::thread::spawn(move || drop(g)); // the holder unlocks concurrently with A's first poll
        ta.poll();
        t.join().unwrap();
        ta.settle();
        if ta.pending() {
            panic!("LOOM-VIOLATION mutex_stale_listener: lost wake-up: the mutex is unlocked, every woken task has been polled again, A is pending");
        }
        // A completed; its future is kept alive while its guard is used and dropped
        let mut tb = Task::new(m.lock_arc());
        tb.poll();
        assert!(tb.pending());
        let ga = ta.out.take();
        drop(ga); // unlock: notify(1)
        tb.settle();
        let free = m.try_lock_arc();
        if free.is_some() && tb.pending() {
            panic!("LOOM-VIOLATION mutex_stale_listener: lost wake-up: the mutex is unlocked, every woken task has been polled again, B (polled, pending) was never woken; the completed lock_arc() future A is still alive");
        }
        drop(free);
        drop(tb);
        drop(ta);
    });
}

/// C03, schedule half: try_acquire_arc / a poll of acquire_arc racing on 0 and on 1 permit never hand out more guards
/// than there are permits, and the counter is exact afterwards.
fn sem_try_race() {
    let mut b = loom::model::Builder::new();
    b.preemption_bound = bound();
    b.check(|| {
        EXECUTIONS.fetch_add(1, std::sync::atomic::Ordering::Relaxed);
        // no permit at all
        let sem = std::sync::Arc::new(Semaphore::new(0));
        let s2 = sem.clone();
        let t = loom::thread::spawn(move || s2.try_acquire_arc());
        let a = sem.try_acquire_arc();
        let b = t.join().unwrap();
        if a.is_some() || b.is_some() {
            panic!("LOOM-VIOLATION sem_try_race: over-issue: try_acquire_arc returned a guard on a semaphore that never had a permit");
        }
        // one permit, a try_acquire_arc against the first poll of an acquire_arc future
        let sem = std::sync::Arc::new(Semaphore::new(1));
        let s2 = sem.clone();
        let t = loom::thread::spawn(move || s2.try_acquire_arc());
        let mut ta = Task::new(sem.acquire_arc());
        ta.poll();
        let b = t.join().unwrap();
        if ta.out.is_some() && b.is_some() {
            panic!("LOOM-VIOLATION sem_try_race: over-issue: two guards alive on a semaphore with one permit");
        }
        let holders = ta.out.is_some() as usize + b.is_some() as usize;
        let free = sem.try_acquire_arc();
        if holders == 0 && free.is_none() {
            panic!("LOOM-VIOLATION sem_try_race: a permit vanished: nobody holds the only permit and try_acquire_arc fails");
        }
        drop(free);
        drop(b);
        drop(ta);
    });
}

/// C02 / C11, schedule half: a write() future polled while the writer downgrades: a write guard never coexists
/// with the read guard the downgrade produced.
fn rw_downgrade_race() {
    let mut b = loom::model::Builder::new();
    b.preemption_bound = bound();
    b.check(|| {
        EXECUTIONS.fetch_add(1, std::sync::atomic::Ordering::Relaxed);
        let l = std::sync::Arc::new(RwLock::new(0u32));
        let w = l.try_write_arc().unwrap();
        let t = loom::thread::spawn(move || async_lock::RwLockWriteGuardArc::downgrade(w));
        let mut tw = Task::new(l.write_arc());
        tw.poll();
        let r = t.join().unwrap();
        if tw.out.is_some() {
            panic!("LOOM-VIOLATION rw_downgrade_race: exclusion: a write() future completed while the read guard produced by downgrade() is alive");
        }
        drop(r);
        tw.settle();
        if tw.pending() {
            panic!("LOOM-VIOLATION rw_downgrade_race: lost wake-up: no guard is alive, every woken task has been polled again, a write() future is pending");
        }
        drop(tw);
    });
    let _ = |g: RwLockWriteGuard<'static, u32>| drop(g);
}

/// C01, schedule half, fair protocol: f1 is starved and listening, the lock is free, the non-starved f2 is notified
/// at the head of the queue; f2's poll (which passes the notification on, starves, and finds the lock free but
/// others starved) races with f1's poll: at most one of them may obtain the guard.
fn mutex_fair_race() {
    let mut b = loom::model::Builder::new();
    b.preemption_bound = bound();
    b.check(|| {
        EXECUTIONS.fetch_add(1, std::sync::atomic::Ordering::Relaxed);
        async_lock::verif::oracle_enable(true);
        async_lock::verif::oracle_set(&[]);
        let m = std::sync::Arc::new(Mutex::new(0u32));
        let g0 = m.try_lock_arc().unwrap();
        let mut t1 = Task::new(m.lock_arc());
        let mut t2 = Task::new(m.lock_arc());
        t1.poll();
        t2.poll();
        assert!(t1.pending() && t2.pending());
        drop(g0); // f1 (head) notified
        let g1 = m.try_lock_arc().unwrap(); // barging
        async_lock::verif::oracle_set(&[true]);
        t1.poll(); // consumes, loses the race, the clock says starved: f1 is starved and listens at the tail
        assert!(t1.pending());
        async_lock::verif::oracle_set(&[]);
        drop(g1); // lock free (word 2); f2 (head, not starved) notified
        let t = loom::thread::spawn(move || {
            t2.poll();
            t2
        });
        t1.poll(); // legal at any time
        let mut t2 = t.join().unwrap();
        if t1.out.is_some() && t2.out.is_some() {
            panic!("LOOM-VIOLATION mutex_fair_race: exclusion: two lock_arc() futures returned a guard and both guards are alive");
        }
        // run to quiescence; whoever holds the guard releases it; in the end both have had the lock
        for _ in 0..6 {
            t1.settle();
            t2.settle();
            if t1.out.is_some() && t2.out.is_some() {
                panic!("LOOM-VIOLATION mutex_fair_race: exclusion: two lock_arc() futures returned a guard and both guards are alive");
            }
            if let Some(g) = t1.out.take() { drop(g); t1.polled = false; }
            if let Some(g) = t2.out.take() { drop(g); t2.polled = false; }
        }
        if t1.pending() || t2.pending() {
            let free = m.try_lock_arc();
            if free.is_some() {
                panic!("LOOM-VIOLATION mutex_fair_race: lost wake-up: the mutex is free, every woken task has been polled again, a lock_arc() future is pending");
            }
        }
        async_lock::verif::oracle_enable(false);
        drop(t1);
        drop(t2);
    });
}

/// C06, schedule half: a writer unlocks while a waiting reader is being polled on another thread and a second reader
/// waits: with no write guard alive and nothing woken left unpolled no read() may be pending.
fn rw_reader_chain() {
    let mut b = loom::model::Builder::new();
    b.preemption_bound = bound();
    b.check(|| {
        EXECUTIONS.fetch_add(1, std::sync::atomic::Ordering::Relaxed);
        let l = std::sync::Arc::new(RwLock::new(0u32));
        let w = l.try_write_arc().unwrap();
        let mut r1 = Task::new(l.read_arc());
        let mut r2 = Task::new(l.read_arc());
        r1.poll();
        r2.poll();
        assert!(r1.pending() && r2.pending());
        let t = loom::thread::spawn(move || drop(w)); // write_unlock: clears the bit, notify(1), releases the mutex
        r1.poll(); // a spurious poll of the first reader races with the unlock
        t.join().unwrap();
        loop {
            let before = (r1.pending(), r2.pending());
            r1.settle();
            r2.settle();
            if !(r1.pending() && r1.woken()) && !(r2.pending() && r2.woken()) && before == (r1.pending(), r2.pending()) {
                break;
            }
        }
        if r1.pending() || r2.pending() {
            panic!("LOOM-VIOLATION rw_reader_chain: lost wake-up: no write guard is alive, no writer waits, every woken task has been polled again, a read() is pending (r1 = {}, r2 = {})", r1.pending(), r2.pending());
        }
        drop(r1);
        drop(r2);
    });
}

/// C06 (d), schedule half: the last reader leaves while a write() / an upgrade() is polled on another thread: with no
/// reader left and nothing woken left unpolled, the write() / upgrade() must have completed.
fn rw_writer_vs_last_reader() {
    let mut b = loom::model::Builder::new();
    b.preemption_bound = bound();
    b.check(|| {
        EXECUTIONS.fetch_add(1, std::sync::atomic::Ordering::Relaxed);
        // write() against the last reader
        let l = std::sync::Arc::new(RwLock::new(0u32));
        let r = l.try_read_arc().unwrap();
        let t = loom::thread::spawn(move || drop(r));
        let mut tw = Task::new(l.write_arc());
        tw.poll();
        t.join().unwrap();
        tw.settle();
        if tw.pending() {
            panic!("LOOM-VIOLATION rw_writer_vs_last_reader: lost wake-up: no reader is left, every woken task has been polled again, a write() is pending");
        }
        drop(tw);
        // upgrade() against the last reader
        let l = std::sync::Arc::new(RwLock::new(0u32));
        let r = l.try_read_arc().unwrap();
        let u = l.try_upgradable_read_arc().unwrap();
        let t = loom::thread::spawn(move || drop(r));
        let mut tu = Task::new(async_lock::RwLockUpgradableReadGuardArc::upgrade(u));
        tu.poll();
        t.join().unwrap();
        tu.settle();
        if tu.pending() {
            panic!("LOOM-VIOLATION rw_writer_vs_last_reader: lost wake-up: no reader is left, every woken task has been polled again, an upgrade() is pending");
        }
        drop(tu);
    });
}

/// C04 / C08, schedule half: two get_or_init futures polled on two threads: the closure runs once, both obtain the same
/// value, nobody is left pending.
fn once_init_race() {
    let mut b = loom::model::Builder::new();
    b.preemption_bound = bound();
    b.check(|| {
        EXECUTIONS.fetch_add(1, std::sync::atomic::Ordering::Relaxed);
        let cell = std::sync::Arc::new(OnceCell::<u32>::new());
        let runs = std::sync::Arc::new(std::sync::atomic::AtomicUsize::new(0));
        let (c1, n1) = (cell.clone(), runs.clone());
        let (c2, n2) = (cell.clone(), runs.clone());
        let mut t1 = Task::new(async move {
            *c1.get_or_init(|| async { n1.fetch_add(1, std::sync::atomic::Ordering::SeqCst); 7u32 }).await
        });
        let mut t2 = Task::new(async move {
            *c2.get_or_init(|| async { n2.fetch_add(1, std::sync::atomic::Ordering::SeqCst); 9u32 }).await
        });
        let t = loom::thread::spawn(move || {
            t2.poll();
            t2
        });
        t1.poll();
        let mut t2 = t.join().unwrap();
        for _ in 0..4 {
            t1.settle();
            t2.settle();
        }
        if t1.pending() || t2.pending() {
            panic!("LOOM-VIOLATION once_init_race: a get_or_init future is pending although the cell is initialised and every woken task has been polled again");
        }
        let n = runs.load(std::sync::atomic::Ordering::SeqCst);
        if n != 1 || t1.out != t2.out || cell.get().copied() != t1.out {
            panic!("LOOM-VIOLATION once_init_race: the initialiser ran {} times; values {:?} {:?} cell {:?}", n, t1.out, t2.out, cell.get());
        }
        drop(t1);
        drop(t2);
    });
}

/// C04, schedule half, blocking forms: two threads call get_or_init_blocking at the same time: one closure runs, both get
/// the value that closure produced.
fn once_blocking_race() {
    let mut b = loom::model::Builder::new();
    b.preemption_bound = bound();
    b.check(|| {
        EXECUTIONS.fetch_add(1, std::sync::atomic::Ordering::Relaxed);
        let cell = std::sync::Arc::new(OnceCell::<u32>::new());
        let runs = std::sync::Arc::new(std::sync::atomic::AtomicUsize::new(0));
        let (c2, n2) = (cell.clone(), runs.clone());
        let t = loom::thread::spawn(move || {
            *c2.get_or_init_blocking(|| { n2.fetch_add(1, std::sync::atomic::Ordering::SeqCst); 9u32 })
        });
        let n1 = runs.clone();
        let a = *cell.get_or_init_blocking(|| { n1.fetch_add(1, std::sync::atomic::Ordering::SeqCst); 7u32 });
        let b = t.join().unwrap();
        let n = runs.load(std::sync::atomic::Ordering::SeqCst);
        if n != 1 || a != b || cell.get().copied() != Some(a) {
            panic!("LOOM-VIOLATION once_blocking_race: the initialiser closure ran {} times (exactly once expected); values {} {} cell {:?}", n, a, b, cell.get());
        }
    });
}

/// C09, schedule half: two wait() futures of a Barrier of 2 polled on two threads: both complete, exactly one leads.
fn barrier_race() {
    let mut b = loom::model::Builder::new();
    b.preemption_bound = bound();
    b.check(|| {
        EXECUTIONS.fetch_add(1, std::sync::atomic::Ordering::Relaxed);
        let bar = std::sync::Arc::new(Barrier::new(2));
        let (b1, b2) = (bar.clone(), bar.clone());
        let mut t1 = Task::new(async move { b1.wait().await.is_leader() });
        let mut t2 = Task::new(async move { b2.wait().await.is_leader() });
        let t = loom::thread::spawn(move || {
            t2.poll();
            t2
        });
        t1.poll();
        let mut t2 = t.join().unwrap();
        for _ in 0..4 {
            t1.settle();
            t2.settle();
        }
        if t1.pending() || t2.pending() {
            panic!("LOOM-VIOLATION barrier_race: both parties arrived, every woken task has been polled again, a wait() is pending");
        }
        if t1.out.unwrap() == t2.out.unwrap() {
            panic!("LOOM-VIOLATION barrier_race: leaders: {:?} {:?} (exactly one expected)", t1.out, t2.out);
        }
        drop(t1);
        drop(t2);
    });
}

/// C09, schedule half, overlapping generations: a Barrier of 2; one party of the first generation waits; three more
/// parties arrive on three threads. Four arrivals = two complete generations: at quiescence every wait() is done.
fn barrier_generations() {
    let mut b = loom::model::Builder::new();
    b.preemption_bound = bound();
    b.check(|| {
        EXECUTIONS.fetch_add(1, std::sync::atomic::Ordering::Relaxed);
        async_lock::verif::oracle_enable(true);
        async_lock::verif::oracle_set(&[]);
        let bar = std::sync::Arc::new(Barrier::new(2));
        let mk = |b: std::sync::Arc<Barrier>| Task::new(async move { b.wait().await.is_leader() });
        let mut ta = mk(bar.clone());
        let mut tb = mk(bar.clone());
        let mut tc = mk(bar.clone());
        let mut td = mk(bar.clone());
        ta.poll();
        assert!(ta.pending());
        let t1 = loom::thread::spawn(move || { tb.poll(); tb });
        let t2 = loom::thread::spawn(move || { tc.poll(); tc.settle(); tc });
        td.poll();
        let mut tb = t1.join().unwrap();
        let mut tc = t2.join().unwrap();
        for _ in 0..6 {
            ta.settle();
            tb.settle();
            tc.settle();
            td.settle();
        }
        let pend = [ta.pending(), tb.pending(), tc.pending(), td.pending()];
        if pend.iter().any(|p| *p) {
            panic!("LOOM-VIOLATION barrier_generations: four parties arrived at a barrier of 2 (two complete generations), every woken task has been polled again, wait() futures still pending: {:?}", pend);
        }
        let leaders = [&ta, &tb, &tc, &td].iter().filter(|t| t.out == Some(true)).count();
        if leaders != 2 {
            panic!("LOOM-VIOLATION barrier_generations: {} leaders for two generations", leaders);
        }
        async_lock::verif::oracle_enable(false);
        drop(ta); drop(tb); drop(tc); drop(td);
    });
}

/// C14 / C02, schedule half ("never succeeds in conflict"): try_write on one thread against try_read and
/// try_upgradable_read on another, and try_upgrade against a try_read: no write guard next to any other guard.
fn rw_try_race() {
    let mut b = loom::model::Builder::new();
    b.preemption_bound = bound();
    b.check(|| {
        EXECUTIONS.fetch_add(1, std::sync::atomic::Ordering::Relaxed);
        let l = std::sync::Arc::new(RwLock::new(0u32));
        let l2 = l.clone();
        let t = loom::thread::spawn(move || l2.try_write_arc());
        let r = l.try_read_arc();
        let u = l.try_upgradable_read_arc();
        let w = t.join().unwrap();
        if w.is_some() && (r.is_some() || u.is_some()) {
            panic!("LOOM-VIOLATION rw_try_race: exclusion: try_write succeeded while a guard obtained by try_read / try_upgradable_read is alive (read = {}, upgradable = {})", r.is_some(), u.is_some());
        }
        drop(w);
        drop(r);
        drop(u);
        // try_upgrade against a reader that gets in
        let l = std::sync::Arc::new(RwLock::new(0u32));
        let u = l.try_upgradable_read_arc().unwrap();
        let l2 = l.clone();
        let t = loom::thread::spawn(move || l2.try_read_arc());
        let up = async_lock::RwLockUpgradableReadGuardArc::try_upgrade(u);
        let r = t.join().unwrap();
        if up.is_ok() && r.is_some() {
            panic!("LOOM-VIOLATION rw_try_race: exclusion: try_upgrade succeeded while a read guard obtained by try_read is alive");
        }
        drop(r);
        drop(up);
        if l.try_write_arc().is_none() {
            panic!("LOOM-VIOLATION rw_try_race: nothing is alive and try_write fails: a try_* left something behind");
        }
    });
}

/// C12, schedule half: once a polled write() is pending behind a reader (its poll has returned Pending: the writer has
/// announced itself), try_read on any thread returns None and a read() does not complete, until the writer has had the lock.
fn rw_writer_announced() {
    let mut b = loom::model::Builder::new();
    b.preemption_bound = bound();
    b.check(|| {
        EXECUTIONS.fetch_add(1, std::sync::atomic::Ordering::Relaxed);
        let l = std::sync::Arc::new(RwLock::new(0u32));
        let r0 = l.try_read_arc().unwrap();
        let ann = Arc::new(AtomicBool::new(false));
        let (l2, ann2) = (l.clone(), ann.clone());
        let t = loom::thread::spawn(move || {
            let announced = ann2.load(Ordering::SeqCst);
            let r1 = l2.try_read_arc();
            let got = r1.is_some();
            let mut tr = Task::new(l2.read_arc());
            tr.poll();
            let completed = tr.out.is_some();
            drop(tr);
            drop(r1);
            (announced, got, completed)
        });
        let mut tw = Task::new(l.write_arc());
        tw.poll();
        if tw.pending() {
            ann.store(true, Ordering::SeqCst);
        }
        let (announced, got, completed) = t.join().unwrap();
        if announced && got {
            panic!("LOOM-VIOLATION rw_writer_announced: a polled write() is pending behind a reader and try_read succeeded: the waiting writer does not stop new readers");
        }
        if announced && completed {
            panic!("LOOM-VIOLATION rw_writer_announced: a polled write() is pending behind a reader and a read() future completed: the waiting writer does not stop new readers");
        }
        drop(r0);
        tw.settle();
        if tw.pending() {
            panic!("LOOM-VIOLATION rw_writer_announced: lost wake-up: no guard is alive, every woken task has been polled again, the write() is pending");
        }
        drop(tw);
    });
}

/// C13, try_lock clause under threads: f1 holds a starvation ticket and the mutex is unlocked; while f1 is polled on
/// another thread (and acquires), try_lock on this thread returns None at every instant.
fn mutex_starved_try() {
    let mut b = loom::model::Builder::new();
    b.preemption_bound = bound();
    b.check(|| {
        EXECUTIONS.fetch_add(1, std::sync::atomic::Ordering::Relaxed);
        async_lock::verif::oracle_enable(true);
        async_lock::verif::oracle_set(&[]);
        let m = std::sync::Arc::new(Mutex::new(0u32));
        let g0 = m.try_lock_arc().unwrap();
        let mut t1 = Task::new(m.lock_arc());
        t1.poll();
        assert!(t1.pending());
        drop(g0); // f1 notified
        let g1 = m.try_lock_arc().unwrap(); // barging
        async_lock::verif::oracle_set(&[true]);
        t1.poll(); // loses the race, the clock says starved: f1 takes a ticket
        assert!(t1.pending());
        async_lock::verif::oracle_set(&[]);
        let m2 = m.clone();
        let t = loom::thread::spawn(move || {
            drop(g1); // unlock: the mutex is momentarily free, f1 is notified
            t1.settle();
            t1
        });
        let barged = m2.try_lock_arc();
        let t1 = t.join().unwrap();
        if barged.is_some() {
            panic!("LOOM-VIOLATION mutex_starved_try: try_lock succeeded while a starved lock operation was pending (it had {}acquired)", if t1.out.is_some() { "" } else { "not " });
        }
        if t1.pending() {
            panic!("LOOM-VIOLATION mutex_starved_try: lost wake-up: the mutex is free, every woken task has been polled again, the starved lock_arc() is pending");
        }
        async_lock::verif::oracle_enable(false);
        drop(t1);
    });
}

/// Blocking forms (C01 / C05, C07, C02 / C06, C09): the same poll functions under the Blocking strategy, a waiter
/// parked on its thread. Two threads use the blocking form against each other: nobody deadlocks (loom reports a
/// deadlock as a failed execution), the guards exclude each other, the barrier releases both with one leader.
fn blocking_forms() {
    let mut b = loom::model::Builder::new();
    b.preemption_bound = bound();
    b.check(|| {
        EXECUTIONS.fetch_add(1, std::sync::atomic::Ordering::Relaxed);
        // Mutex::lock_blocking / lock_arc_blocking
        let m = std::sync::Arc::new(Mutex::new(0u32));
        let inside = std::sync::Arc::new(std::sync::atomic::AtomicUsize::new(0));
        let (m2, i2) = (m.clone(), inside.clone());
        let t = loom::thread::spawn(move || {
            let mut g = m2.lock_arc_blocking();
            if i2.fetch_add(1, std::sync::atomic::Ordering::SeqCst) != 0 {
                panic!("LOOM-VIOLATION blocking_forms: exclusion: lock_arc_blocking returned while the guard of lock_blocking is alive");
            }
            *g += 1;
            i2.fetch_sub(1, std::sync::atomic::Ordering::SeqCst);
        });
        {
            let mut g = m.lock_blocking();
            if inside.fetch_add(1, std::sync::atomic::Ordering::SeqCst) != 0 {
                panic!("LOOM-VIOLATION blocking_forms: exclusion: lock_blocking returned while the guard of lock_arc_blocking is alive");
            }
            *g += 1;
            inside.fetch_sub(1, std::sync::atomic::Ordering::SeqCst);
        }
        t.join().unwrap();
        if *m.lock_blocking() != 2 {
            panic!("LOOM-VIOLATION blocking_forms: an update made under a Mutex guard was lost");
        }
    });
    let mut b = loom::model::Builder::new();
    b.preemption_bound = bound();
    b.check(|| {
        EXECUTIONS.fetch_add(1, std::sync::atomic::Ordering::Relaxed);
        // Semaphore::acquire_blocking / acquire_arc_blocking: one permit, two takers
        let s = std::sync::Arc::new(Semaphore::new(1));
        let held = std::sync::Arc::new(std::sync::atomic::AtomicUsize::new(0));
        let (s2, h2) = (s.clone(), held.clone());
        let t = loom::thread::spawn(move || {
            let g = s2.acquire_arc_blocking();
            if h2.fetch_add(1, std::sync::atomic::Ordering::SeqCst) != 0 {
                panic!("LOOM-VIOLATION blocking_forms: over-issue: acquire_arc_blocking returned a permit of a Semaphore(1) while the other permit holder is alive");
            }
            h2.fetch_sub(1, std::sync::atomic::Ordering::SeqCst);
            drop(g);
        });
        {
            let g = s.acquire_blocking();
            if held.fetch_add(1, std::sync::atomic::Ordering::SeqCst) != 0 {
                panic!("LOOM-VIOLATION blocking_forms: over-issue: acquire_blocking returned a permit of a Semaphore(1) while the other permit holder is alive");
            }
            held.fetch_sub(1, std::sync::atomic::Ordering::SeqCst);
            drop(g);
        }
        t.join().unwrap();
        if s.try_acquire().is_none() {
            panic!("LOOM-VIOLATION blocking_forms: both guards are gone and the permit is not back");
        }
    });
    let mut b = loom::model::Builder::new();
    b.preemption_bound = bound();
    b.check(|| {
        EXECUTIONS.fetch_add(1, std::sync::atomic::Ordering::Relaxed);
        // RwLock::write_blocking against read_blocking
        let l = std::sync::Arc::new(RwLock::new(0u32));
        let l2 = l.clone();
        let t = loom::thread::spawn(move || {
            let mut w = l2.write_blocking();
            *w += 1;
            *w += 1;
        });
        let v = *l.read_blocking();
        if v == 1 {
            panic!("LOOM-VIOLATION blocking_forms: exclusion: read_blocking read the value in the middle of the update made under write_blocking");
        }
        t.join().unwrap();
        if *l.read_blocking() != 2 {
            panic!("LOOM-VIOLATION blocking_forms: an update made under a write guard was lost");
        }
    });
    let mut b = loom::model::Builder::new();
    b.preemption_bound = bound();
    b.check(|| {
        EXECUTIONS.fetch_add(1, std::sync::atomic::Ordering::Relaxed);
        // Barrier::wait_blocking: two parties
        let bar = std::sync::Arc::new(Barrier::new(2));
        let b2 = bar.clone();
        let t = loom::thread::spawn(move || b2.wait_blocking().is_leader());
        let a = bar.wait_blocking().is_leader();
        let c = t.join().unwrap();
        if a == c {
            panic!("LOOM-VIOLATION blocking_forms: Barrier(2): leaders {} {} (exactly one expected)", a, c);
        }
    });
}

/// C09, blocking form across generations: a Barrier of 2; generation 0 is an async wait() that is released by a
/// wait_blocking leader but not polled again (its entry stays notified in the event); generation 1 consists of two
/// wait_blocking parties on two threads: both must return (a parked party that is never woken is a deadlock, which loom
/// reports), exactly one of them leads.
fn barrier_blocking_generations() {
    let mut b = loom::model::Builder::new();
    b.preemption_bound = bound();
    b.check(|| {
        EXECUTIONS.fetch_add(1, std::sync::atomic::Ordering::Relaxed);
        let bar = std::sync::Arc::new(Barrier::new(2));
        let b1 = bar.clone();
        let mut t1 = Task::new(async move { b1.wait().await.is_leader() });
        t1.poll();
        assert!(t1.pending());
        let l0 = bar.wait_blocking().is_leader(); // second arrival of generation 0: the leader; t1 is notified, not re-polled
        if !l0 {
            panic!("LOOM-VIOLATION barrier_blocking_generations: the last party to arrive is not the leader");
        }
        let b2 = bar.clone();
        let t = loom::thread::spawn(move || b2.wait_blocking().is_leader());
        let a = bar.wait_blocking().is_leader();
        let c = t.join().unwrap();
        if a == c {
            panic!("LOOM-VIOLATION barrier_blocking_generations: generation 1: leaders {} {} (exactly one expected)", a, c);
        }
        t1.settle();
        if t1.pending() {
            panic!("LOOM-VIOLATION barrier_blocking_generations: the wait() of generation 0 is still pending after both of its parties arrived and it was polled again");
        }
        drop(t1);
    });
}

/// C05, blocking waiter next to the fair protocol: an async lock_arc() future W becomes starved while a thread is parked
/// in lock_blocking(); the mutex is then unlocked for good. W's task sleeps until its waker is called; both W and the
/// blocking thread must get the mutex (a wake-up that is lost leaves both asleep: a deadlock, which loom reports).
fn mutex_blocking_vs_starved() {
    let mut b = loom::model::Builder::new();
    b.preemption_bound = bound();
    b.check(|| {
        EXECUTIONS.fetch_add(1, std::sync::atomic::Ordering::Relaxed);
        async_lock::verif::oracle_enable(true);
        async_lock::verif::oracle_set(&[]);
        let m = std::sync::Arc::new(Mutex::new(0u32));
        let g0 = m.try_lock_arc().unwrap();
        let mut t1 = Task::new(m.lock_arc());
        let w = unpark_waker(t1.flag.clone(), loom::thread::current());
        t1.poll_with(&w);
        assert!(t1.pending());
        drop(g0); // W notified
        let g1 = m.try_lock_arc().unwrap(); // barging
        let m2 = m.clone();
        let t = loom::thread::spawn(move || {
            let mut g = m2.lock_blocking();
            *g += 1;
        });
        async_lock::verif::oracle_set(&[true]);
        t1.poll_with(&w); // consumes its notification, loses the race, the clock says starved
        assert!(t1.pending());
        async_lock::verif::oracle_set(&[]);
        drop(g1); // unlocked for good
        // W's task: sleep until woken, then poll
        while t1.out.is_none() {
            if t1.woken() {
                t1.poll_with(&w);
            } else {
                loom::thread::park();
            }
        }
        drop(t1.out.take());
        t.join().unwrap();
        async_lock::verif::oracle_enable(false);
        drop(t1);
    });
}

/// C06 / C10, the three events of the RwLock together: a reader holds; a write() is announced and waits on no_readers; a
/// read() waits on no_writer behind it; an upgradable_read() waits on the inner mutex. Then the last reader leaves on one
/// thread while the waiting write() is CANCELLED on another (write_unlock: bit cleared, no_writer notified, inner mutex
/// released). With no guard alive and every woken task polled again, neither the read() nor the upgradable_read() may be
/// left pending, and a fresh try_write must succeed once they are gone.
fn rw_cancel_vs_last_reader() {
    let mut b = loom::model::Builder::new();
    b.preemption_bound = bound();
    b.check(|| {
        EXECUTIONS.fetch_add(1, std::sync::atomic::Ordering::Relaxed);
        let l = std::sync::Arc::new(RwLock::new(0u32));
        let r0 = l.try_read_arc().unwrap();
        let mut tw = Task::new(l.write_arc());
        tw.poll();
        assert!(tw.pending());
        let mut tr = Task::new(l.read_arc());
        tr.poll();
        assert!(tr.pending());
        let mut tu = Task::new(l.upgradable_read_arc());
        tu.poll();
        assert!(tu.pending());
        let t = loom::thread::spawn(move || drop(r0));
        drop(tw); // cancellation of the announced writer, racing with the last reader's exit
        t.join().unwrap();
        for _ in 0..6 {
            tr.settle();
            tu.settle();
        }
        if tr.pending() || tu.pending() {
            panic!("LOOM-VIOLATION rw_cancel_vs_last_reader: lost wake-up: no guard is alive, no writer waits, every woken task has been polled again: read() pending = {}, upgradable_read() pending = {}", tr.pending(), tu.pending());
        }
        drop(tr);
        drop(tu);
        if l.try_write_arc().is_none() {
            panic!("LOOM-VIOLATION rw_cancel_vs_last_reader: everything is gone and try_write fails: the cancelled write() left a trace");
        }
    });
    let mut b = loom::model::Builder::new();
    b.preemption_bound = bound();
    b.check(|| {
        EXECUTIONS.fetch_add(1, std::sync::atomic::Ordering::Relaxed);
        // the same with an upgrade() in place of the write(): an upgradable guard + a reader; upgrade pending; cancelled
        // while the reader leaves; a read() and a write() wait behind it
        let l = std::sync::Arc::new(RwLock::new(0u32));
        let r0 = l.try_read_arc().unwrap();
        let u = l.try_upgradable_read_arc().unwrap();
        let mut tup = Task::new(async_lock::RwLockUpgradableReadGuardArc::upgrade(u));
        tup.poll();
        assert!(tup.pending());
        let mut tr = Task::new(l.read_arc());
        tr.poll();
        assert!(tr.pending());
        let mut tw = Task::new(l.write_arc());
        tw.poll();
        assert!(tw.pending());
        let t = loom::thread::spawn(move || drop(r0));
        drop(tup); // cancellation of the pending upgrade: write_unlock, the upgradable lock it consumed is released too
        t.join().unwrap();
        for _ in 0..8 {
            tr.settle();
            tw.settle();
            if let Some(g) = tr.out.take() { drop(g); tr.polled = false; }
            if let Some(g) = tw.out.take() { drop(g); tw.polled = false; }
        }
        if tr.pending() || tw.pending() {
            panic!("LOOM-VIOLATION rw_cancel_vs_last_reader: lost wake-up after a cancelled upgrade: no guard is alive, every woken task has been polled again: read() pending = {}, write() pending = {}", tr.pending(), tw.pending());
        }
        drop(tr);
        drop(tw);
        if l.try_write_arc().is_none() {
            panic!("LOOM-VIOLATION rw_cancel_vs_last_reader: everything is gone and try_write fails: the cancelled upgrade left a trace");
        }
    });
}

/// a future that is Pending until its flag is set (the harness's "gate": an initialiser that waits for something)
struct Gate(Arc<AtomicBool>);
impl Future for Gate {
    type Output = ();
    fn poll(self: Pin<&mut Self>, _cx: &mut Context<'_>) -> Poll<()> {
        if self.0.load(Ordering::SeqCst) { Poll::Ready(()) } else { Poll::Pending }
    }
}

/// C08 with the passive waiters: A runs a get_or_init whose closure pends; B is a wait() (passive_waiters); C is a second
/// get_or_init (active_initializers). A is CANCELLED on one thread (its guard resets the cell and notifies one active
/// waiter) while C is polled on another. At quiescence C has taken over and initialised the cell, and the wait() has
/// completed with that value; the cell is never left Initializing with nobody running.
fn once_wait_vs_cancel() {
    let mut b = loom::model::Builder::new();
    b.preemption_bound = bound();
    b.check(|| {
        EXECUTIONS.fetch_add(1, std::sync::atomic::Ordering::SeqCst);
        let cell = std::sync::Arc::new(OnceCell::<u32>::new());
        let gate = Arc::new(AtomicBool::new(false));
        let (c1, g1) = (cell.clone(), gate.clone());
        let mut ta = Task::new(async move { *c1.get_or_init(|| async move { Gate(g1).await; 7u32 }).await });
        ta.poll();
        assert!(ta.pending());
        let c2 = cell.clone();
        let mut tb = Task::new(async move { *c2.wait().await });
        tb.poll();
        assert!(tb.pending());
        let c3 = cell.clone();
        let mut tc = Task::new(async move { *c3.get_or_init(|| async { 9u32 }).await });
        tc.poll();
        assert!(tc.pending());
        let t = loom::thread::spawn(move || drop(ta)); // cancellation of the running initialiser
        tc.poll(); // a spurious poll of the second initialiser races with it
        t.join().unwrap();
        for _ in 0..6 {
            tc.settle();
            tb.settle();
        }
        if tc.pending() {
            panic!("LOOM-VIOLATION once_wait_vs_cancel: hand-over lost: the running initialiser was cancelled, every woken task has been polled again, and the waiting get_or_init is still pending (cell = {:?})", cell.get());
        }
        if tb.pending() {
            panic!("LOOM-VIOLATION once_wait_vs_cancel: the cell is initialised, every woken task has been polled again, and the wait() future is still pending");
        }
        if tc.out != Some(9) || tb.out != Some(9) || cell.get().copied() != Some(9) {
            panic!("LOOM-VIOLATION once_wait_vs_cancel: values: get_or_init {:?}, wait {:?}, cell {:?} (9 expected everywhere)", tc.out, tb.out, cell.get());
        }
        drop(tb);
        drop(tc);
    });
}

/// C12 / C06 / C10: a reader holds; write() W1 is announced and waits for it; write() W2 waits on the inner mutex. W1 is
/// CANCELLED on one thread while W2 is polled on another. Afterwards (every woken task polled again) W2 is the waiting
/// writer: it has announced itself — try_read fails although only a reader holds the lock — and once the reader leaves it
/// gets the lock; nothing of W1 is left behind.
fn rw_cancel_vs_next_writer() {
    let mut b = loom::model::Builder::new();
    b.preemption_bound = bound();
    b.check(|| {
        EXECUTIONS.fetch_add(1, std::sync::atomic::Ordering::Relaxed);
        // the futures borrow the Arc and one of them is dropped on another thread: give the Arc a 'static address for
        // the duration of the execution
        let lp: *mut std::sync::Arc<RwLock<u32>> = Box::into_raw(Box::new(std::sync::Arc::new(RwLock::new(0u32))));
        let l: &'static std::sync::Arc<RwLock<u32>> = unsafe { &*lp };
        let r0 = l.try_read_arc().unwrap();
        let mut w1 = Task::new(l.write_arc());
        w1.poll();
        assert!(w1.pending());
        let mut w2 = Task::new(l.write_arc());
        w2.poll();
        assert!(w2.pending());
        let t = loom::thread::spawn(move || drop(w1)); // cancellation of the announced writer
        w2.poll(); // a (possibly spurious) poll of the next writer races with it
        t.join().unwrap();
        w2.settle();
        if w2.out.is_some() {
            panic!("LOOM-VIOLATION rw_cancel_vs_next_writer: exclusion: a write() completed while a read guard is alive");
        }
        if let Some(r) = l.try_read_arc() {
            drop(r);
            panic!("LOOM-VIOLATION rw_cancel_vs_next_writer: write preference lost: a polled write() is pending, no write or upgradable guard is alive, every woken task has been polled again, and try_read succeeded (the cancelled writer took the next writer's announcement with it)");
        }
        drop(r0);
        w2.settle();
        if w2.pending() {
            panic!("LOOM-VIOLATION rw_cancel_vs_next_writer: lost wake-up: no guard is alive, every woken task has been polled again, the write() is still pending");
        }
        drop(w2);
        if l.try_write_arc().is_none() {
            panic!("LOOM-VIOLATION rw_cancel_vs_next_writer: everything is gone and try_write fails: something was left behind");
        }
        unsafe { drop(Box::from_raw(lp)); }
    });
}

/// C07, add_permits: a Semaphore with no permit and two polled acquire futures; add_permits(2) on one thread while the
/// first waiter is polled (spuriously, or because it was woken) on another. Once add_permits has returned and every
/// woken task has been polled again, both hold a permit.
fn sem_add_permits_race() {
    // one waiter, one permit: nobody else can pass a notification on
    let mut b = loom::model::Builder::new();
    b.preemption_bound = bound();
    b.check(|| {
        EXECUTIONS.fetch_add(1, std::sync::atomic::Ordering::Relaxed);
        let s = std::sync::Arc::new(Semaphore::new(0));
        let mut t1 = Task::new(s.acquire_arc());
        t1.poll();
        assert!(t1.pending());
        let s2 = s.clone();
        let t = loom::thread::spawn(move || s2.add_permits(1));
        if t1.woken() {
            t1.poll(); // the task is polled as soon as its waker was called
        }
        t.join().unwrap();
        t1.settle();
        if t1.pending() {
            panic!("LOOM-VIOLATION sem_add_permits_race: lost wake-up: add_permits(1) has returned, every woken task has been polled again, the acquire future is pending (permit available: {})", s.try_acquire().is_some());
        }
        drop(t1);
    });
    // two waiters, two permits, a spurious poll
    let mut b = loom::model::Builder::new();
    b.preemption_bound = bound();
    b.check(|| {
        EXECUTIONS.fetch_add(1, std::sync::atomic::Ordering::Relaxed);
        let s = std::sync::Arc::new(Semaphore::new(0));
        let mut t1 = Task::new(s.acquire_arc());
        let mut t2 = Task::new(s.acquire_arc());
        t1.poll();
        t2.poll();
        assert!(t1.pending() && t2.pending());
        let s2 = s.clone();
        let t = loom::thread::spawn(move || s2.add_permits(2));
        t1.poll();
        t.join().unwrap();
        for _ in 0..6 {
            t1.settle();
            t2.settle();
        }
        if t1.pending() || t2.pending() {
            panic!("LOOM-VIOLATION sem_add_permits_race: lost wake-up: add_permits(2) has returned, every woken task has been polled again, acquire futures pending: {} {} (permit available: {})", t1.pending(), t2.pending(), s.try_acquire().is_some());
        }
        drop(t1);
        drop(t2);
    });
}

/// C09, safety under threads: a Barrier of 2 with three arrivals — one party waits, two more arrive on two threads. Three
/// arrivals are one complete generation and one party of the next: exactly two waits return (one of them the leader), the
/// third stays pending; a wait is never released by the leader of another generation.
fn barrier_three_arrivals() {
    let mut b = loom::model::Builder::new();
    b.preemption_bound = bound();
    b.check(|| {
        EXECUTIONS.fetch_add(1, std::sync::atomic::Ordering::Relaxed);
        let bar = std::sync::Arc::new(Barrier::new(2));
        let (b1, b2, b3) = (bar.clone(), bar.clone(), bar.clone());
        let mut t1 = Task::new(async move { b1.wait().await.is_leader() });
        let mut t2 = Task::new(async move { b2.wait().await.is_leader() });
        let mut t3 = Task::new(async move { b3.wait().await.is_leader() });
        t1.poll();
        assert!(t1.pending());
        let t = loom::thread::spawn(move || {
            t3.poll();
            t3
        });
        t2.poll();
        let mut t3 = t.join().unwrap();
        for _ in 0..4 {
            t1.settle();
            t2.settle();
            t3.settle();
        }
        let done = [t1.out, t2.out, t3.out];
        let returned = done.iter().filter(|o| o.is_some()).count();
        let leaders = done.iter().filter(|o| **o == Some(true)).count();
        if returned != 2 || leaders != 1 || t1.out.is_none() {
            panic!("LOOM-VIOLATION barrier_three_arrivals: Barrier(2), three arrivals, every woken task polled again: results {:?} (expected: the first party and exactly one of the other two return, exactly one leader, the third party waits for its own generation)", done);
        }
        drop(t1);
        drop(t2);
        drop(t3);
    });
}

/// C13 / C10 (Mutex): a lock operation takes its starvation ticket (fetch_add(2)) on one thread WHILE the holder unlocks on
/// another. Whatever the order, the ticket is in the word afterwards: while the operation is pending try_lock refuses, and
/// once it has had the mutex and everything is dropped the word is back to 0 (try_lock succeeds).
fn mutex_starve_vs_unlock() {
    let mut b = loom::model::Builder::new();
    b.preemption_bound = bound();
    b.check(|| {
        EXECUTIONS.fetch_add(1, std::sync::atomic::Ordering::Relaxed);
        async_lock::verif::oracle_enable(true);
        async_lock::verif::oracle_set(&[]);
        let m = std::sync::Arc::new(Mutex::new(0u32));
        let g0 = m.try_lock_arc().unwrap();
        let mut t1 = Task::new(m.lock_arc());
        t1.poll();
        assert!(t1.pending());
        drop(g0); // t1 notified
        let g1 = m.try_lock_arc().unwrap(); // barging
        let t = loom::thread::spawn(move || {
            async_lock::verif::oracle_enable(true);
            async_lock::verif::oracle_set(&[true]);
            t1.poll(); // consumes its notification; if it loses the race the clock says starved: fetch_add(2)
            async_lock::verif::oracle_set(&[]);
            async_lock::verif::oracle_enable(false);
            t1
        });
        drop(g1); // the unlock races with the ticket
        let mut t1 = t.join().unwrap();
        if t1.pending() {
            // it lost the race, so it is starved: barging is closed although the mutex is unlocked
            if let Some(g) = m.try_lock_arc() {
                drop(g);
                panic!("LOOM-VIOLATION mutex_starve_vs_unlock: try_lock succeeded on the unlocked mutex while a starved lock operation is pending: its starvation ticket was lost");
            }
        }
        t1.settle();
        if t1.pending() {
            panic!("LOOM-VIOLATION mutex_starve_vs_unlock: lost wake-up: the mutex is free, every woken task has been polled again, the lock_arc() is pending");
        }
        drop(t1);
        if m.try_lock_arc().is_none() {
            panic!("LOOM-VIOLATION mutex_starve_vs_unlock: nothing is alive and try_lock fails: a starvation ticket was left in the word");
        }
        async_lock::verif::oracle_enable(false);
    });
}

/// C10 / C06 (three threads): a reader holds; write() W1 is announced and waits; write() W2 waits on the inner mutex. W1 is
/// cancelled on one thread, W2 is polled and then the reader leaves on another. With no guard alive and every woken task
/// polled again W2 must have the lock: the last reader's notification must not end up on anything W1 left behind.
fn rw_cancel_vs_writer_and_reader() {
    let mut b = loom::model::Builder::new();
    b.preemption_bound = bound();
    b.check(|| {
        EXECUTIONS.fetch_add(1, std::sync::atomic::Ordering::Relaxed);
        let lp: *mut std::sync::Arc<RwLock<u32>> = Box::into_raw(Box::new(std::sync::Arc::new(RwLock::new(0u32))));
        let l: &'static std::sync::Arc<RwLock<u32>> = unsafe { &*lp };
        let r0 = l.try_read_arc().unwrap();
        let mut w1 = Task::new(l.write_arc());
        w1.poll();
        assert!(w1.pending());
        let mut w2 = Task::new(l.write_arc());
        w2.poll();
        assert!(w2.pending());
        let ta = loom::thread::spawn(move || drop(w1));
        let tb = loom::thread::spawn(move || {
            w2.poll();
            drop(r0);
            w2
        });
        ta.join().unwrap();
        let mut w2 = tb.join().unwrap();
        w2.settle();
        if w2.pending() {
            panic!("LOOM-VIOLATION rw_cancel_vs_writer_and_reader: lost wake-up: no guard is alive, the first writer was cancelled, every woken task has been polled again, the second write() is pending");
        }
        drop(w2);
        if l.try_write_arc().is_none() {
            panic!("LOOM-VIOLATION rw_cancel_vs_writer_and_reader: everything is gone and try_write fails: something was left behind");
        }
        unsafe { drop(Box::from_raw(lp)); }
    });
}

/// C01 / C14: try_lock_arc on one thread against try_lock, try_lock_arc and the first poll of lock_arc() on another:
/// never two guards of one Mutex alive at once; afterwards the mutex is free again.
fn mutex_try_race() {
    let mut b = loom::model::Builder::new();
    b.preemption_bound = bound();
    b.check(|| {
        EXECUTIONS.fetch_add(1, std::sync::atomic::Ordering::Relaxed);
        let m = std::sync::Arc::new(Mutex::new(0u32));
        let m2 = m.clone();
        let t = loom::thread::spawn(move || m2.try_lock_arc());
        let a = m.try_lock_arc();
        let c = t.join().unwrap();
        if a.is_some() && c.is_some() {
            panic!("LOOM-VIOLATION mutex_try_race: exclusion: two try_lock_arc calls returned a guard and both guards are alive");
        }
        drop(a);
        drop(c);
        let m2 = m.clone();
        let t = loom::thread::spawn(move || m2.try_lock_arc());
        let a = m.try_lock();
        let c = t.join().unwrap();
        if a.is_some() && c.is_some() {
            panic!("LOOM-VIOLATION mutex_try_race: exclusion: try_lock and try_lock_arc returned a guard and both guards are alive");
        }
        drop(a);
        drop(c);
        let m2 = m.clone();
        let t = loom::thread::spawn(move || m2.try_lock_arc());
        let mut tl = Task::new(m.lock_arc());
        tl.poll();
        let c = t.join().unwrap();
        if tl.out.is_some() && c.is_some() {
            panic!("LOOM-VIOLATION mutex_try_race: exclusion: the first poll of lock_arc() and a try_lock_arc returned a guard and both guards are alive");
        }
        drop(c);
        tl.settle();
        if tl.pending() {
            panic!("LOOM-VIOLATION mutex_try_race: lost wake-up: the mutex is free, every woken task has been polled again, the lock_arc() is pending");
        }
        drop(tl);
        if m.try_lock().is_none() {
            panic!("LOOM-VIOLATION mutex_try_race: nothing is alive and try_lock fails");
        }
        if std::sync::Arc::strong_count(&m) != 1 {
            panic!("LOOM-VIOLATION mutex_try_race: every guard, future and other handle is gone and the strong count of the Arc is {}", std::sync::Arc::strong_count(&m));
        }
    });
}

/// C03 / C14 / C15: one permit; try_acquire_arc on one thread against try_acquire (borrowed) and try_acquire_arc on
/// another: never two permits out at once; afterwards the permit is back (exactly one) and the Arc is owned only by the
/// remaining handle.
fn sem_try_forms_race() {
    let mut b = loom::model::Builder::new();
    b.preemption_bound = bound();
    b.check(|| {
        EXECUTIONS.fetch_add(1, std::sync::atomic::Ordering::Relaxed);
        let sem = std::sync::Arc::new(Semaphore::new(1));
        let s2 = sem.clone();
        let t = loom::thread::spawn(move || s2.try_acquire_arc());
        let a = sem.try_acquire();
        let c = t.join().unwrap();
        if a.is_some() && c.is_some() {
            panic!("LOOM-VIOLATION sem_try_forms_race: over-issue: try_acquire and try_acquire_arc both returned a guard on a semaphore with one permit");
        }
        drop(a);
        drop(c);
        let s2 = sem.clone();
        let t = loom::thread::spawn(move || { let g = s2.try_acquire_arc(); drop(g); });
        let g = sem.try_acquire_arc();
        drop(g);
        t.join().unwrap();
        let p1 = sem.try_acquire();
        let p2 = sem.try_acquire();
        if p1.is_none() || p2.is_some() {
            panic!("LOOM-VIOLATION sem_try_forms_race: conservation: every guard is gone and the semaphore of one permit hands out {} permits", p1.is_some() as usize + p2.is_some() as usize);
        }
        drop(p1);
        drop(p2);
        if std::sync::Arc::strong_count(&sem) != 1 {
            panic!("LOOM-VIOLATION sem_try_forms_race: every guard and other handle is gone and the strong count of the Arc is {} (a reference was leaked or over-released)", std::sync::Arc::strong_count(&sem));
        }
    });
}

/// C07 / C08, the first poll of a waiter racing with the event it waits for (listen-then-recheck):
///  - the only permit of a Semaphore is released on one thread while an acquire future is polled for the first time on
///    another: a Pending future has been woken, and after every woken task is polled again it holds the permit;
///  - the running initialiser of a OnceCell is cancelled on one thread while a second get_or_init is polled for the first
///    time on another: the second one takes over and initialises the cell.
fn first_poll_races() {
    let mut b = loom::model::Builder::new();
    b.preemption_bound = bound();
    b.check(|| {
        EXECUTIONS.fetch_add(1, std::sync::atomic::Ordering::Relaxed);
        let s = std::sync::Arc::new(Semaphore::new(1));
        let g = s.try_acquire_arc().unwrap();
        let t = loom::thread::spawn(move || drop(g));
        let mut ta = Task::new(s.acquire_arc());
        ta.poll();
        t.join().unwrap();
        ta.settle();
        if ta.pending() {
            panic!("LOOM-VIOLATION first_poll_races: Semaphore: lost wake-up: the permit is back, every woken task has been polled again, the acquire future is pending (it was {}woken)", if ta.woken() { "" } else { "never " });
        }
        drop(ta);
    });
    let mut b = loom::model::Builder::new();
    b.preemption_bound = bound();
    b.check(|| {
        EXECUTIONS.fetch_add(1, std::sync::atomic::Ordering::Relaxed);
        let cell = std::sync::Arc::new(OnceCell::<u32>::new());
        let gate = Arc::new(AtomicBool::new(false));
        let (c1, g1) = (cell.clone(), gate.clone());
        let mut ta = Task::new(async move { *c1.get_or_init(|| async move { Gate(g1).await; 7u32 }).await });
        ta.poll();
        assert!(ta.pending());
        let t = loom::thread::spawn(move || drop(ta)); // the running initialiser is cancelled
        let c3 = cell.clone();
        let mut tc = Task::new(async move { *c3.get_or_init(|| async { 9u32 }).await });
        tc.poll(); // first poll of the second caller
        t.join().unwrap();
        for _ in 0..4 {
            tc.settle();
        }
        if tc.pending() {
            panic!("LOOM-VIOLATION first_poll_races: OnceCell: hand-over lost: the running initialiser was cancelled, the cell is empty, every woken task has been polled again, and the other get_or_init is still pending (cell = {:?})", cell.get());
        }
        if tc.out != Some(9) || cell.get().copied() != Some(9) {
            panic!("LOOM-VIOLATION first_poll_races: OnceCell: values: get_or_init {:?}, cell {:?} (9 expected)", tc.out, cell.get());
        }
        drop(tc);
    });
    let mut b = loom::model::Builder::new();
    b.preemption_bound = bound();
    b.check(|| {
        EXECUTIONS.fetch_add(1, std::sync::atomic::Ordering::Relaxed);
        // Mutex: the holder unlocks while a lock_arc() is polled for the first time
        let m = std::sync::Arc::new(Mutex::new(0u32));
        let g = m.try_lock_arc().unwrap();
        let t = loom::thread::spawn(move || drop(g));
        let mut tl = Task::new(m.lock_arc());
        tl.poll();
        t.join().unwrap();
        tl.settle();
        if tl.pending() {
            panic!("LOOM-VIOLATION first_poll_races: Mutex: lost wake-up: the mutex is free, every woken task has been polled again, the lock_arc() is pending");
        }
        drop(tl);
        // RwLock: the writer unlocks while a read_arc() and an upgradable_read_arc() are polled for the first time
        let l = std::sync::Arc::new(RwLock::new(0u32));
        let w = l.try_write_arc().unwrap();
        let t = loom::thread::spawn(move || drop(w));
        let mut tr = Task::new(l.read_arc());
        tr.poll();
        let mut tu = Task::new(l.upgradable_read_arc());
        tu.poll();
        t.join().unwrap();
        for _ in 0..4 {
            tr.settle();
            tu.settle();
        }
        if tr.pending() || tu.pending() {
            panic!("LOOM-VIOLATION first_poll_races: RwLock: lost wake-up: no write guard is alive, every woken task has been polled again: read() pending = {}, upgradable_read() pending = {}", tr.pending(), tu.pending());
        }
        drop(tr);
        drop(tu);
    });
}

/// C06 (b), a woken reader that has to park AGAIN: a read() waits behind a write guard; on another thread that guard is
/// dropped, the lock is taken again with try_write and released again, while the reader is polled whenever it was woken.
/// With no write guard alive and every woken task polled again the read() is done.
fn rw_reader_reparks() {
    let mut b = loom::model::Builder::new();
    b.preemption_bound = bound();
    b.check(|| {
        EXECUTIONS.fetch_add(1, std::sync::atomic::Ordering::Relaxed);
        let l = std::sync::Arc::new(RwLock::new(0u32));
        let w1 = l.try_write_arc().unwrap();
        let mut tr = Task::new(l.read_arc());
        tr.poll();
        assert!(tr.pending());
        let l2 = l.clone();
        let t = loom::thread::spawn(move || {
            drop(w1);
            let w2 = l2.try_write_arc();
            drop(w2);
        });
        for _ in 0..2 {
            if tr.woken() {
                tr.poll();
            }
        }
        t.join().unwrap();
        tr.settle();
        if tr.pending() {
            panic!("LOOM-VIOLATION rw_reader_reparks: lost wake-up: no write guard is alive, no writer waits, every woken task has been polled again, the read() is pending");
        }
        drop(tr);
    });
}

fn main() {
    let which = std::env::args().nth(1).unwrap_or_else(|| "all".to_string());
    let tests: Vec<(&str, fn())> = vec![
        ("sem_absorbed_release", sem_absorbed_release),
        ("mutex_stale_listener", mutex_stale_listener),
        ("sem_try_race", sem_try_race),
        ("rw_downgrade_race", rw_downgrade_race),
        ("mutex_fair_race", mutex_fair_race),
        ("rw_reader_chain", rw_reader_chain),
        ("rw_writer_vs_last_reader", rw_writer_vs_last_reader),
        ("once_init_race", once_init_race),
        ("once_blocking_race", once_blocking_race),
        ("barrier_race", barrier_race),
        ("barrier_generations", barrier_generations),
        ("rw_try_race", rw_try_race),
        ("rw_writer_announced", rw_writer_announced),
        ("mutex_starved_try", mutex_starved_try),
        ("blocking_forms", blocking_forms),
        ("rw_reader_reparks", rw_reader_reparks),
        ("first_poll_races", first_poll_races),
        ("mutex_try_race", mutex_try_race),
        ("sem_try_forms_race", sem_try_forms_race),
        ("mutex_starve_vs_unlock", mutex_starve_vs_unlock),
        ("rw_cancel_vs_writer_and_reader", rw_cancel_vs_writer_and_reader),
        ("barrier_three_arrivals", barrier_three_arrivals),
        ("sem_add_permits_race", sem_add_permits_race),
        ("rw_cancel_vs_next_writer", rw_cancel_vs_next_writer),
        ("once_wait_vs_cancel", once_wait_vs_cancel),
        ("rw_cancel_vs_last_reader", rw_cancel_vs_last_reader),
        ("mutex_blocking_vs_starved", mutex_blocking_vs_starved),
        ("barrier_blocking_generations", barrier_blocking_generations),
    ];
    for (name, f) in tests {
        if which == "all" || which == name {
            eprintln!("LOOM-RUN {}", name);
            EXECUTIONS.store(0, std::sync::atomic::Ordering::Relaxed);
            f(); // a violation panics (loom prints the failing execution's panic message) and the process exits non-zero
            println!("LOOM-OK {} executions={}", name, EXECUTIONS.load(std::sync::atomic::Ordering::Relaxed));
        }
    }
}
