#!/bin/sh
# usage: goal.sh <file.v> <line>  — shows the proof state after <line> lines of the file
f=$1; n=$2
d=$(dirname $f); b=$(basename $f .v)
head -n $n $f > $d/Tmp_$b.v
echo "Show. " >> $d/Tmp_$b.v
cd /verif/coq && timeout 300 coqc -Q . AL $d/Tmp_$b.v 2>&1 | head -${3:-80}
rm -f $d/Tmp_$b.v $d/Tmp_$b.vo $d/Tmp_$b.glob $d/.Tmp_$b.aux $d/Tmp_$b.vok $d/Tmp_$b.vos
