#!/bin/bash
# usage: try_seed.sh <dir with patch.diff demo.rs meta.json> <Cxx> [more Cyy...]
# Confirms a seeded change in a scratch worktree: suite passes with it, the demo fails with it and
# passes without it; then runs the given checks against the changed tree.
set -u
D=$(realpath "$1"); shift
WT=${SEEDWT:-/var/tmp/seedwt}
export CARGO_NET_OFFLINE=true
if [ ! -d $WT ]; then git -C /repo worktree add -q $WT HEAD || exit 2; fi
cd $WT && git checkout -q -- . && git clean -fdq tests src && git checkout -q --detach $(git -C /repo rev-parse HEAD) 2>/dev/null
rm -f tests/seed_demo.rs
export CARGO_TARGET_DIR=$WT/target
echo "== demo on unchanged tree"
cp "$D/demo.rs" tests/seed_demo.rs
timeout 600 cargo test --offline --test seed_demo 2>&1 | grep -E "^test result|error(\[|:)|panicked" | head -5
DEMO_CLEAN=${PIPESTATUS[0]}
echo "== apply patch"
git apply "$D/patch.diff" || { echo "PATCH DOES NOT APPLY"; exit 3; }
echo "== demo with change"
timeout 600 cargo test --offline --test seed_demo 2>&1 | grep -E "^test result|error(\[|:)|panicked" | head -5
rm -f tests/seed_demo.rs
echo "== suite with change"
timeout 900 cargo nextest run --workspace --no-fail-fast --offline 2>&1 | grep -E "Summary|FAIL|error" | head -5
echo "== no-default-features build"
timeout 600 cargo build --offline --no-default-features 2>&1 | grep -E "^error|Finished" | head -3
unset CARGO_TARGET_DIR
cd /verif
for p in "$@"; do
  echo "== check $p against changed tree"
  VERIF_REPO=$WT timeout 1200 ./check $p 2>&1 | grep -E "^VIOLATION|^OK|^KNOWN|broken\[" | cut -c1-400
done
cd /verif && ./check --prepare >/dev/null 2>&1
cd $WT && git checkout -q -- . && git clean -fdq tests src
