"""rustc probes for C16 (tie C): ask the compiler itself which public types are Send / Sync for the
four kinds of T, which guards are covariant, whether borrowed guards can outlive their lock and
whether MutexGuardArc::source needs T: Send; the answers are written to coq/Gen/Rustc.v and must
equal what the Coq model computes from coq/Gen/Markers.v."""
import os
import re
import shutil
import subprocess

KINDS = [("SS", "u8"), ("S", "std::cell::Cell<u8>"), ("Y", "probe_kinds::SyncOnly"), ("N", "std::rc::Rc<u8>")]


def public_types(markers_v):
    """[(name, file, generics)] of public types"""
    out = []
    for m in re.finditer(r'mkTy "([^"]+)" "([^"]+)" (true|false) "([^"]*)"', markers_v):
        if m.group(3) == "true":
            out.append((m.group(1), m.group(2), m.group(4)))
    return out


def wrappers(markers_v):
    blk = markers_v[markers_v.index("Definition wrappers"):]
    blk = blk[:blk.index("].")]
    return re.findall(r'\("([^"]+)", "([^"]+)", "([^"]+)"\)', blk)


def type_path(name, file, wrapnames):
    return ("async_lock::futures::" if name in wrapnames else "async_lock::") + name


def instantiate(name, generics, tyarg, path):
    """Type expression with lifetimes 'static and T := tyarg"""
    g = generics.strip()
    if not g:
        return path, False
    inner = g[1:-1]
    args, has_t = [], False
    depth, cur = 0, ""
    parts = []
    for ch in inner:
        if ch in "<(":
            depth += 1
        if ch in ">)":
            depth -= 1
        if ch == "," and depth == 0:
            parts.append(cur)
            cur = ""
        else:
            cur += ch
    if cur:
        parts.append(cur)
    for p in parts:
        p = p.strip()
        if p.startswith("'"):
            args.append("'static")
        else:
            args.append(tyarg)
            has_t = True
    return "%s<%s>" % (path, ", ".join(args)), has_t


def marker_probe_source(markers_v):
    tys = public_types(markers_v)
    wn = {w[0] for w in wrappers(markers_v)}
    lines = ["#![allow(dead_code, unused_imports)]",
             "use std::marker::PhantomData;",
             "mod probe_kinds { pub struct SyncOnly(std::marker::PhantomData<*const ()>); unsafe impl Sync for SyncOnly {} }",
             "struct P<X: ?Sized>(PhantomData<X>);",
             "impl<X: ?Sized + Send> P<X> { fn is_send(&self) -> bool { true } }",
             "impl<X: ?Sized + Sync> P<X> { fn is_sync(&self) -> bool { true } }",
             "trait NoSend { fn is_send(&self) -> bool { false } }",
             "trait NoSync { fn is_sync(&self) -> bool { false } }",
             "impl<X: ?Sized> NoSend for P<X> {}",
             "impl<X: ?Sized> NoSync for P<X> {}",
             "fn main() {"]
    for name, file, gen in tys:
        path = type_path(name, file, wn)
        for k, kt in KINDS:
            texpr, has_t = instantiate(name, gen, kt, path)
            if not has_t and k != "SS":
                continue
            lines.append('    println!("%s %s {} {}", P::<%s>(PhantomData).is_send(), P::<%s>(PhantomData).is_sync());'
                         % (name, k if has_t else "-", texpr, texpr))
    lines.append("}")
    return "\n".join(lines) + "\n"


# compile-pass / compile-fail probes: (id, must_compile_for_soundness_claim, source of lib.rs)
def compile_probes(markers_v):
    tys = {t[0]: t for t in public_types(markers_v)}
    probes = []
    # variance: can G<&'static str> be used as G<&'a str>?  (covariant in T)
    guards = ["MutexGuard", "MutexGuardArc", "RwLockReadGuard", "RwLockReadGuardArc", "RwLockUpgradableReadGuard",
              "RwLockUpgradableReadGuardArc", "RwLockWriteGuard", "RwLockWriteGuardArc"]
    for g in guards:
        if g not in tys:
            continue
        lt = "'x, " if "'" in tys[g][2] else ""
        probes.append(("covariant:" + g,
                       "use async_lock::*;\npub fn f<'x, 'a>(g: %s<%s&'static str>, _w: &'a str) -> %s<%s&'a str> { g }\n" % (g, lt, g, lt)))
    # a borrowed guard / future cannot outlive its lock
    probes.append(("outlives:MutexGuard", "use async_lock::*;\npub fn f() -> MutexGuard<'static, u8> { let m = Mutex::new(0u8); let g = m.try_lock().unwrap(); g }\n"))
    probes.append(("outlives:RwLockReadGuard", "use async_lock::*;\npub fn f() -> RwLockReadGuard<'static, u8> { let m = RwLock::new(0u8); let g = m.try_read().unwrap(); g }\n"))
    probes.append(("outlives:RwLockWriteGuard", "use async_lock::*;\npub fn f() -> RwLockWriteGuard<'static, u8> { let m = RwLock::new(0u8); let g = m.try_write().unwrap(); g }\n"))
    probes.append(("outlives:RwLockUpgradableReadGuard", "use async_lock::*;\npub fn f() -> RwLockUpgradableReadGuard<'static, u8> { let m = RwLock::new(0u8); let g = m.try_upgradable_read().unwrap(); g }\n"))
    probes.append(("outlives:SemaphoreGuard", "use async_lock::*;\npub fn f() -> SemaphoreGuard<'static> { let m = Semaphore::new(1); let g = m.try_acquire().unwrap(); g }\n"))
    probes.append(("outlives:Lock", "use async_lock::*;\npub fn f() -> futures::Lock<'static, u8> { let m = Mutex::new(0u8); let g = m.lock(); g }\n"))
    probes.append(("outlives:Read", "use async_lock::*;\npub fn f() -> futures::Read<'static, u8> { let m = RwLock::new(0u8); let g = m.read(); g }\n"))
    probes.append(("outlives:Write", "use async_lock::*;\npub fn f() -> futures::Write<'static, u8> { let m = RwLock::new(0u8); let g = m.write(); g }\n"))
    probes.append(("outlives:Acquire", "use async_lock::*;\npub fn f() -> futures::Acquire<'static> { let m = Semaphore::new(1); let g = m.acquire(); g }\n"))
    probes.append(("outlives:BarrierWait", "use async_lock::*;\npub fn f() -> futures::BarrierWait<'static> { let m = Barrier::new(1); let g = m.wait(); g }\n"))
    probes.append(("outlives:OnceCellGet", "use async_lock::*;\npub fn f() -> &'static u8 { let c = OnceCell::from(1u8); let r = c.get().unwrap(); r }\n"))
    # MutexGuardArc::source requires T: Send
    probes.append(("source_not_send", "use async_lock::*;\npub fn f(g: &MutexGuardArc<std::rc::Rc<u8>>) { let _ = MutexGuardArc::source(g); }\n"))
    probes.append(("source_send", "use async_lock::*;\npub fn f(g: &MutexGuardArc<u8>) { let _ = MutexGuardArc::source(g); }\n"))
    return probes


def run(repo, build_dir, markers_v, env):
    """returns (table lines [(type, kind, send, sync)], compile results {id: bool}, log)"""
    d = os.path.join(build_dir, "probe")
    os.makedirs(os.path.join(d, "src", "bin"), exist_ok=True)
    os.makedirs(os.path.join(d, ".cargo"), exist_ok=True)
    open(os.path.join(d, ".cargo", "config.toml"), "w").write("[net]\noffline = true\n")
    toml = '[package]\nname = "probe"\nversion = "0.1.0"\nedition = "2021"\n\n[workspace]\n\n[dependencies]\nasync-lock = { path = "%s" }\n' % os.path.abspath(repo)
    tp = os.path.join(d, "Cargo.toml")
    if not os.path.exists(tp) or open(tp).read() != toml:
        open(tp, "w").write(toml)
    lock = os.path.join(repo, "Cargo.lock")
    if os.path.exists(lock) and not os.path.exists(os.path.join(d, "Cargo.lock")):
        shutil.copyfile(lock, os.path.join(d, "Cargo.lock"))
    open(os.path.join(d, "src", "main.rs"), "w").write(marker_probe_source(markers_v))
    for f in os.listdir(os.path.join(d, "src", "bin")):
        os.remove(os.path.join(d, "src", "bin", f))
    open(os.path.join(d, "src", "lib.rs"), "w").write("")
    log = []
    p = subprocess.run(["cargo", "run", "--offline", "--quiet", "--bin", "probe"], cwd=d, stdout=subprocess.PIPE, stderr=subprocess.PIPE, text=True, env=env, timeout=900)
    table = []
    if p.returncode != 0:
        log.append("marker probe does not compile: " + p.stderr[-2000:])
    else:
        for l in p.stdout.splitlines():
            t, k, s, y = l.split()
            table.append((t, k, s == "true", y == "true"))
    results = {}
    for pid, src in compile_probes(markers_v):
        open(os.path.join(d, "src", "lib.rs"), "w").write("#![allow(dead_code, unused)]\n" + src)
        q = subprocess.run(["cargo", "check", "--offline", "--quiet", "--lib"], cwd=d, stdout=subprocess.PIPE, stderr=subprocess.PIPE, text=True, env=env, timeout=600)
        results[pid] = (q.returncode == 0)
    open(os.path.join(d, "src", "lib.rs"), "w").write("")
    return table, results, log


def write_rustc_v(path, table, results):
    def b(x):
        return "true" if x else "false"
    lines = ["(* generated by lib/probes.py from rustc's own answers — do not edit *)",
             "From Coq Require Import List String Bool.", "Import ListNotations.", "Open Scope string_scope.",
             "(* (type, kind of T, Send?, Sync?) with kind in SS | S | Y | N | - (type has no T) *)",
             "Definition rustc_markers : list (string * string * bool * bool) := ["]
    lines.append(";\n".join('  ("%s", "%s", %s, %s)' % (t, k, b(s), b(y)) for t, k, s, y in table))
    lines.append("].")
    lines.append("(* compile probes: (id, accepted by rustc?) *)")
    lines.append("Definition rustc_compiles : list (string * bool) := [")
    lines.append(";\n".join('  ("%s", %s)' % (k, b(v)) for k, v in results.items()))
    lines.append("].")
    txt = "\n".join(lines) + "\n"
    if not os.path.exists(path) or open(path).read() != txt:
        open(path, "w").write(txt)
