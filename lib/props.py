"""Per-property configuration of ./check: which primitives' histories are run,
budgets per tier, evidence level and trusted-base text."""

TB_COMMON = [
    "Coq 8.16.1 kernel incl. the vm_compute machine (no native_compute)",
    "the hand-written Coq model coq/Model/*.v of the crate's poll functions; tied to the source by (A) tools/extract -> coq/Gen/*.v + coq/Tie.v and (B) the correspondence check against the real crate",
    "event-listener 5.4.2 / event-listener-strategy 0.5.4 are modelled (coq/Model/Base.v), validated by the correspondence check, not verified",
    "extraction: ExtrOcamlBasic only (bool, option, unit, list, prod, sumbool, sumor mapped to OCaml; no Extract Constant); OCaml driver and Rust harness are test infrastructure",
]

def rnd(count, length):
    return ("gen", dict(count=count, len=length))

def enum(depth, limit):
    return ("enum", dict(depth=depth, limit=limit))

Q = [rnd(12000, 50), enum(6, 30000)]
T = [rnd(60000, 80), enum(8, 300000)]

SEM = [("sem", n) for n in (0, 1, 2, 3)]
BAR = [("bar", n) for n in (0, 1, 2, 3, 4)]

def mk(prims, level="proof", **kw):
    d = dict(prims=prims, level=level, budget=dict(quick=Q, thorough=T), trusted_base=list(TB_COMMON))
    d.update(kw)
    return d

PROPS = {
    "C01": mk([("mutex", None)]),
    "C02": mk([("rw", None)]),
    "C03": mk(SEM),
    "C04": mk([("once", None)]),
    "C05": mk([("mutex", None)]),
    "C06": mk([("rw", None)]),
    "C07": mk(SEM),
    "C08": mk([("once", None)]),
    "C09": mk(BAR),
    "C10": mk([("mutex", None), ("rw", None), ("sem", 2)], also=dict(props=["C05", "C06", "C07"], needs_op="dropfut")),
    "C11": mk([("rw", None)]),
    "C12": mk([("rw", None)]),
    "C13": mk([("mutex", None)]),
    "C14": mk([("mutex", None), ("rw", None), ("sem", 1)]),
    "C15": mk([("mutex", None), ("rw", None), ("sem", 2)]),
    "C16": mk([], ties=["Mutex", "Raw", "RwLock", "RwFutures", "Semaphore", "OnceCell", "Barrier"]),
    "C17": mk([("mutex", None), ("rw", None), ("sem", 1), ("once", None), ("bar", 2)]),
}
