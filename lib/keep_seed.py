#!/usr/bin/env python3
"""keep_seed.py <seed_out/X dir> <seed id> <caught-by text>: store a confirmed seeded change under /verif/seeded/<id>/"""
import json, os, shutil, sys
src, sid, caught = sys.argv[1], sys.argv[2], sys.argv[3]
dst = os.path.join("/verif/seeded", sid)
os.makedirs(dst, exist_ok=True)
shutil.copyfile(os.path.join(src, "patch.diff"), os.path.join(dst, "patch.diff"))
shutil.copyfile(os.path.join(src, "demo.rs"), os.path.join(dst, "demo.rs"))
meta = json.load(open(os.path.join(src, "meta.json")))
meta["confirmed_by_me"] = {
    "procedure": "lib/try_seed.sh: scratch worktree /var/tmp/seedwt of /repo HEAD; demo (cargo test --test seed_demo) on the unchanged tree passes; git apply patch.diff; demo fails; cargo nextest run --workspace: 42/42 pass; cargo build --no-default-features ok; ./check with VERIF_REPO=/var/tmp/seedwt; worktree restored",
    "caught_by": caught,
}
json.dump(meta, open(os.path.join(dst, "meta.json"), "w"), indent=1)
print("kept", dst)
