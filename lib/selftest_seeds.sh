#!/bin/bash
# usage: lib/selftest_seeds.sh [seed-id ...]  — re-run the property's quick check against every kept seed
# (scratch worktree, never /repo) and against every reverse patch of a fix; a seed must be reported.
set -u
WT=/var/tmp/seedwt
OUT=/verif/seeded/SELFTEST.md
export CARGO_NET_OFFLINE=true
if [ ! -d $WT ]; then git -C /repo worktree add -q --detach $WT HEAD || exit 2; fi
cd $WT && git checkout -q -- . && git clean -fdq tests src && git checkout -q --detach $(git -C /repo rev-parse HEAD) 2>/dev/null
ids="$@"; [ -z "$ids" ] && ids=$(ls /verif/seeded | grep -E '^C[0-9]+-')
echo "# seeds vs quick checks ($(date -u +%F))" > $OUT
echo "" >> $OUT; echo "| seed | check | result |" >> $OUT; echo "|---|---|---|" >> $OUT
for id in $ids; do
  D=/verif/seeded/$id; p=${id%%-*}
  cd $WT && git checkout -q -- . && git clean -fdq tests src
  if ! git apply "$D/patch.diff" 2>/dev/null; then echo "| $id | $p | PATCH DOES NOT APPLY |" >> $OUT; continue; fi
  cd /verif
  r=$(VERIF_REPO=$WT timeout 1500 ./check $p 2>&1 | grep -E "^VIOLATION|^OK" | head -3 | tr '\n' ' ' | cut -c1-300)
  echo "| $id | $p | $r |" >> $OUT
  echo "$id: $r"
done
cd $WT && git checkout -q -- . && git clean -fdq tests src
cd /verif && ./check --prepare >/dev/null 2>&1
git -C /repo worktree remove --force $WT 2>/dev/null
