"""What MANIFEST.json claims per property. Updated as theorems land."""

CORR = ("correspondence check: the real crate and the Coq model (extracted to OCaml) execute the same seeded-random and "
        "exhaustively enumerated poll-granular operation histories, every observation (results, wake-ups in order, state words, "
        "listener counts, Arc strong counts, drops) is compared, and the property's monitor is evaluated on the implementation")

def tv(extra=""):
    return dict(category="translation_validation",
                text="Model-vs-implementation " + CORR + ". Theorems about the model for this property are not yet in Properties/; " + extra,
                note="trusts the harness, the monitors and the model's faithfulness as far as the histories exercise it",
                technique="differential execution of Coq model vs crate + runtime monitors")

CLAIMS = {p: tv() for p in ["C01","C02","C03","C04","C05","C06","C07","C08","C09","C10","C11","C12","C13","C14","C15","C17"]}

NOT_APPLICABLE = [
    dict(property_id="C16", reason="check under construction (marker tables from the translator + rustc probes); not claimed yet"),
]
