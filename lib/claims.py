"""What MANIFEST.json claims per property. Updated as theorems land."""

CORR = ("correspondence check: the real crate and the Coq model (extracted to OCaml) execute the same seeded-random and "
        "exhaustively enumerated poll-granular operation histories, every observation (results, wake-ups in order, state words, "
        "listener counts, Arc strong counts, drops) is compared, and the property's monitor is evaluated on the implementation")

def tv(extra=""):
    return dict(category="translation_validation",
                text="Model-vs-implementation " + CORR + ". Theorems about the model for this property are not yet in Properties/; " + extra,
                note="trusts the harness, the monitors and the model's faithfulness as far as the histories exercise it",
                technique="differential execution of Coq model vs crate + runtime monitors")

CLAIMS = {p: tv() for p in ["C01","C02","C03","C04","C05","C06","C07","C08","C09","C10","C11","C12","C13","C14","C15","C17"]}

def proof(text, note, technique="Coq proof by invariant over all operation histories + translator tie + differential correspondence"):
    return dict(category="proof", text=text, note=note, technique=technique)

NOTE = ("trusted: Coq 8.16.1 kernel (vm_compute used for tie lemmas and examples, no native_compute), no axioms (Print Assumptions: closed under the global context); "
        "the hand-written model coq/Model is tied to the source by tools/extract -> coq/Gen + coq/Tie lemmas (shape and fingerprint of every protocol function) and by the "
        "correspondence check (harness + extracted OCaml model, ExtrOcamlBasic only); event-listener is modelled, not verified")

CLAIMS["C01"] = proof(
    "All three halves proved. History: C01_excl_hist — for every operation history (any length < 2^62, any number of futures, cancellation anywhere, every oracle stream, "
    "borrowed and Arc flavours) at most one guard is alive (invariant state = 2*starved + guards). Schedules: C01_excl_sched — for EVERY interleaving of the atomic sites on the state word by ANY "
    "number of threads (control flow over-approximated, site list pinned by Tie_Mutex) at most one thread holds the lock. Happens-before: C01_hb_view — in the release/acquire view semantics every "
    "holder has seen the ticket of every earlier guard drop; its only premises about the code are the Orderings of the 6 acquiring sites and of unlock, read from the source (mutex_ord_premises). "
    "Not modelled: 2^64 wrap in the micro-step machine, event-listener's own synchronisation (not needed), data races below the state word. " + CORR, NOTE)
CLAIMS["C14"] = proof(
    "Proved for every history: exact characterisation of try_lock, try_read, try_upgradable_read, try_write, try_upgrade, try_acquire (Arc forms included) by the state words and, through the counting "
    "invariants, by what is alive (C14_*_exact); with nothing alive all succeed (C14_free_lock_succeeds). 'Never registers' is pinned by the tie lemmas (the try_* site lists contain no listen/poll) and "
    "monitored at run time. Schedule half ('never succeeds in conflict') proved for every interleaving of the atomic operations, any number of threads, compare_exchange attempted with any (stale) expected value: Mutex C01_excl_sched; RwLock C14_try_write_sched, "
    "C14_try_upgrade_sched, C14_try_read_sched, C14_try_upgradable_read_sched (a try_* that changes anything found no conflicting holder at that instant); Semaphore C14_try_acquire_sched (found a permit, took exactly one). " + CORR, NOTE)
CLAIMS["C16"] = dict(category="proof",
    text="Decided by proof over a finite domain computed from the source: for every public type with a parameter T (21, from Gen/Markers.v) and each of the 4 kinds of T, declared Send/Sync implies the bounds the "
         "property demands (C16_send_sound, C16_sync_sound: forallb = true by vm_compute, lifted with forallb_forall), write side needs both (C16_write_side_needs_both), guards reaching DerefMut are invariant, only read "
         "guards covariant (C16_variance, C16_only_read_guards_covariant), borrowed guards/futures cannot outlive the lock and MutexGuardArc::source needs T: Send (C16_lifetimes_and_source, rustc's verdicts). "
         "Tie (C): the Coq marker/variance functions agree with rustc on 205 probes compiled against the working tree (Tie16). The rule set is the property text as functions of capabilities read from the source; "
         "two facts are modelled (which guards coexist, RwLockReadGuardArc owns its Arc via a raw pointer).",
    note=NOTE + "; rustc is the oracle for the probes; 'every client program' is reduced to the rule set (no abstract machine of client programs)",
    technique="Coq reflection over finite marker tables extracted from source + rustc probe tie")
CLAIMS["C03"] = proof(
    "Proved for every history and every initial count / add_permits argument in N: conservation count + alive + forgotten = initial + added (C03_conserve, hence never over-issues), "
    "try_acquire exact (C03_try_exact), drop returns exactly one, forget none, add_permits(n) exactly n. Hypothesis stated in the theorems: initial + added < 2^64 (the code has no overflow check). "
    "Schedule half proved: C03_conserve_sched — for every interleaving of compare_exchange(c, c-1) (any expected value) / fetch_add by any number of threads, count + permits held + forgotten = initial + added (coq/Sched/SemSched.v; unbounded counter there, the 2^64 wrap is in the history machine). " + CORR, NOTE)

CLAIMS["C02"] = proof(
    "History half proved: C02_excl_hist — in every reachable state of every history over the full RwLock alphabet (five future kinds, borrowed and Arc, try_*, upgrade, try_upgrade, three downgrades, "
    "cancellation anywhere) at most one write guard, at most one upgradable guard, and a write guard excludes all others; from the invariant state = 2*(R+U) + W + H, mutex word = tickets + U + W + H, U+W+H <= 1. "
    "Schedule half proved: C02_excl_sched — for EVERY interleaving of the atomic sites on the state word by ANY number of threads (control flow over-approximated; compare_exchange with any, however stale, expected value; "
    "the inner mutex taken as an atomic lock, justified by C01_excl_sched, the composition being an assumption of the machine) at most one writer, at most one of {upgradable reader, announced writer}, a writer excludes every reader, "
    "and the word counts what is held (coq/Sched/RwSched.v, 15 sites). "
    "Happens-before half PROVED in the view semantics: C02_hb_view — coq/Sched/RwHbSched.v runs the same machine with release/acquire views on the state word (every site is an RMW, a compare_exchange or a load; dropping a write guard — write_unlock and both "
    "downgrades — issues a write ticket into the dropper's view before its releasing operation, dropping a read / upgradable-read guard a read ticket): for any number of threads and every schedule, every thread holding any guard has every earlier write ticket in its "
    "view and the thread holding the write guard has every earlier read ticket. Which sites acquire / release (gen_rwflags, incl. the `load_ordering` variable of RawWrite / RawUpgrade) is read from the generated site table on every run: premise rw_ord_premises; "
    "when it fails the check names the weak site and evaluates candidate schedules (one per edge) of the machine to exhibit one on which the statement fails. " + CORR, NOTE)
CLAIMS["C11"] = proof(
    "History half proved: C11_single_converter_hist (at most one of upgradable guard / write guard / announced writer / pending upgrade in every reachable state), C11_value_frame (the value changes only "
    "through a write guard), C11_pending_upgrade_excludes (try_read / try_upgradable_read / try_write fail while a writer or upgrade is pending). Schedule half proved on the word-level machine of C02 (coq/Sched/RwSched.v, any number of threads, every schedule, each conversion ONE atomic action that keeps the inner mutex): "
    "C11_single_converter_sched (in every reachable state at most one thread is an upgradable reader / pending upgrader / announced writer / writer, and it holds the inner mutex) and C11_converter_excludes_sched (while it is, every other thread's "
    "attempt to lock the inner mutex, to become an upgradable reader with any expected value, to announce, to try_write or to convert changes nothing). That each conversion is one RMW in the source is pinned by Tie_Raw; a split of a conversion into two "
    "RMWs breaks that tie and is searched for by the loom scenario rw_downgrade_race. " + CORR, NOTE)
CLAIMS["C13"] = proof(
    "First clause proved for every history and every oracle stream: C13_closed_hist — while a starved lock operation is alive try_lock/try_lock_arc return None, also while bit 0 is clear. "
    "Schedule half of the try_lock clause proved: C13_closed_sched — on the micro-step machine of C05 (coq/Sched/MutexEvSched.v), in every reachable state of every schedule, while some lock operation holds a starvation ticket the word is not 0 and the "
    "compare_exchange(0,1) of a try_lock of any thread fails. The ordering clause is proved for every history and every oracle stream (polls serialised: the poll-granular machine): C13_order_hist (coq/Proofs/MutexOrder.v) — if A holds a starvation ticket after ops1 and still holds it after ops1 ++ ops2, "
    "no poll of a lock operation created after ops1 returns Ready; from three invariants of lock_ops that hold in every reachable state (C13_queue_invariants): the queue is sorted by listener id and only its head can be notified; "
    "word >= 2 and an entry notified implies the mutex is unlocked (so the starved operation never has to re-register); later operations' entries are behind the starved one's. The harness monitor evaluates the same clause on the implementation. " + CORR, NOTE)
CLAIMS["C15"] = proof(
    "Proved for every history of the Mutex, Semaphore and RwLock machines: strong count = handles + owned guards + owning futures (C15_*_count); dropped exactly when the count reaches 0, at most once, "
    "for all three (C15_*_dropped_once; for the RwLock with the borrow invariant of RwDrop.v: every future except an UpgradeArc and every borrowed guard keeps a user handle alive, an UpgradeArc owns its handle until it completes); "
    "an owned guard implies strong >= 1 and not dropped (C15_*_guard_valid). Memory safety of the unsafe Arc plumbing is outside the model. " + CORR, NOTE)

CLAIMS["C07"] = proof(
    "History half proved at full strength: C07_hist — for every history (every initial count and add_permits argument, cancellation at every point incl. a notified waiter, completed futures kept alive, several releases in a row) "
    "in every quiescent reachable state with a permit available no polled acquire future is pending; from the ownership invariant of the event list (C07_invariant). The code proved is the repaired one (fix 4946253). "
    "Schedule half: the attempt to prove it exposed a genuine defect (F5: a notified waiter preempted inside its poll absorbs the notify(1) of later releases and then acquires without passing anything on), "
    "reproduced on the real crate by the loom search (loomsearch/sem_absorbed_release) and repaired by fix 04640ce (a completing acquire notifies once more when permits are left); model, proofs and tie pins follow the repaired code; "
    "the loom scenario runs on every check as search support (bounded exploration, not a proof). Schedule half PROVED for the repaired code: C07_sched — on the micro-step machine of coq/Sched/SemEvSched.v "
    "(every poll cut at each atomic action on the counter and each critical section of the event list, guard drop and add_permits cut between fetch_add and notify, any number of futures, releasing and barging threads, spurious polls, cancellation) "
    "for EVERY schedule a state with a permit available, nothing in flight and every woken future re-polled has no waiting future; C07_sched_inflight for states not at rest; C07_sched_prefix_refuted: the machine without the repair loses a wake-up on the F5 schedule. "
    "Which machine the source is (gen_baton) is read from the generated site table on every run (premise sem_baton_premise). " + CORR, NOTE)

CLAIMS["C05"] = proof(
    "History half proved at full strength: C05_hist — for every history shorter than 2^61 operations (lock and lock_arc futures, each polled with any wakers, spuriously, in any order; every outcome of the starvation clock "
    "through the oracle stream; cancellation at every point of a future's life incl. a starved and a notified-but-not-repolled waiter; completed futures kept alive; try_lock; guard drops) in every reachable state with no guard alive "
    "and every woken task re-polled, no polled lock future is pending. From the generic event-ownership invariant (EventFacts.InvB) + path specifications of AcquireSlow::poll_with_strategy (MutexPaths, LockLive: "
    "lock_poll_live / lock_drop_live, stated over any word/event so they are reused for the RwLock's inner mutex) + the word invariant (MutexInv). C05_idle_event: no future alive => lock_ops has no entry. "
    "C05_no_error: no reachable poll takes an unreachable!() branch or exhausts loop fuel. "
    "Schedule half: asking of the Mutex the question that exposed F5 found a genuine defect (F6: a lock future that acquires through the compare_exchange right after listen() — possible only when the holder unlocks between the future's try_lock and that "
    "compare_exchange — returned Ready with its fresh listener still registered; kept alive it swallowed the next unlock's notify(1)), reproduced on the real crate by the loom search (loomsearch/mutex_stale_listener), repaired by fix a3c1bed. "
    "Schedule half PROVED for the repaired code: C05_sched — on the micro-step machine of coq/Sched/MutexEvSched.v (fast path, hot loop, switch to the fair protocol, fair loop, take_mutex, the two-step drop of a starved future, guard drop cut between "
    "fetch_sub and notify; any number of futures, unlocking and barging threads; any answers of the starvation clock; spurious polls; cancellation) for EVERY schedule a state with the mutex unlocked, nothing in flight and every woken future re-polled has no "
    "waiting future (invariants: ownership of the entries, word = lock bit + 2 * starved operations, in-flight); C05_sched_prefix_refuted: the machine without the repair loses a wake-up on the F6 schedule; which machine the source is (gen_mutex_bt) is read from the "
    "generated site table on every run. Blocking waiters parked on a thread are not modelled (the blocking strategy is pinned by the ties). " + CORR, NOTE)

CLAIMS["C10"] = proof(
    "Mutex and Semaphore proved in full for histories: C10_mutex_no_trace — after any history (futures cancelled unpolled, pending, starved, notified-but-not-repolled or completed, in any order), in every reachable state with no guard alive "
    "and nothing pending (completed futures may stay alive) the state word is 0, lock_ops has no entry and try_lock succeeds; C10_sem_no_trace — the event has no entry and count + forgotten = initial + added, so every permit is in the "
    "counter for try_acquire. RwLock: with nothing alive both words are 0 (C10_rw_words_partial; all try_* succeed, C14_free_lock_succeeds) and lock_ops / no_readers / no_writer hold no entry (C10_rw_events); after every cancellation "
    "(incl. an announced writer or an upgrade: bit cleared, reader woken, inner mutex released) the C06 liveness invariant holds (C06_invariant). "
    "Schedule half for the Mutex proved: C10_mutex_no_trace_sched — on the micro-step machine of C05, for every schedule, once every future has been dropped (in whatever state: pending, starved — two-step drop —, notified) or was never polled, no guard is alive and nothing is in flight, the word is 0 and lock_ops is empty; the cancellation actions are also part of the machines of C06, C07, C08, C09 (their no-lost-wake-up theorems hold with cancellation at every point between polls). " + CORR, NOTE)

CLAIMS["C09"] = proof(
    "History half proved as a refinement: C09_refines — for every n < 2^64 and every history of fewer than 2^64-2 operations (waits created, polled with any wakers, spuriously, in any order, dropped anywhere, completed waits kept alive) "
    "the model of src/barrier.rs returns, poll by poll, what the 25-line abstract barrier returns: a wait arrives at its first poll; the arrival that brings the count to n completes at once as the leader and opens the next generation; earlier "
    "arrivals are Pending while their generation is current and complete with is_leader()=false as soon as it is not; nothing else completes a wait (so none returns early, exactly one leader per generation, generations never release each other). "
    "C09_released_complete — at rest (every woken task re-polled) every pending wait belongs to the current generation, which is short of n arrivals: once the n-th arrives all live waits of that generation are woken (latest waker) and complete at their next poll. "
    "C09_mutex_free / C09_no_error — the inner mutex is free with no queued listener between polls; no unreachable branch, no fuel exhaustion. C09_spec_sane — the abstract barrier never has more current-generation waits outstanding than arrivals. "
    "Schedule half PROVED: C09_sched — on the micro-step machine of coq/Sched/BarrierEvSched.v (counter, generation and the event; the critical sections of the state mutex — arrival, re-check after a notification — are atomic actions, the poll of the "
    "listener happens outside them; any number of wait() futures, spurious polls, cancellation of waiting futures) for EVERY schedule shorter than 2^64 actions a state with nothing in flight and every woken future re-polled has no wait() of a finished "
    "generation still waiting; C09_sched_no_notify_refuted: the machine whose leader does not notify leaves the other parties asleep; which machine the source is (gen_bar_ln) is read from the generated site table on every run. The state mutex is composed in: C09_sched_with_mutex (coq/Sched/BarrierComp.v) — the barrier's machine x the Mutex machine of C05; the lock futures of the wait()s run on the latter, a critical section runs only while "
    "one of them holds the mutex and then owes the unlock; for every composed schedule, with nobody holding or owing, the mutex side at rest and every wait() at rest (one that needs the state mutex only if a lock future is parked), no lock future is parked, "
    "no wait() is stuck before a critical section and no wait() of a finished generation waits. wait_blocking: pinned by Tie_Barrier, loom scenarios barrier_race, blocking_forms, barrier_blocking_generations. " + CORR, NOTE)

CLAIMS["C04"] = proof(
    "History half proved for every history of fewer than 2^64-2 operations (wait / get_or_init / get_or_try_init / set futures polled with any wakers in any order, closures' futures resolved Ok / Err / panic at any time or never, "
    "cancellation at every point, get, take, drop): C04_once — initialised at most once since the last take and exactly once iff Initialized; at most one initialiser closure running, and one iff the state is Initializing (none is started "
    "once initialised); the slot holds a value iff Initialized; the state word is always one of the three states. C04_value_visible — every value any operation returns (wait, get_or_init, get_or_try_init, Ok of set, get, take) is the value "
    "stored by the one successful initialiser, and the cell is (for take: was) Initialized. C04_no_error — no debug_assert / unreachable branch, no spinning. Schedule half: C04_excl_sched — for every interleaving of the atomic sites on the state word by any number of threads exactly one initialiser while Initializing, "
    "none otherwise, the slot written only by it, initialised at most once. Happens-before half: C04_hb_view — in the release/acquire view semantics every reference handed out by a load that reads Initialized is to a value whose complete write is in the "
    "receiving thread's view; its only premises about the code are the Orderings read from the source (loads Acquire, store of Initialized Release: once_ord_premises; coq/Sched/OnceSched.v). C04_payload_accounting / C04_all_dropped_once (coq/Proofs/OnceDrops.v): for every history, payloads dropped so far + payloads "
    "owned now (the cell's value, closure results in flight, set arguments held by futures) = payloads made so far, hence every stored value and every "
    "set argument is dropped exactly once when everything is gone; the drop counter of the model is compared with the implementation's by the correspondence. "
    "C04_set_hand_back (coq/Proofs/OnceSet.v): in every reachable state a poll of a set(v) future returns Ok(&v) only in the step in which it itself initialised the cell with v, Err(v) — its own argument — only when the cell is initialised and the step touched neither the stored value nor the initialisation count, and never anything else; the harness monitors the same clause on the implementation. Blocking forms: harness op initb and loom scenario once_blocking_race. " + CORR, NOTE)
CLAIMS["C08"] = proof(
    "History half proved for every history (alphabet as C04): C08_waiters_finish — Initialized and every woken task re-polled => no wait / get_or_init / get_or_try_init / set is pending (both events were notified with notify_additional(MAX), "
    "each waiter woken through its latest waker completes at its next poll). C08_hand_over — the cell is Initializing only while some future is running its closure (after Err, panic or cancellation it is Uninitialized again, never stuck); "
    "Uninitialized at rest => no caller is still queued on active_initializers (the guard's notify(1) woke one; the notification is forwarded if that caller is cancelled; at its poll it runs its own closure). From the ownership invariant of both "
    "events (C08_invariant). 'Error/panic reported only to the caller whose closure produced it' is by construction of the model and compared with the implementation by the correspondence. "
    "Schedule half PROVED: C08_sched — on the micro-step machine of coq/Sched/OnceEvSched.v (the state word and active_initializers at atomic-action granularity; initialize_or_wait cut at its load, compare_exchange, listen, the poll of the listener, "
    "the stores, the notifies and the drop of its local listener; the closure abstract: it pends any number of times, succeeds, fails, panics, or the future is dropped while it runs; any number of futures, spurious polls, cancellation) for EVERY schedule "
    "shorter than 2^64 actions a state in which nobody is initialising, nothing is in flight and every woken future has been re-polled has no future waiting on active_initializers (hand-over after a failed or cancelled initialiser, completion after a successful "
    "one); C08_sched_never_stuck: the state is Initializing only while some future is the initialiser; C08_sched_no_guard_notify_refuted: the machine whose guard does not notify loses the hand-over; which machine the source is (gen_once_gn, gen_once_na) is read "
    "from the generated site table on every run. Passive waiters (wait(): own event, listen-then-check) and blocking forms are not in the machine: ties and the loom scenario once_init_race. " + CORR, NOTE)

CLAIMS["C06"] = proof(
    "History half proved at full strength for every history shorter than 2^61 operations over the full RwLock alphabet (five future kinds, borrowed and Arc, any wakers, spurious polls, every outcome of the inner mutex's starvation clock, "
    "cancellation at every point incl. an announced writer and a notified-but-not-repolled waiter, the try_ family, three downgrades, guard drops): in every quiescent reachable state (a) no guard alive => nothing pending "
    "(C06_idle_nothing_pending), (b) no write guard and no announced writer/upgrader => no read() pending (C06_readers_not_blocked), (c) no write/upgradable guard and no announced writer => nothing waits for the inner mutex: no "
    "upgradable_read()/write() pending (C06_mutex_free_nothing_waits), (d) no guard alive => no write()/upgrade left announced (C06_writer_not_blocked). From the ownership invariant of the three events (lock_ops, no_readers, no_writer) "
    "+ three availability conditions (RwLive.v, ~1300 lines; reuses the generic mutex lemmas lock_poll_live/lock_drop_live and MutexFrame). The code proved is the repaired one (F1, F2, F3 fix commits): on the pre-fix tree the proof obligations "
    "for downgrade_to_upgradable (A2) and for the reader cascade fail. "
    "Schedule half, clause (b) PROVED: C06_sched_readers — on the micro-step machine of coq/Sched/RwReadEvSched.v (WRITER_BIT and the event no_writer at atomic-action granularity; every poll of a read() future cut at its compare_exchange, listen, "
    "the two loads of the word, the poll of the listener, notify(1) and the drop of the listener; writers abstract: the bit is set at any time it is clear and cleared at any time it is set, the clearing thread owing no_writer.notify(1); what a future saw when it "
    "was created is arbitrary; spurious polls, cancellation) for EVERY schedule a state with the bit clear, nothing in flight and every woken future re-polled has no waiting read(); C06_sched_readers_prefix_refuted: the machine without the F2b repair loses a "
    "wake-up on a schedule that needs a thread interleaving. Clause (c) at schedule level is the inner Mutex = C05_sched (restated as C06_sched_inner_mutex). The two sides run TOGETHER on one WRITER_BIT in coq/Sched/RwComp.v (C06_sched_composed): every composed action is translated into the actions of both machines the code's atomic step consists of, each component "
    "of a composed run is a run of its machine, the two copies of the bit agree and equal 'some future is past the inner mutex'; hence for every composed schedule: no write()/upgrade() between its fetch_or / fetch_sub and the end of its guard + reader side at rest "
    "=> no read() waits, and no reader left + writer side at rest => no write()/upgrade() waits. ALL THREE machines are composed in coq/Sched/RwComp3.v (reader side x writer side x inner mutex, with counters for read guards, upgradable guards, lock futures mid-acquisition and owed unlocks; 25 kinds of composed actions incl. conversions, downgrades, cancellation and the try_ family): each component of a composed run is a run of its machine, the coherence invariant (bits agree = somebody past the mutex; reader count = read + upgradable guards; mutex guards = upgradable + past-the-mutex + owed + mid-acquisition) holds for every composed schedule, and the four clauses become statements about what is alive: C06_sched_all_idle (a: nothing alive and all sides at rest => nothing waits on any of the three events), C06_sched_all_readers (b), C06_sched_all_mutex (c), C06_sched_all_writer (d). That the translation of composed actions is what the code does is by inspection; blocking forms and further interplay are searched by the loom scenarios "
    "rw_downgrade_race, rw_reader_chain, rw_writer_vs_last_reader, rw_cancel_vs_last_reader, blocking_forms. "
    "Clause (d) PROVED at schedule level as well: C06_sched_writer — coq/Sched/RwWriteEvSched.v (reader count, WRITER_BIT and no_readers at atomic-action granularity; write() past the inner mutex and upgrade() run the same loop; a reader leaving is cut between its "
    "fetch_sub and its notify(1); cancellation = write_unlock then the listener; the inner mutex abstract: at most one future past it): for EVERY schedule, no reader left + nothing in flight + every woken future re-polled => no write()/upgrade() waits; "
    "C06_sched_writer_prefix_refuted: the machine without the F2c repair loses a wake-up. The three machines (readers, writer, inner mutex) are not composed into one. " + CORR, NOTE)
CLAIMS["C12"] = proof(
    "History half proved: C12_writer_announced — quiescent, a polled write() or upgrade pending, no write/upgradable guard alive => a writer has announced itself (nH = 1, WRITER_BIT set); C12_bit_iff — WRITER_BIT is set exactly while a write "
    "guard is alive or a writer/upgrader is announced; C12_try_read_fails — then try_read returns None; C12_reader_blocked — then every poll of every read() future returns Pending (whatever its cached state, notified or not). The bit is "
    "cleared only by write_unlock, the downgrades of a write guard and the cancellation of the announced writer (site lists pinned by Tie_Raw/Tie_RwFutures); the announced writer completes when the last reader leaves (C06 (d)). "
    "Schedule half of the blocking clause proved: C12_blocked_sched — on the machine of C02_excl_sched (atomic operations on the state word, any number of threads, every schedule) while a writer is announced every reader compare_exchange, with any expected value that has the bit clear, however stale, fails and changes nothing. " + CORR, NOTE)

CLAIMS["C17"] = proof(
    "History half proved for all five primitives: C17_{semaphore,mutex,rwlock,oncecell,barrier}_settle — from every reachable state (after any history), ANY sequence of settle polls (each re-polls, with any waker, a future that is "
    "pending and flagged woken; in any order, for as long as there is one) has at most 3p+2l (Semaphore), 5p+2l (Mutex, RwLock), 4p+5l (OnceCell), 4p+2l (Barrier) polls, p = pending futures, l <= p = registered listener entries: "
    "while nothing is released, acquired, started or cancelled, woken futures do not keep waking themselves or each other. Proof by a potential (#pending flagged woken + 2 #notified entries + 3 #pending [+ #not-yet-starved (inner-)mutex "
    "waiters; + 3 #entries until the OnceCell is initialised]) that strictly decreases at every settle poll; the wake-up pass flags at most one pending future per waker called because wakers identify their future (Settle.v). "
    "C17_*_polls_terminate — no poll exhausts its loop fuel or takes an unreachable branch. The code proved is the repaired one (F3). Threads / blocking forms: not proved. " + CORR + "; the harness additionally monitors the settle "
    "bound on the implementation (<= 3*pending+3 polls per settle point) and a watchdog reports hangs with the history.", NOTE)

NOT_APPLICABLE = []
