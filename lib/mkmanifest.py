#!/usr/bin/env python3
"""Regenerates /verif/MANIFEST.json from lib/props.py and lib/claims.py."""
import json, os, sys
sys.path.insert(0, os.path.dirname(os.path.abspath(__file__)))
from props import PROPS
from claims import CLAIMS, NOT_APPLICABLE

V = os.path.dirname(os.path.dirname(os.path.abspath(__file__)))
checks = []
for pid in sorted(PROPS):
    if pid not in CLAIMS:
        continue
    c = CLAIMS[pid]
    checks.append(dict(
        property_id=pid,
        quick_cmd="./check %s --tier quick" % pid,
        thorough_cmd="./check %s --tier thorough" % pid,
        evidence_file="/verif/evidence/%s.json" % pid,
        replay_cmd_template="./check %s --replay {path}" % pid,
        engine="coq-model+correspondence",
        level_claimed=dict(category=c["category"], text=c["text"], design_ref=c.get("design_ref", "DESIGN.md section 4 (%s)" % pid)),
        level_note=c["note"],
        technique=c["technique"],
    ))
m = dict(
    version=1,
    setup_cmd="./setup.sh",
    hooks=dict(
        guard="--cfg smol_rs_async_lock_verif",
        enable="RUSTFLAGS='--cfg smol_rs_async_lock_verif' (set in harness/.cargo/config.toml; the harness crate depends on the repository by path and is rebuilt from its working tree by every check)",
        baseline_off_cmd="cd /repo && cargo nextest run --workspace --no-fail-fast --offline",
        source_commits=["b0068d9"],
        add_only=True,
    ),
    engines=[
        dict(name="coq-model", path="/verif/coq", serves_properties=sorted(CLAIMS), kind_free_text="Coq 8.16.1 development: executable model of the crate (Model/), invariants and theorems (Proofs/, Properties/), tie lemmas against the regenerated Gen/ (Tie.v)"),
        dict(name="correspondence", path="/verif/harness + /verif/driver", serves_properties=sorted(CLAIMS), kind_free_text="Rust harness driving the real crate through poll-granular histories + extracted OCaml model replaying them; property monitors on the implementation are the failing-input search"),
        dict(name="extract", path="/verif/tools/extract", serves_properties=sorted(CLAIMS), kind_free_text="syn-based translator: source -> coq/Gen/*.v (atomic/event sites with orderings, function body fingerprints, Send/Sync impls, field types)"),
    ],
    checks=checks,
    notes="All checks take the tree from $VERIF_REPO (default /repo). See DESIGN.md.",
    not_applicable=NOT_APPLICABLE,
)
json.dump(m, open(os.path.join(V, "MANIFEST.json"), "w"), indent=1)
print("wrote MANIFEST.json with %d checks" % len(checks))
