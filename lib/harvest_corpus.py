#!/usr/bin/env python3
"""harvest_corpus.py <replays dir> [...]: collects the shrunk failing histories that the checks produced for seeded
changes / reverted fixes (replay files of kind failing-history) into corpus/<prim>-seeds.txt. The corpus is replayed first by
every check of that primitive (on the real crate, with the monitors, and on the model): a regression input that once
exposed a defect. Duplicates (same primitive, header and operations) are dropped."""
import glob, json, os, sys
V = os.path.dirname(os.path.dirname(os.path.abspath(__file__)))
out = {}
seen = set()
for d in sys.argv[1:]:
    for f in sorted(glob.glob(os.path.join(d, "*.json"))):
        try:
            r = json.load(open(f))
        except Exception:
            continue
        if r.get("kind") != "failing-history" or not r.get("ops") or not r.get("header"):
            continue
        key = (r["prim"], r["header"], tuple(r["ops"]))
        if key in seen:
            continue
        seen.add(key)
        out.setdefault(r["prim"], []).append(r)
os.makedirs(os.path.join(V, "corpus"), exist_ok=True)
for prim, rs in out.items():
    p = os.path.join(V, "corpus", "%s-seeds.txt" % prim)
    old = open(p).read() if os.path.exists(p) else ""
    with open(p, "a") as fo:
        n = 0
        for r in rs:
            body = r["header"] + "\n" + "\n".join(r["ops"]) + "\nE\n"
            if body in old:
                continue
            fo.write("# %s: %s\n" % (r.get("property"), (r.get("message") or "")[:160].replace("\n", " ")))
            fo.write(body)
            n += 1
    print(p, "+%d" % n)
