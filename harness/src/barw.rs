//! One `Barrier::new(n)`: wait futures, spurious polls, cancellation.
use crate::*;
use async_lock::futures::BarrierWait;
use async_lock::Barrier;
use std::future::Future;
use std::pin::Pin;
use std::task::{Context, Poll};

pub struct BarWorld {
    futs: BTreeMap<usize, Pin<Box<BarrierWait<'static>>>>,
    bar: Box<Barrier>,
    n: usize,
    metas: Metas,
    nf: usize,
    // monitor bookkeeping: generation of each wait (by arrival), arrivals per generation
    gen_of: BTreeMap<usize, usize>,
    arrivals: Vec<usize>,        // arrivals[g] = number of waits of generation g that have arrived
    cur_gen: usize,
    leaders: Vec<usize>,         // leaders[g] = number of waits of generation g that reported is_leader
    last_arriver: BTreeMap<usize, usize>, // generation -> future id of the n-th arriver
}

impl BarWorld {
    pub fn new(n: usize) -> Self {
        BarWorld { futs: BTreeMap::new(), bar: Box::new(Barrier::new(n)), n, metas: Metas::new(), nf: 0, gen_of: BTreeMap::new(), arrivals: vec![0], cur_gen: 0, leaders: vec![0], last_arriver: BTreeMap::new() }
    }
    fn bref(&self) -> &'static Barrier {
        unsafe { &*(&*self.bar as *const Barrier) }
    }
}

impl World for BarWorld {
    fn header(&self) -> String { format!("bar {}", self.n) }
    fn metas(&self) -> &Metas { &self.metas }
    fn metas_mut(&mut self) -> &mut Metas { &mut self.metas }
    fn dump(&self) -> String {
        let (c, g, m, ml, el) = self.bar.verif_state();
        format!("{} {} {} {} {}", c, g, m, ml, el)
    }
    fn exec(&mut self, t: &[&str], step: usize) -> String {
        let num = |i: usize| t.get(i).and_then(|s| s.parse::<usize>().ok());
        match t[0] {
            "start" => {
                self.futs.insert(self.nf, Box::pin(self.bref().wait()));
                self.metas.insert(self.nf, Meta::new(step));
                self.nf += 1;
                "-".into()
            }
            "poll" => {
                let (f, k) = match (num(1), num(2)) { (Some(f), Some(k)) if k < 4 => (f, k), _ => return "X".into() };
                if !self.futs.contains_key(&f) || self.metas[&f].st == St::Done { return "X".into(); }
                let tag = 4 * f + k;
                let w = waker(tag);
                let mut cx = Context::from_waker(&w);
                // arrival bookkeeping: the first poll of a wait is its arrival (poll-granularly the
                // state mutex is free, so the first poll always registers the arrival)
                if !self.gen_of.contains_key(&f) {
                    self.gen_of.insert(f, self.cur_gen);
                    self.arrivals[self.cur_gen] += 1;
                    if self.arrivals[self.cur_gen] >= self.n.max(1) {
                        self.last_arriver.insert(self.cur_gen, f);
                        self.cur_gen += 1;
                        self.arrivals.push(0);
                        self.leaders.push(0);
                    }
                }
                let r = self.futs.get_mut(&f).unwrap().as_mut().poll(&mut cx);
                let m = self.metas.get_mut(&f).unwrap();
                m.tag = Some(tag);
                m.woken = false;
                match r {
                    Poll::Ready(res) => { m.st = St::Done; if res.is_leader() { "L1".into() } else { "L0".into() } }
                    Poll::Pending => { m.st = St::Pending; "P".into() }
                }
            }
            "dropfut" => match num(1) {
                Some(f) if self.futs.contains_key(&f) => { self.futs.remove(&f); self.metas.remove(&f); "-".into() }
                _ => "X".into(),
            },
            _ => "X".into(),
        }
    }
    fn gen(&mut self, rng: &mut Rng) -> String {
        let futs: Vec<usize> = self.futs.keys().copied().collect();
        let live: Vec<usize> = futs.iter().copied().filter(|f| self.metas[f].st != St::Done).collect();
        for _ in 0..40 {
            let c = rng.below(100);
            let op = if c < 30 {
                if futs.len() >= 2 * self.n.max(1) + 2 { continue } else { "start".into() }
            } else if c < 85 {
                match rng.pick(&live) {
                    Some(f) => { let k = match self.metas[f].tag { Some(t) if rng.chance(75) => t % 4, _ => rng.below(4) }; format!("poll {} {}", f, k) }
                    None => continue,
                }
            } else {
                match rng.pick(&futs) { Some(f) => format!("dropfut {}", f), None => continue }
            };
            return op;
        }
        "start".into()
    }
    fn enabled(&self) -> Vec<String> {
        let mut v = Vec::new();
        if self.futs.len() < 2 * self.n.max(1) { v.push("start".into()); }
        for (f, m) in &self.metas {
            if m.st != St::Done { v.push(format!("poll {} {}", f, m.tag.map(|t| t % 4).unwrap_or(0))); }
            v.push(format!("dropfut {}", f));
        }
        v
    }
    fn after_op(r: &mut Runner<Self>, op: &str, res: &str) {
        if res.starts_with('L') {
            let f: usize = op.split_whitespace().nth(1).unwrap().parse().unwrap();
            let g = r.w.gen_of[&f];
            let need = r.w.n.max(1);
            // C09: no wait returns before n waits of its generation have arrived
            if g >= r.w.cur_gen {
                let a = r.w.arrivals[g];
                r.violation("C09", format!("wait {} of generation {} returned after only {} of {} arrivals", f, g, a, need));
            }
            // exactly the last arriver is the leader
            let is_last = r.w.last_arriver.get(&g) == Some(&f);
            if (res == "L1") != is_last {
                r.violation("C09", format!("wait {} of generation {} reported is_leader={} but the last arriver was {:?}", f, g, res == "L1", r.w.last_arriver.get(&g)));
            }
            if res == "L1" {
                r.w.leaders[g] += 1;
                if r.w.leaders[g] > 1 { r.violation("C09", format!("generation {} has {} leaders", g, r.w.leaders[g])); }
            }
        }
        if r.w.metas.values().any(|m| m.st == St::Done) { r.stats.done_kept += 1; }
    }
    fn at_quiescence(r: &mut Runner<Self>) {
        // C09: every alive wait of a completed generation has completed
        let stuck: Vec<usize> = pending(&r.w.metas).into_iter().filter(|f| r.w.gen_of.get(f).map(|g| *g < r.w.cur_gen).unwrap_or(false)).collect();
        if !stuck.is_empty() {
            r.violation("C09", format!("waits {:?} belong to a generation whose last waiter has arrived, but are still pending", stuck));
        }
        let (_, _, m, ml, el) = r.w.bar.verif_state();
        if m != 0 || ml != 0 {
            r.violation("C09", format!("barrier's state mutex left in state {} with {} listeners at rest", m, ml));
        }
        if r.w.futs.is_empty() && el != 0 {
            r.violation("C10", format!("no wait alive but {} listeners registered on the barrier event", el));
        }
    }
}
