//! One `Arc<RwLock<u64>>`: the five future kinds in both flavours, try_*,
//! upgrade / try_upgrade, the three downgrades, guards, cancellation, handles.
use crate::*;
use async_lock::futures::{Read, ReadArc, UpgradableRead, UpgradableReadArc, Upgrade, UpgradeArc, Write, WriteArc};
use async_lock::{
    RwLock, RwLockReadGuard, RwLockReadGuardArc, RwLockUpgradableReadGuard, RwLockUpgradableReadGuardArc,
    RwLockWriteGuard, RwLockWriteGuardArc,
};
use std::future::Future;
use std::pin::Pin;
use std::sync::atomic::{AtomicUsize, Ordering};
use std::sync::{Arc, Weak};
use std::task::{Context, Poll};

pub struct Val {
    v: u64,
    drops: Arc<AtomicUsize>,
}
impl Drop for Val {
    fn drop(&mut self) {
        self.drops.fetch_add(1, Ordering::SeqCst);
    }
}
type L = RwLock<Val>;

enum RFut {
    Read(Pin<Box<Read<'static, Val>>>),
    ReadArc(Pin<Box<ReadArc<'static, Val>>>),
    UpRead(Pin<Box<UpgradableRead<'static, Val>>>),
    UpReadArc(Pin<Box<UpgradableReadArc<'static, Val>>>),
    Write(Pin<Box<Write<'static, Val>>>),
    WriteArc(Pin<Box<WriteArc<'static, Val>>>),
    Upgrade(Pin<Box<Upgrade<'static, Val>>>),
    UpgradeArc(Pin<Box<UpgradeArc<Val>>>),
}
enum RGuard {
    R(RwLockReadGuard<'static, Val>),
    RA(RwLockReadGuardArc<Val>),
    U(RwLockUpgradableReadGuard<'static, Val>),
    UA(RwLockUpgradableReadGuardArc<Val>),
    W(RwLockWriteGuard<'static, Val>),
    WA(RwLockWriteGuardArc<Val>),
}
#[derive(Clone, Copy, PartialEq, Eq, Debug)]
pub enum GK { R, U, W }
impl RGuard {
    fn kind(&self) -> GK {
        match self { RGuard::R(_) | RGuard::RA(_) => GK::R, RGuard::U(_) | RGuard::UA(_) => GK::U, RGuard::W(_) | RGuard::WA(_) => GK::W }
    }
    fn arc(&self) -> bool { matches!(self, RGuard::RA(_) | RGuard::UA(_) | RGuard::WA(_)) }
    fn read(&self) -> u64 {
        match self { RGuard::R(g) => g.v, RGuard::RA(g) => g.v, RGuard::U(g) => g.v, RGuard::UA(g) => g.v, RGuard::W(g) => g.v, RGuard::WA(g) => g.v }
    }
}
#[derive(Clone, Copy, PartialEq, Eq, Debug)]
pub enum FK { Read, UpRead, Write, Upgrade }

pub struct RwWorld {
    futs: BTreeMap<usize, RFut>,
    guards: BTreeMap<usize, RGuard>,
    handles: Vec<Box<Arc<L>>>,
    weak: Weak<L>,
    drops: Arc<AtomicUsize>,
    metas: Metas,
    fkind: BTreeMap<usize, (FK, bool)>,
    nf: usize,
    ng: usize,
    // C11/C12 bookkeeping
    val_shadow: u64,
}

impl RwWorld {
    pub fn new() -> Self {
        let drops = Arc::new(AtomicUsize::new(0));
        let h = Box::new(Arc::new(RwLock::new(Val { v: 0, drops: drops.clone() })));
        let weak = Arc::downgrade(&h);
        RwWorld { futs: BTreeMap::new(), guards: BTreeMap::new(), handles: vec![h], weak, drops, metas: Metas::new(), fkind: BTreeMap::new(), nf: 0, ng: 0, val_shadow: 0 }
    }
    fn base(&self) -> &'static L {
        unsafe { &*Arc::as_ptr(&self.handles[0]) }
    }
    fn base_arc(&self) -> &'static Arc<L> {
        // the boxed handle #0 has a stable address; it is dropped last
        unsafe { &*(&*self.handles[0] as *const Arc<L>) }
    }
    fn borrowed_alive(&self) -> bool {
        self.futs.values().any(|f| !matches!(f, RFut::UpgradeArc(_))) || self.guards.values().any(|g| !g.arc())
    }
    fn state(&self) -> Option<(usize, usize, usize, usize, usize)> {
        if self.weak.strong_count() == 0 { None } else { Some(unsafe { (*self.weak.as_ptr()).verif_state() }) }
    }
    fn count(&self, k: GK) -> usize { self.guards.values().filter(|g| g.kind() == k).count() }
    fn pending_kind(&self, k: FK) -> Vec<usize> {
        self.metas.iter().filter(|(f, m)| m.st == St::Pending && self.fkind[f].0 == k).map(|(f, _)| *f).collect()
    }
    /// writers that have announced themselves or are queued: polled pending write() and any not-completed upgrade
    fn writers_waiting(&self) -> Vec<usize> {
        self.metas.iter().filter(|(f, m)| match self.fkind[f].0 {
            FK::Write => m.st == St::Pending,
            FK::Upgrade => m.st != St::Done,
            _ => false,
        }).map(|(f, _)| *f).collect()
    }
}

impl World for RwWorld {
    fn header(&self) -> String { "rw".into() }
    fn metas(&self) -> &Metas { &self.metas }
    fn metas_mut(&mut self) -> &mut Metas { &mut self.metas }
    fn dump(&self) -> String {
        let d = self.drops.load(Ordering::SeqCst);
        match self.state() {
            None => format!("0 0 0 0 0 0 {}", d),
            Some((s, m, ml, nr, nw)) => format!("{} {} {} {} {} {} {}", s, m, ml, nr, nw, self.weak.strong_count(), d),
        }
    }
    fn exec(&mut self, t: &[&str], step: usize) -> String {
        let num = |i: usize| t.get(i).and_then(|s| s.parse::<usize>().ok());
        match t[0] {
            "start" => {
                if self.handles.is_empty() { return "X".into(); }
                let arc = t[2] == "1";
                let (f, k) = match (t[1], arc) {
                    ("r", false) => (RFut::Read(Box::pin(self.base().read())), FK::Read),
                    ("r", true) => (RFut::ReadArc(Box::pin(self.base_arc().read_arc())), FK::Read),
                    ("u", false) => (RFut::UpRead(Box::pin(self.base().upgradable_read())), FK::UpRead),
                    ("u", true) => (RFut::UpReadArc(Box::pin(self.base_arc().upgradable_read_arc())), FK::UpRead),
                    ("w", false) => (RFut::Write(Box::pin(self.base().write())), FK::Write),
                    ("w", true) => (RFut::WriteArc(Box::pin(self.base_arc().write_arc())), FK::Write),
                    _ => return "X".into(),
                };
                self.futs.insert(self.nf, f);
                self.metas.insert(self.nf, Meta::new(step));
                self.fkind.insert(self.nf, (k, arc));
                self.nf += 1;
                "-".into()
            }
            "upgrade" => match num(1) {
                Some(g) if self.guards.get(&g).map(|x| x.kind() == GK::U).unwrap_or(false) => {
                    let (f, arc) = match self.guards.remove(&g).unwrap() {
                        RGuard::U(g) => (RFut::Upgrade(Box::pin(RwLockUpgradableReadGuard::upgrade(g))), false),
                        RGuard::UA(g) => (RFut::UpgradeArc(Box::pin(RwLockUpgradableReadGuardArc::upgrade(g))), true),
                        _ => unreachable!(),
                    };
                    self.futs.insert(self.nf, f);
                    self.metas.insert(self.nf, Meta::new(step));
                    self.fkind.insert(self.nf, (FK::Upgrade, arc));
                    self.nf += 1;
                    "-".into()
                }
                _ => "X".into(),
            },
            "poll" => {
                let (f, k) = match (num(1), num(2)) { (Some(f), Some(k)) if k < 4 => (f, k), _ => return "X".into() };
                if !self.futs.contains_key(&f) || self.metas[&f].st == St::Done { return "X".into(); }
                let tag = 4 * f + k;
                let w = waker(tag);
                let mut cx = Context::from_waker(&w);
                let r = match self.futs.get_mut(&f).unwrap() {
                    RFut::Read(p) => p.as_mut().poll(&mut cx).map(RGuard::R),
                    RFut::ReadArc(p) => p.as_mut().poll(&mut cx).map(RGuard::RA),
                    RFut::UpRead(p) => p.as_mut().poll(&mut cx).map(RGuard::U),
                    RFut::UpReadArc(p) => p.as_mut().poll(&mut cx).map(RGuard::UA),
                    RFut::Write(p) => p.as_mut().poll(&mut cx).map(RGuard::W),
                    RFut::WriteArc(p) => p.as_mut().poll(&mut cx).map(RGuard::WA),
                    RFut::Upgrade(p) => p.as_mut().poll(&mut cx).map(RGuard::W),
                    RFut::UpgradeArc(p) => p.as_mut().poll(&mut cx).map(RGuard::WA),
                };
                let m = self.metas.get_mut(&f).unwrap();
                m.tag = Some(tag);
                m.woken = false;
                match r {
                    Poll::Ready(g) => {
                        m.st = St::Done;
                        self.guards.insert(self.ng, g);
                        self.ng += 1;
                        format!("R{}", self.ng - 1)
                    }
                    Poll::Pending => { m.st = St::Pending; "P".into() }
                }
            }
            "dropfut" => match num(1) {
                Some(f) if self.futs.contains_key(&f) => { self.futs.remove(&f); self.metas.remove(&f); self.fkind.remove(&f); "-".into() }
                _ => "X".into(),
            },
            "try" => {
                if self.handles.is_empty() { return "X".into(); }
                let arc = t[2] == "1";
                let g = match (t[1], arc) {
                    ("r", false) => self.base().try_read().map(RGuard::R),
                    ("r", true) => self.base_arc().try_read_arc().map(RGuard::RA),
                    ("u", false) => self.base().try_upgradable_read().map(RGuard::U),
                    ("u", true) => self.base_arc().try_upgradable_read_arc().map(RGuard::UA),
                    ("w", false) => self.base().try_write().map(RGuard::W),
                    ("w", true) => self.base_arc().try_write_arc().map(RGuard::WA),
                    _ => return "X".into(),
                };
                match g {
                    Some(g) => { self.guards.insert(self.ng, g); self.ng += 1; format!("S{}", self.ng - 1) }
                    None => "N".into(),
                }
            }
            "tryupgrade" => match num(1) {
                Some(g) if self.guards.get(&g).map(|x| x.kind() == GK::U).unwrap_or(false) => {
                    let (ng, ok) = match self.guards.remove(&g).unwrap() {
                        RGuard::U(x) => match RwLockUpgradableReadGuard::try_upgrade(x) { Ok(w) => (RGuard::W(w), true), Err(u) => (RGuard::U(u), false) },
                        RGuard::UA(x) => match RwLockUpgradableReadGuardArc::try_upgrade(x) { Ok(w) => (RGuard::WA(w), true), Err(u) => (RGuard::UA(u), false) },
                        _ => unreachable!(),
                    };
                    self.guards.insert(g, ng);
                    if ok { format!("S{}", g) } else { "N".into() }
                }
                _ => "X".into(),
            },
            "downgrade" => match num(1) {
                Some(g) if self.guards.get(&g).map(|x| x.kind() != GK::R).unwrap_or(false) => {
                    let ng = match self.guards.remove(&g).unwrap() {
                        RGuard::U(x) => RGuard::R(RwLockUpgradableReadGuard::downgrade(x)),
                        RGuard::UA(x) => RGuard::RA(RwLockUpgradableReadGuardArc::downgrade(x)),
                        RGuard::W(x) => RGuard::R(RwLockWriteGuard::downgrade(x)),
                        RGuard::WA(x) => RGuard::RA(RwLockWriteGuardArc::downgrade(x)),
                        _ => unreachable!(),
                    };
                    self.guards.insert(g, ng);
                    "-".into()
                }
                _ => "X".into(),
            },
            "downgradeup" => match num(1) {
                Some(g) if self.guards.get(&g).map(|x| x.kind() == GK::W).unwrap_or(false) => {
                    let ng = match self.guards.remove(&g).unwrap() {
                        RGuard::W(x) => RGuard::U(RwLockWriteGuard::downgrade_to_upgradable(x)),
                        RGuard::WA(x) => RGuard::UA(RwLockWriteGuardArc::downgrade_to_upgradable(x)),
                        _ => unreachable!(),
                    };
                    self.guards.insert(g, ng);
                    "-".into()
                }
                _ => "X".into(),
            },
            "dropguard" => match num(1) {
                Some(g) if self.guards.contains_key(&g) => { self.guards.remove(&g); "-".into() }
                _ => "X".into(),
            },
            "read" => match num(1) {
                Some(g) if self.guards.contains_key(&g) => format!("V{}", self.guards[&g].read()),
                _ => "X".into(),
            },
            "bump" => match num(1) {
                Some(g) if self.guards.get(&g).map(|x| x.kind() == GK::W).unwrap_or(false) => {
                    let v = match self.guards.get_mut(&g).unwrap() {
                        RGuard::W(x) => { x.v += 1; x.v }
                        RGuard::WA(x) => { x.v += 1; x.v }
                        _ => unreachable!(),
                    };
                    self.val_shadow = v;
                    format!("V{}", v)
                }
                _ => "X".into(),
            },
            "clone" => {
                if self.handles.is_empty() { return "X".into(); }
                let h = Box::new((*self.handles[0]).clone());
                self.handles.push(h);
                "-".into()
            }
            "droparc" => {
                if self.handles.is_empty() || (self.handles.len() == 1 && self.borrowed_alive()) { return "X".into(); }
                self.handles.pop();
                "-".into()
            }
            _ => "X".into(),
        }
    }

    fn gen(&mut self, rng: &mut Rng) -> String {
        let futs: Vec<usize> = self.futs.keys().copied().collect();
        let live: Vec<usize> = futs.iter().copied().filter(|f| self.metas[f].st != St::Done).collect();
        let guards: Vec<usize> = self.guards.keys().copied().collect();
        let ug: Vec<usize> = self.guards.iter().filter(|(_, g)| g.kind() == GK::U).map(|(k, _)| *k).collect();
        let wg: Vec<usize> = self.guards.iter().filter(|(_, g)| g.kind() == GK::W).map(|(k, _)| *k).collect();
        let kinds = ["r", "u", "w"];
        for _ in 0..60 {
            let c = rng.below(100);
            let op = if c < 16 {
                if self.handles.is_empty() || futs.len() >= 6 { continue } else { format!("start {} {}", kinds[rng.below(3)], rng.below(2)) }
            } else if c < 42 {
                match rng.pick(&live) {
                    Some(f) => { let k = match self.metas[f].tag { Some(t) if rng.chance(75) => t % 4, _ => rng.below(4) }; format!("poll {} {}", f, k) }
                    None => continue,
                }
            } else if c < 52 {
                match rng.pick(&futs) { Some(f) => format!("dropfut {}", f), None => continue }
            } else if c < 62 {
                if self.handles.is_empty() { continue } else { format!("try {} {}", kinds[rng.below(3)], rng.below(2)) }
            } else if c < 78 {
                match rng.pick(&guards) { Some(g) => format!("dropguard {}", g), None => continue }
            } else if c < 83 {
                match rng.pick(&ug) { Some(g) => format!("upgrade {}", g), None => continue }
            } else if c < 86 {
                match rng.pick(&ug) { Some(g) => format!("tryupgrade {}", g), None => continue }
            } else if c < 90 {
                let both: Vec<usize> = ug.iter().chain(wg.iter()).copied().collect();
                match rng.pick(&both) { Some(g) => format!("downgrade {}", g), None => continue }
            } else if c < 93 {
                match rng.pick(&wg) { Some(g) => format!("downgradeup {}", g), None => continue }
            } else if c < 95 {
                match rng.pick(&wg) { Some(g) => format!("bump {}", g), None => continue }
            } else if c < 97 {
                match rng.pick(&guards) { Some(g) => format!("read {}", g), None => continue }
            } else if c < 99 {
                if self.handles.is_empty() || self.handles.len() >= 3 { continue } else { "clone".into() }
            } else {
                if self.handles.is_empty() || (self.handles.len() == 1 && (self.borrowed_alive() || rng.chance(80))) { continue } else { "droparc".into() }
            };
            return op;
        }
        "try r 0".into()
    }

    fn enabled(&self) -> Vec<String> {
        let mut v = Vec::new();
        if !self.handles.is_empty() && self.futs.len() < 3 {
            for k in ["r", "u", "w"] { v.push(format!("start {} 0", k)); }
        }
        for (f, m) in &self.metas {
            if m.st != St::Done { v.push(format!("poll {} {}", f, m.tag.map(|t| t % 4).unwrap_or(0))); }
            v.push(format!("dropfut {}", f));
        }
        if !self.handles.is_empty() && self.guards.len() < 3 {
            for k in ["r", "u", "w"] { v.push(format!("try {} 0", k)); }
        }
        for (g, x) in &self.guards {
            v.push(format!("dropguard {}", g));
            match x.kind() {
                GK::U => { v.push(format!("upgrade {}", g)); v.push(format!("tryupgrade {}", g)); v.push(format!("downgrade {}", g)); }
                GK::W => { v.push(format!("downgrade {}", g)); v.push(format!("downgradeup {}", g)); }
                GK::R => {}
            }
        }
        v
    }

    fn after_op(r: &mut Runner<Self>, op: &str, res: &str) {
        let (nr, nu, nw) = (r.w.count(GK::R), r.w.count(GK::U), r.w.count(GK::W));
        // C02
        if nw > 1 || nu > 1 || (nw == 1 && nr + nu > 0) {
            r.violation("C02", format!("guards alive after `{}`: {} read, {} upgradable, {} write", op, nr, nu, nw));
        }
        // C11: while an upgrade is pending (started, not completed) or a U/W guard is alive, nobody else may
        // obtain a write or upgradable guard
        let upgrading = r.w.metas.iter().filter(|(f, m)| r.w.fkind[f].0 == FK::Upgrade && m.st != St::Done).count();
        if upgrading + nu + nw > 1 {
            r.violation("C11", format!("after `{}`: {} pending upgrades, {} upgradable guards, {} write guards coexist", op, upgrading, nu, nw));
        }
        if upgrading > 0 && (res.starts_with('S') || res.starts_with('R')) && !op.starts_with("tryupgrade") {
            // something was acquired while an upgrade is pending: only plain readers that were admitted... no:
            // the upgrader has set WRITER_BIT, so nothing may be acquired at all except the upgrade itself
            let f = op.split_whitespace().nth(1).and_then(|s| s.parse::<usize>().ok());
            let is_upgrade_completion = op.starts_with("poll") && res.starts_with('R') && {
                // the future just completed is of kind Upgrade
                f.map(|f| r.w.fkind.get(&f).map(|k| k.0 == FK::Upgrade).unwrap_or(false)).unwrap_or(false)
            };
            if !is_upgrade_completion {
                r.violation("C11", format!("`{}` acquired a guard ({}) while an upgrade is pending", op, res));
            }
        }
        // value seen through guards
        if res.starts_with('V') && op.starts_with("read") {
            let v: u64 = res[1..].parse().unwrap();
            if v != r.w.val_shadow {
                r.violation("C02", format!("guard reads value {} but the last value written is {}", v, r.w.val_shadow));
            }
        }
        // C15
        let arc_guards = r.w.guards.values().filter(|g| g.arc()).count();
        let arc_futs = r.w.futs.iter().filter(|(f, x)| matches!(x, RFut::UpgradeArc(_)) && r.w.metas[f].st != St::Done).count();
        let expect = r.w.handles.len() + arc_guards + arc_futs;
        let strong = r.w.weak.strong_count();
        let drops = r.w.drops.load(Ordering::SeqCst);
        if strong != expect {
            r.violation("C15", format!("strong count {} but {} handles + {} Arc guards + {} owning futures after `{}`", strong, r.w.handles.len(), arc_guards, arc_futs, op));
        }
        if (expect == 0) != (drops == 1) || drops > 1 {
            r.violation("C15", format!("value dropped {} times with {} owners alive after `{}`", drops, expect, op));
        }
        // C12 (second half): while a polled writer/upgrade is pending and no W/U guard is alive, no read() completes
        if res.starts_with('R') && op.starts_with("poll") {
            let f: usize = op.split_whitespace().nth(1).unwrap().parse().unwrap();
            if r.w.fkind.get(&f).map(|k| k.0 == FK::Read).unwrap_or(false) {
                // evaluated against the state before this poll: writers that were waiting then are still waiting now
                let ww = r.w.writers_waiting();
                if !ww.is_empty() && nw + nu == 0 && r.quiescent_before_flag() {
                    r.violation("C12", format!("read() future {} completed while writers {:?} are waiting and no write/upgradable guard is alive", f, ww));
                }
            }
        }
        if r.w.metas.values().any(|m| m.st == St::Done) { r.stats.done_kept += 1; }
    }

    fn at_quiescence(r: &mut Runner<Self>) {
        let st = match r.w.state() { Some(s) => s, None => return };
        let (nr, nu, nw) = (r.w.count(GK::R), r.w.count(GK::U), r.w.count(GK::W));
        let pend_r = r.w.pending_kind(FK::Read);
        let pend_u = r.w.pending_kind(FK::UpRead);
        let pend_w = r.w.pending_kind(FK::Write);
        let pend_up = r.w.pending_kind(FK::Upgrade);
        let unpolled_up: Vec<usize> = r.w.metas.iter().filter(|(f, m)| r.w.fkind[f].0 == FK::Upgrade && m.st == St::Unpolled).map(|(f, _)| *f).collect();
        let writer_waiting = !pend_w.is_empty() || !pend_up.is_empty() || !unpolled_up.is_empty();
        // C06 (a)
        if nr + nu + nw == 0 && unpolled_up.is_empty() {
            let all = pending(&r.w.metas);
            if !all.is_empty() {
                r.violation("C06", format!("no guard alive and quiescent, but futures {:?} are still pending", all));
            }
        }
        // C06 (b)
        if nw == 0 && !writer_waiting && !pend_r.is_empty() {
            r.violation("C06", format!("no write guard alive and no writer/upgrader waiting, but read() futures {:?} are pending", pend_r));
        }
        // C06 (c)
        if nw + nu == 0 && !writer_waiting && !pend_u.is_empty() {
            r.violation("C06", format!("no write/upgradable guard alive and no writer waiting, but upgradable_read() futures {:?} are pending", pend_u));
        }
        // C06 (d): an upgrade future (even unpolled) owns the upgradable slot and the writer intent
        if nr + nu + nw == 0 && unpolled_up.is_empty() && pend_up.is_empty() && !pend_w.is_empty() {
            r.violation("C06", format!("no guard alive and no upgrade in progress, but write() futures {:?} are pending", pend_w));
        }
        if nr == 0 && !pend_up.is_empty() {
            r.violation("C06", format!("no reader left, but upgrade futures {:?} are pending", pend_up));
        }
        if nr > 0 && nu + nw == 0 {
            // readers only: nothing to check for writers
        }
        if r.w.handles.is_empty() { return; }
        // C12: polled write()/upgrade pending, no W/U guard alive, quiescent => try_read fails
        if (!pend_w.is_empty() || !pend_up.is_empty()) && nw + nu == 0 {
            let res = r.step("try r 0");
            if res.starts_with('S') {
                r.violation("C12", format!("try_read succeeded although write() {:?} / upgrade {:?} are pending and no write/upgradable guard is alive", pend_w, pend_up));
                let g = res[1..].to_string();
                r.step(&format!("dropguard {}", g));
                r.settle();
            }
            return;
        }
        // C14 probes (only when nothing is pending or unpolled-upgrade, to keep the probe's meaning simple)
        let anything_pending = !pending(&r.w.metas).is_empty() || !unpolled_up.is_empty();
        let lst = (st.2, st.3, st.4);
        let probe = |r: &mut Runner<Self>, k: &str, expect_ok: Option<bool>, why: &str| {
            let res = r.step(&format!("try {} 0", k));
            let s2 = r.w.state().unwrap();
            if (s2.2, s2.3, s2.4) != lst {
                r.violation("C14", format!("try_{} changed the registered listeners {:?} -> {:?}", k, lst, (s2.2, s2.3, s2.4)));
            }
            let ok = res.starts_with('S');
            if let Some(e) = expect_ok {
                if ok != e {
                    r.violation("C14", format!("try {} returned {} but {}", k, res, why));
                }
            }
            if ok {
                let g = res[1..].to_string();
                r.step(&format!("dropguard {}", g));
                r.settle();
            }
        };
        if !anything_pending {
            probe(r, "r", Some(nw == 0), &format!("{} write guards alive, nothing pending", nw));
            probe(r, "u", Some(nw + nu == 0), &format!("{} write / {} upgradable guards alive, nothing pending", nw, nu));
            probe(r, "w", Some(nw + nu + nr == 0), &format!("{} write / {} upgradable / {} read guards alive, nothing pending", nw, nu, nr));
        } else {
            // never succeeds in conflict
            probe(r, "r", if nw > 0 { Some(false) } else { None }, "a write guard is alive");
            probe(r, "u", if nw + nu > 0 { Some(false) } else { None }, "a write or upgradable guard is alive");
            probe(r, "w", if nw + nu + nr > 0 { Some(false) } else { None }, "another guard is alive");
        }
        // try_upgrade fails exactly when another reader is alive (probe only if the result is undone by downgrade... it is
        // not undoable for borrowed->write without changing state, so only check the exactness on ops the history performs)
        // C10: nothing alive => pristine
        if r.w.futs.is_empty() && r.w.guards.is_empty() {
            let s = r.w.state().unwrap();
            if s.0 != 0 || s.1 != 0 || s.2 != 0 || s.3 != 0 || s.4 != 0 {
                r.violation("C10", format!("no future and no guard alive but state = {:?}", s));
            }
        }
    }
}
