//! One `Arc<Mutex<Payload>>`: lock / lock_arc futures, try_lock(_arc), guards,
//! cancellation, the starvation oracle, Arc handles.
use crate::*;
use async_lock::futures::{Lock, LockArc};
use async_lock::{Mutex, MutexGuard, MutexGuardArc};
use std::future::Future;
use std::pin::Pin;
use std::sync::atomic::{AtomicUsize, Ordering};
use std::sync::{Arc, Weak};
use std::task::{Context, Poll};

pub struct Payload {
    pub drops: Arc<AtomicUsize>,
    pub val: u64,
}
impl Drop for Payload {
    fn drop(&mut self) {
        self.drops.fetch_add(1, Ordering::SeqCst);
    }
}

enum MFut {
    B(Pin<Box<Lock<'static, Payload>>>),
    A(Pin<Box<LockArc<Payload>>>),
}
enum MGuard {
    B(MutexGuard<'static, Payload>),
    A(MutexGuardArc<Payload>),
}

pub struct MutexWorld {
    // declaration order = drop order: futures and guards go before the handles
    futs: BTreeMap<usize, MFut>,
    guards: BTreeMap<usize, MGuard>,
    handles: Vec<Arc<Mutex<Payload>>>,
    weak: Weak<Mutex<Payload>>,
    drops: Arc<AtomicUsize>,
    metas: Metas,
    arcf: BTreeMap<usize, bool>, // future id -> Arc flavour
    nf: usize,
    ng: usize,
    // C13 bookkeeping: future id -> step at which it became starved
    starved_at: BTreeMap<usize, usize>,
    prev_word: usize,
}

impl MutexWorld {
    pub fn new() -> Self {
        async_lock::verif::oracle_set(&[]);
        let drops = Arc::new(AtomicUsize::new(0));
        let h = Arc::new(Mutex::new(Payload { drops: drops.clone(), val: 0 }));
        let weak = Arc::downgrade(&h);
        MutexWorld {
            futs: BTreeMap::new(),
            guards: BTreeMap::new(),
            handles: vec![h],
            weak,
            drops,
            metas: Metas::new(),
            arcf: BTreeMap::new(),
            nf: 0,
            ng: 0,
            starved_at: BTreeMap::new(),
            prev_word: 0,
        }
    }
    fn base(&self) -> &'static Mutex<Payload> {
        // lifetime extension: the generator never drops the last handle while a
        // borrowed future or guard is alive
        unsafe { &*Arc::as_ptr(&self.handles[0]) }
    }
    fn borrowed_alive(&self) -> bool {
        self.futs.values().any(|f| matches!(f, MFut::B(_))) || self.guards.values().any(|g| matches!(g, MGuard::B(_)))
    }
    fn state(&self) -> Option<(usize, usize)> {
        if self.weak.strong_count() == 0 {
            None
        } else {
            Some(unsafe { (*self.weak.as_ptr()).verif_state() })
        }
    }
    fn n_guards(&self) -> usize {
        self.guards.len()
    }
}

impl World for MutexWorld {
    fn header(&self) -> String {
        "mutex".into()
    }
    fn metas(&self) -> &Metas {
        &self.metas
    }
    fn metas_mut(&mut self) -> &mut Metas {
        &mut self.metas
    }
    fn dump(&self) -> String {
        let d = self.drops.load(Ordering::SeqCst);
        match self.state() {
            None => format!("0 0 0 {}", d),
            Some((w, l)) => format!("{} {} {} {}", w, l, self.weak.strong_count(), d),
        }
    }
    fn exec(&mut self, t: &[&str], step: usize) -> String {
        let num = |i: usize| t.get(i).and_then(|s| s.parse::<usize>().ok());
        match t[0] {
            "lock" => {
                if self.handles.is_empty() {
                    return "X".into();
                }
                let arc = t[1] == "1";
                let f = if arc { MFut::A(Box::pin(self.handles[0].lock_arc())) } else { MFut::B(Box::pin(self.base().lock())) };
                self.futs.insert(self.nf, f);
                self.metas.insert(self.nf, Meta::new(step));
                self.arcf.insert(self.nf, arc);
                self.nf += 1;
                "-".into()
            }
            "poll" => {
                let (f, k) = match (num(1), num(2)) {
                    (Some(f), Some(k)) if k < 4 => (f, k),
                    _ => return "X".into(),
                };
                if !self.futs.contains_key(&f) || self.metas[&f].st == St::Done {
                    return "X".into();
                }
                let tag = 4 * f + k;
                let w = waker(tag);
                let mut cx = Context::from_waker(&w);
                let before = self.state().map(|s| s.0).unwrap_or(0);
                let r = match self.futs.get_mut(&f).unwrap() {
                    MFut::B(p) => p.as_mut().poll(&mut cx).map(MGuard::B),
                    MFut::A(p) => p.as_mut().poll(&mut cx).map(MGuard::A),
                };
                let after = self.state().map(|s| s.0).unwrap_or(0);
                let m = self.metas.get_mut(&f).unwrap();
                m.tag = Some(tag);
                m.woken = false;
                match r {
                    Poll::Ready(g) => {
                        m.st = St::Done;
                        self.starved_at.remove(&f);
                        self.guards.insert(self.ng, g);
                        self.ng += 1;
                        format!("R{}", self.ng - 1)
                    }
                    Poll::Pending => {
                        m.st = St::Pending;
                        // the starvation counter went up during this poll: f is starved from now on
                        if after / 2 > before / 2 && !self.starved_at.contains_key(&f) {
                            self.starved_at.insert(f, step);
                        }
                        "P".into()
                    }
                }
            }
            "dropfut" => match num(1) {
                Some(f) if self.futs.contains_key(&f) => {
                    self.futs.remove(&f);
                    self.metas.remove(&f);
                    self.arcf.remove(&f);
                    self.starved_at.remove(&f);
                    "-".into()
                }
                _ => "X".into(),
            },
            "try" => {
                if self.handles.is_empty() {
                    return "X".into();
                }
                let arc = t[1] == "1";
                let g = if arc { self.handles[0].try_lock_arc().map(MGuard::A) } else { self.base().try_lock().map(MGuard::B) };
                match g {
                    Some(g) => {
                        self.guards.insert(self.ng, g);
                        self.ng += 1;
                        format!("S{}", self.ng - 1)
                    }
                    None => "N".into(),
                }
            }
            "dropguard" => match num(1) {
                Some(g) if self.guards.contains_key(&g) => {
                    self.guards.remove(&g);
                    "-".into()
                }
                _ => "X".into(),
            },
            "oracle" => {
                let bits: Vec<bool> = if t[1] == "-" { vec![] } else { t[1].chars().map(|c| c == '1').collect() };
                async_lock::verif::oracle_set(&bits);
                "-".into()
            }
            "clone" => {
                if self.handles.is_empty() {
                    return "X".into();
                }
                let h = self.handles[0].clone();
                self.handles.push(h);
                "-".into()
            }
            "droparc" => {
                if self.handles.is_empty() || (self.handles.len() == 1 && self.borrowed_alive()) {
                    return "X".into();
                }
                self.handles.pop();
                "-".into()
            }
            _ => "X".into(),
        }
    }

    fn gen(&mut self, rng: &mut Rng) -> String {
        let futs: Vec<usize> = self.futs.keys().copied().collect();
        let live: Vec<usize> = futs.iter().copied().filter(|f| self.metas[f].st != St::Done).collect();
        let guards: Vec<usize> = self.guards.keys().copied().collect();
        for _ in 0..50 {
            let c = rng.below(100);
            let op = if c < 18 {
                if self.handles.is_empty() || futs.len() >= 5 { continue } else { format!("lock {}", rng.below(2)) }
            } else if c < 48 {
                match rng.pick(&live) {
                    Some(f) => {
                        // mostly the same waker, sometimes a new one
                        let k = match self.metas[f].tag { Some(t) if rng.chance(75) => t % 4, _ => rng.below(4) };
                        format!("poll {} {}", f, k)
                    }
                    None => continue,
                }
            } else if c < 60 {
                match rng.pick(&futs) { Some(f) => format!("dropfut {}", f), None => continue }
            } else if c < 70 {
                if self.handles.is_empty() { continue } else { format!("try {}", rng.below(2)) }
            } else if c < 88 {
                match rng.pick(&guards) { Some(g) => format!("dropguard {}", g), None => continue }
            } else if c < 95 {
                let n = rng.below(4);
                let s: String = (0..n).map(|_| if rng.chance(60) { '1' } else { '0' }).collect();
                format!("oracle {}", if s.is_empty() { "-".to_string() } else { s })
            } else if c < 98 {
                if self.handles.is_empty() || self.handles.len() >= 3 { continue } else { "clone".into() }
            } else {
                if self.handles.is_empty() || (self.handles.len() == 1 && (self.borrowed_alive() || rng.chance(80))) { continue } else { "droparc".into() }
            };
            return op;
        }
        "oracle -".into()
    }

    fn enabled(&self) -> Vec<String> {
        let mut v = Vec::new();
        if !self.handles.is_empty() && self.futs.len() < 3 {
            v.push("lock 0".into());
            v.push("lock 1".into());
        }
        for (f, m) in &self.metas {
            if m.st != St::Done {
                let k = m.tag.map(|t| t % 4).unwrap_or(0);
                v.push(format!("poll {} {}", f, k));
            }
            v.push(format!("dropfut {}", f));
        }
        if !self.handles.is_empty() {
            v.push("try 0".into());
        }
        for g in self.guards.keys() {
            v.push(format!("dropguard {}", g));
        }
        if async_lock::verif::oracle_len() == 0 {
            v.push("oracle 1".into());
        }
        v
    }

    fn after_op(r: &mut Runner<Self>, op: &str, res: &str) {
        // C01: at most one guard alive
        if r.w.n_guards() > 1 {
            let n = r.w.n_guards();
            r.violation("C01", format!("{} mutex guards alive after `{}`", n, op));
        }
        // C15: strong count = handles + Arc guards + LockArc futures that have not completed
        let arc_guards = r.w.guards.values().filter(|g| matches!(g, MGuard::A(_))).count();
        let arc_futs = r.w.futs.iter().filter(|(f, x)| matches!(x, MFut::A(_)) && r.w.metas[f].st != St::Done).count();
        let expect = r.w.handles.len() + arc_guards + arc_futs;
        let strong = r.w.weak.strong_count();
        let drops = r.w.drops.load(Ordering::SeqCst);
        if strong != expect {
            r.violation("C15", format!("strong count {} but {} handles + {} Arc guards + {} owning futures after `{}`", strong, r.w.handles.len(), arc_guards, arc_futs, op));
        }
        if (expect == 0) != (drops == 1) || drops > 1 {
            r.violation("C15", format!("payload dropped {} times with {} owners alive after `{}`", drops, expect, op));
        }
        // C13 (ordering clause): a future started after another became starved must not acquire before it
        if res.starts_with('R') {
            if let Some(f) = op.split_whitespace().nth(1).and_then(|s| s.parse::<usize>().ok()) {
                let born = r.w.metas.get(&f).map(|m| m.born).unwrap_or(0);
                let older: Vec<(usize, usize)> = r.w.starved_at.iter().filter(|(g, at)| **g != f && **at < born).map(|(g, at)| (*g, *at)).collect();
                if let Some((g, at)) = older.first() {
                    r.violation("C13", format!("future {} (started at step {}) acquired the mutex while future {} has been starved since step {}", f, born, g, at));
                }
            }
        }
        // C13 (barging clause): while some operation is starved try_lock must fail
        if res.starts_with('S') && !r.w.starved_at.is_empty() {
            let s: Vec<usize> = r.w.starved_at.keys().copied().collect();
            r.violation("C13", format!("try_lock succeeded while futures {:?} are starved", s));
        }
        if let Some((w, _)) = r.w.state() {
            if w / 2 > r.w.prev_word / 2 {
                r.stats.starved += 1;
            }
            r.w.prev_word = w;
        }
        let kept = r.w.metas.values().filter(|m| m.st == St::Done).count();
        if kept > 0 {
            r.stats.done_kept += 1;
        }
    }

    fn at_quiescence(r: &mut Runner<Self>) {
        if r.w.weak.strong_count() == 0 {
            return;
        }
        let pend = pending(&r.w.metas);
        // C05: unlocked and quiescent => no polled lock future is pending
        if r.w.n_guards() == 0 && !pend.is_empty() {
            r.violation("C05", format!("mutex is unlocked and every woken task was re-polled, but futures {:?} are still pending", pend));
        }
        if r.w.handles.is_empty() {
            return;
        }
        // C13: starved operation => try_lock refuses even if unlocked
        if !r.w.starved_at.is_empty() {
            let res = r.step("try 0");
            if res.starts_with('S') {
                let g = &res[1..];
                r.step(&format!("dropguard {}", g));
                r.settle();
            }
            return;
        }
        // C14 / C10: probe try_lock
        let before = r.w.state().unwrap();
        let res = r.step("try 0");
        let after_l = r.w.state().unwrap().1;
        if after_l != before.1 {
            r.violation("C14", format!("try_lock changed the number of registered listeners {} -> {}", before.1, after_l));
        }
        let guards_before = r.w.n_guards() - if res.starts_with('S') { 1 } else { 0 };
        if res == "N" && guards_before == 0 && pend.is_empty() {
            let nothing = r.w.futs.is_empty();
            r.violation(if nothing { "C10" } else { "C14" }, format!("try_lock failed although no guard is alive and no polled operation is pending (state word {})", before.0));
        }
        if res.starts_with('S') && guards_before > 0 {
            r.violation("C14", "try_lock succeeded while a guard is alive".into());
        }
        if res.starts_with('S') {
            let g = res[1..].to_string();
            r.step(&format!("dropguard {}", g));
            r.settle();
        }
        // C10: nothing alive => pristine state
        if r.w.futs.is_empty() && r.w.guards.is_empty() {
            let (w, l) = r.w.state().unwrap();
            if w != 0 || l != 0 {
                r.violation("C10", format!("no future and no guard alive but state word = {}, listeners = {}", w, l));
            }
        }
    }
}
