//! One `OnceCell<Payload>`: wait / get_or_try_init / get_or_init / set futures with
//! gate-controlled initialiser futures (resolved Ok / Err / panic by `resolve`),
//! cancellation, get, take, drop of the cell.
use crate::*;
use async_lock::OnceCell;
use std::cell::{Cell, RefCell};
use std::future::Future;
use std::pin::Pin;
use std::rc::Rc;
use std::task::{Context, Poll, Waker};

thread_local! { static DROPS: Cell<usize> = Cell::new(0); }

pub struct Payload(u64);
impl Drop for Payload {
    fn drop(&mut self) {
        DROPS.with(|d| d.set(d.get() + 1));
    }
}

#[derive(Clone, Copy)]
enum Outcome { Ok(u64), Err(u64), Panic }
#[derive(Default)]
struct GateState { outcome: Option<Outcome>, waker: Option<Waker>, reached: bool }
type Gate = Rc<RefCell<GateState>>;
struct GateFut(Gate);
impl Future for GateFut {
    type Output = Result<Payload, u64>;
    fn poll(self: Pin<&mut Self>, cx: &mut Context<'_>) -> Poll<Self::Output> {
        let mut g = self.0.borrow_mut();
        g.reached = true;
        match g.outcome {
            None => { g.waker = Some(cx.waker().clone()); Poll::Pending }
            Some(Outcome::Ok(v)) => Poll::Ready(Ok(Payload(v))),
            Some(Outcome::Err(e)) => Poll::Ready(Err(e)),
            Some(Outcome::Panic) => { drop(g); panic!("initialiser panicked") }
        }
    }
}

/// result of a completed future, canonical code
type OFut = Pin<Box<dyn Future<Output = String>>>;

#[derive(Clone, Copy, PartialEq, Eq, Debug)]
pub enum OK { Wait, Try, Init, Set }

pub struct OnceWorld {
    futs: BTreeMap<usize, OFut>,
    gates: BTreeMap<usize, Gate>,
    kinds: BTreeMap<usize, OK>,
    cell: Option<Box<OnceCell<Payload>>>,
    metas: Metas,
    nf: usize,
    // monitor bookkeeping
    inits_since_take: usize,
    running: Vec<usize>,       // futures whose closure is running (gate reached, not finished)
    value: Option<u64>,
    resolved_by: BTreeMap<usize, Outcome>,
    set_args: BTreeMap<usize, u64>,
    last_drops: usize,
    dropped_unfinished_set: bool,
}

impl OnceWorld {
    pub fn new() -> Self {
        DROPS.with(|d| d.set(0));
        OnceWorld { futs: BTreeMap::new(), gates: BTreeMap::new(), kinds: BTreeMap::new(), cell: Some(Box::new(OnceCell::new())), metas: Metas::new(), nf: 0, inits_since_take: 0, running: vec![], value: None, resolved_by: BTreeMap::new(), set_args: BTreeMap::new(), last_drops: 0, dropped_unfinished_set: false }
    }
    fn cellref(&self) -> &'static OnceCell<Payload> {
        unsafe { &*(&**self.cell.as_ref().unwrap() as *const OnceCell<Payload>) }
    }
    fn state(&self) -> Option<(usize, usize, usize)> {
        self.cell.as_ref().map(|c| c.verif_state())
    }
    fn add(&mut self, f: OFut, k: OK, g: Option<Gate>, step: usize) {
        self.futs.insert(self.nf, f);
        self.kinds.insert(self.nf, k);
        if let Some(g) = g { self.gates.insert(self.nf, g); }
        self.metas.insert(self.nf, Meta::new(step));
        self.nf += 1;
    }
    fn gate_running(&self, f: usize) -> bool {
        self.gates.get(&f).map(|g| { let g = g.borrow(); g.reached }).unwrap_or(false) && self.metas.get(&f).map(|m| m.st == St::Pending).unwrap_or(false)
    }
}

impl World for OnceWorld {
    fn header(&self) -> String { "once".into() }
    fn metas(&self) -> &Metas { &self.metas }
    fn metas_mut(&mut self) -> &mut Metas { &mut self.metas }
    fn dump(&self) -> String {
        let d = DROPS.with(|d| d.get());
        match &self.cell {
            None => format!("0 0 0 0 {}", d),
            Some(c) => {
                let (s, a, p) = c.verif_state();
                let v = c.get().map(|p| p.0).unwrap_or(0);
                format!("{} {} {} {} {}", s, a, p, v, d)
            }
        }
    }
    fn exec(&mut self, t: &[&str], step: usize) -> String {
        if self.cell.is_none() { return "X".into(); }
        let num = |i: usize| t.get(i).and_then(|s| s.parse::<usize>().ok());
        match t[0] {
            "wait" => {
                let c = self.cellref();
                self.add(Box::pin(async move { format!("V{}", c.wait().await.0) }), OK::Wait, None, step);
                "-".into()
            }
            "init" => {
                let c = self.cellref();
                match t[1] {
                    "try" => {
                        let g: Gate = Rc::new(RefCell::new(GateState::default()));
                        let g2 = g.clone();
                        self.add(Box::pin(async move {
                            match c.get_or_try_init(move || GateFut(g2)).await { Ok(p) => format!("V{}", p.0), Err(e) => format!("E{}", e) }
                        }), OK::Try, Some(g), step);
                    }
                    "init" => {
                        let g: Gate = Rc::new(RefCell::new(GateState::default()));
                        let g2 = g.clone();
                        self.add(Box::pin(async move {
                            let p = c.get_or_init(move || async move { GateFut(g2).await.unwrap_or_else(|_| unreachable!()) }).await;
                            format!("V{}", p.0)
                        }), OK::Init, Some(g), step);
                    }
                    "trypc" => {
                        // get_or_try_init with a closure that panics when it is CALLED (not when its future is polled)
                        let fid = self.nf;
                        self.add(Box::pin(async move {
                            match c.get_or_try_init(move || -> GateFut { panic!("initialiser closure panicked when called") }).await { Ok(p) => format!("V{}", p.0), Err(e) => format!("E{}", e) }
                        }), OK::Try, None, step);
                        self.resolved_by.insert(fid, Outcome::Panic);
                    }
                    "set" => {
                        let x = num(2).unwrap() as u64;
                        let p = Payload(x);
                        self.set_args.insert(self.nf, x);
                        self.add(Box::pin(async move {
                            match c.set(p).await { Ok(r) => format!("V{}", r.0), Err(back) => { let v = back.0; drop(back); format!("E{}", v) } }
                        }), OK::Set, None, step);
                    }
                    _ => return "X".into(),
                }
                "-".into()
            }
            "initb" => {
                // get_or_init_blocking with a closure that completes at once; only issued when nobody is initialising
                // (it would block the thread otherwise). It uses up one future id (the model replays it as a future).
                let x = match num(1) { Some(x) => x as u64, None => return "X".into() };
                let c = self.cellref();
                if c.verif_state().0 == 1 { return "X".into(); }
                self.nf += 1;
                match std::panic::catch_unwind(std::panic::AssertUnwindSafe(|| c.get_or_init_blocking(|| Payload(x)).0)) {
                    Ok(v) => format!("V{}", v),
                    Err(_) => "!".into(),
                }
            }
            "poll" => {
                let (f, k) = match (num(1), num(2)) { (Some(f), Some(k)) if k < 4 => (f, k), _ => return "X".into() };
                if !self.futs.contains_key(&f) || self.metas[&f].st == St::Done { return "X".into(); }
                let tag = 4 * f + k;
                let w = waker(tag);
                let mut cx = Context::from_waker(&w);
                let fut = self.futs.get_mut(&f).unwrap();
                let r = std::panic::catch_unwind(std::panic::AssertUnwindSafe(|| fut.as_mut().poll(&mut cx)));
                let m = self.metas.get_mut(&f).unwrap();
                m.tag = Some(tag);
                m.woken = false;
                match r {
                    Err(_) => { m.st = St::Done; "!".into() }
                    Ok(Poll::Ready(s)) => { m.st = St::Done; s }
                    Ok(Poll::Pending) => { m.st = St::Pending; "P".into() }
                }
            }
            "resolve" => {
                let f = match num(1) { Some(f) => f, None => return "X".into() };
                let kind = match self.kinds.get(&f) { Some(k) => *k, None => return "X".into() };
                let o = match (t.get(2).copied(), kind) {
                    (Some("ok"), OK::Try) | (Some("ok"), OK::Init) => Outcome::Ok(num(3).unwrap() as u64),
                    (Some("err"), OK::Try) => Outcome::Err(num(3).unwrap() as u64),
                    (Some("panic"), OK::Try) | (Some("panic"), OK::Init) => Outcome::Panic,
                    _ => return "X".into(),
                };
                if self.metas[&f].st == St::Done { return "X".into(); }
                let g = match self.gates.get(&f) { Some(g) => g.clone(), None => return "X".into() };
                let mut g = g.borrow_mut();
                if g.outcome.is_some() { return "X".into(); }
                g.outcome = Some(o);
                self.resolved_by.insert(f, o);
                if let Some(w) = g.waker.take() { w.wake(); }
                "-".into()
            }
            "dropfut" => match num(1) {
                Some(f) if self.futs.contains_key(&f) => {
                    // a set future that has not finished still owns its argument: dropping it drops the argument
                    self.dropped_unfinished_set = self.kinds.get(&f) == Some(&OK::Set) && self.metas[&f].st != St::Done;
                    self.futs.remove(&f); self.gates.remove(&f); self.kinds.remove(&f); self.metas.remove(&f); self.resolved_by.remove(&f);
                    "-".into()
                }
                _ => "X".into(),
            },
            "get" => match self.cellref().get() { Some(p) => format!("V{}", p.0), None => "N".into() },
            "take" => {
                if !self.futs.is_empty() { return "X".into(); }
                match self.cell.as_mut().unwrap().take() { Some(p) => { let v = p.0; drop(p); format!("V{}", v) } None => "N".into() }
            }
            "dropcell" => {
                if !self.futs.is_empty() { return "X".into(); }
                self.cell = None;
                "-".into()
            }
            _ => "X".into(),
        }
    }

    fn gen(&mut self, rng: &mut Rng) -> String {
        if self.cell.is_none() { return "get".into(); }
        let futs: Vec<usize> = self.futs.keys().copied().collect();
        let live: Vec<usize> = futs.iter().copied().filter(|f| self.metas[f].st != St::Done).collect();
        let resolvable: Vec<usize> = live.iter().copied().filter(|f| self.gates.get(f).map(|g| g.borrow().outcome.is_none()).unwrap_or(false)).collect();
        for _ in 0..60 {
            let c = rng.below(100);
            let op = if c < 8 {
                if futs.len() >= 6 { continue } else { "wait".into() }
            } else if c < 26 {
                if futs.len() >= 6 { continue } else {
                    match rng.below(8) { 0 | 1 => "init try".to_string(), 2 | 3 => "init init".to_string(), 4 => "init trypc".to_string(),
                                         5 => format!("initb {}", 400 + self.nf), _ => format!("init set {}", 100 + self.nf) }
                }
            } else if c < 56 {
                match rng.pick(&live) {
                    Some(f) => { let k = match self.metas[f].tag { Some(t) if rng.chance(75) => t % 4, _ => rng.below(4) }; format!("poll {} {}", f, k) }
                    None => continue,
                }
            } else if c < 74 {
                match rng.pick(&resolvable) {
                    Some(f) => {
                        let k = self.kinds[f];
                        let r = rng.below(100);
                        if r < 45 { format!("resolve {} ok {}", f, 200 + f) }
                        else if r < 80 && k == OK::Try { format!("resolve {} err {}", f, 300 + f) }
                        else { format!("resolve {} panic", f) }
                    }
                    None => continue,
                }
            } else if c < 86 {
                match rng.pick(&futs) { Some(f) => format!("dropfut {}", f), None => continue }
            } else if c < 92 {
                "get".into()
            } else if c < 98 {
                if futs.is_empty() { "take".into() } else { continue }
            } else {
                if futs.is_empty() && rng.chance(30) { "dropcell".into() } else { continue }
            };
            return op;
        }
        "get".into()
    }

    fn enabled(&self) -> Vec<String> {
        let mut v = Vec::new();
        if self.cell.is_none() { return v; }
        if self.futs.len() < 3 {
            v.push("wait".into());
            v.push("init try".into());
            v.push(format!("init set {}", 100 + self.nf));
            v.push("init trypc".into());
            v.push(format!("initb {}", 400 + self.nf));
        }
        for (f, m) in &self.metas {
            if m.st != St::Done {
                v.push(format!("poll {} {}", f, m.tag.map(|t| t % 4).unwrap_or(0)));
                if self.gates.get(f).map(|g| g.borrow().outcome.is_none()).unwrap_or(false) {
                    v.push(format!("resolve {} ok {}", f, 200 + f));
                    v.push(format!("resolve {} err {}", f, 300 + f));
                    v.push(format!("resolve {} panic", f));
                }
            }
            v.push(format!("dropfut {}", f));
        }
        if self.futs.is_empty() { v.push("take".into()); }
        v
    }

    fn after_op(r: &mut Runner<Self>, op: &str, res: &str) {
        let toks: Vec<&str> = op.split_whitespace().collect();
        let was_init = r.w.value.is_some();
        // who is running a closure now (gate reached, future still pending)
        let running: Vec<usize> = r.w.futs.keys().copied().filter(|f| r.w.gate_running(*f)).collect();
        // C04: at most one initialiser runs at a time, none once initialised
        if running.len() > 1 {
            r.violation("C04", format!("initialiser futures of {:?} are running at the same time after `{}`", running, op));
        }
        let st = r.w.state();
        if let Some((s, _, _)) = st {
            // C08: never stuck in Initializing without a running initialiser
            if s == 1 && running.is_empty() {
                r.violation("C08", format!("cell is in the initialising state but no initialiser is running after `{}`", op));
            }
            if s == 2 && !running.is_empty() {
                r.violation("C04", format!("initialiser of {:?} is running although the cell is initialised after `{}`", running, op));
            }
            let cur = r.w.cell.as_ref().unwrap().get().map(|p| p.0);
            // the visible value only changes from None to Some (by a successful initialiser) or by take
            if toks[0] != "take" {
                match (r.w.value, cur) {
                    (Some(a), Some(b)) if a != b => r.violation("C04", format!("initialised value changed from {} to {} by `{}`", a, b, op)),
                    (Some(a), None) => r.violation("C04", format!("initialised value {} disappeared by `{}`", a, op)),
                    _ => {}
                }
            }
            r.w.value = cur;
        }
        if toks[0] == "initb" && res.starts_with('V') {
            let v: u64 = res[1..].parse().unwrap();
            if Some(v) != r.w.value {
                r.violation("C04", format!("get_or_init_blocking returned value {} but the cell holds {:?}", v, r.w.value));
            }
        }
        if toks[0] == "initb" && res == "!" {
            r.violation("C08", format!("get_or_init_blocking panicked although its closure did not"));
        }
        // results of completed futures
        if toks[0] == "poll" && (res.starts_with('V') || res.starts_with('E') || res == "!") {
            let f: usize = toks[1].parse().unwrap();
            let kind = r.w.kinds[&f];
            let cur = r.w.value;
            if res.starts_with('V') {
                let v: u64 = res[1..].parse().unwrap();
                if Some(v) != cur {
                    r.violation("C04", format!("future {} returned value {} but the cell holds {:?}", f, v, cur));
                }
                if kind == OK::Set {
                    // set returned Ok(&v): it was the one that initialised the cell, so v is its own argument; an
                    // argument that did not initialise the cell must come back as Err(argument)
                    if let Some(a) = r.w.set_args.get(&f) {
                        if *a != v { r.violation("C04", format!("set({}) (future {}) returned Ok(&{}) although its argument did not initialise the cell: the argument was not handed back", a, f, v)); }
                    }
                }
            }
            if res.starts_with('E') {
                let e: u64 = res[1..].parse().unwrap();
                match kind {
                    OK::Set => {
                        // handed back: must not be the stored value
                        if cur == Some(e) { r.violation("C04", format!("set handed its argument {} back although it is the stored value", e)); }
                    }
                    OK::Try => {
                        // C08: the error is reported only to the caller whose closure produced it
                        match r.w.resolved_by.get(&f) { Some(Outcome::Err(x)) if *x == e => {}, _ => r.violation("C08", format!("future {} got error {} that its own initialiser did not produce", f, e)) }
                    }
                    _ => r.violation("C08", format!("future {} of kind {:?} returned an error", f, kind)),
                }
            }
            if res == "!" {
                if kind == OK::Wait {
                    // debug_assert!(self.is_initialized()) fired: wait() was about to hand out a reference to an empty cell
                    r.violation("C04", format!("wait() future {} completed (debug assertion failed) although the cell is not initialised", f));
                } else {
                    match r.w.resolved_by.get(&f) { Some(Outcome::Panic) => {}, _ => r.violation("C08", format!("future {} panicked although its own initialiser did not", f)) }
                }
            }
        }
        // C04, last clause: every payload (the stored value, a rejected or cancelled set argument) is dropped exactly once —
        // operation by operation: a value handed back by set (the harness drops it), the argument of a set future dropped
        // before it finished, take, the drop of an initialised cell drop ONE payload; nothing else drops any
        {
            let now = DROPS.with(|d| d.get());
            let actual = now.wrapping_sub(r.w.last_drops);
            let expected: usize =
                if res == "X" { 0 }
                else if toks[0] == "dropfut" && r.w.dropped_unfinished_set { 1 }
                else if toks[0] == "poll" && res.starts_with('E') && toks.get(1).and_then(|f| f.parse::<usize>().ok()).map(|f| r.w.kinds.get(&f) == Some(&OK::Set)).unwrap_or(false) { 1 }
                else if toks[0] == "take" && res.starts_with('V') { 1 }
                else if toks[0] == "dropcell" && was_init { 1 }
                else { 0 };
            if actual != expected {
                r.violation("C04", format!("`{}` dropped {} payload value(s), expected {}: a stored value / a set argument must be dropped exactly once (by the cell's drop, take, the hand-back of set, or the drop of an unfinished set future) and by nothing else", op, actual, expected));
            }
            r.w.last_drops = now;
            r.w.dropped_unfinished_set = false;
        }
        if r.w.metas.values().any(|m| m.st == St::Done) { r.stats.done_kept += 1; }
        r.w.running = running;
    }

    fn at_quiescence(r: &mut Runner<Self>) {
        let (s, a, p) = match r.w.state() { Some(x) => x, None => return };
        let pend = pending(&r.w.metas);
        // C08: initialised => nothing pending
        if s == 2 && !pend.is_empty() {
            r.violation("C08", format!("cell is initialised and every woken task was re-polled, but futures {:?} are still pending", pend));
        }
        // C08: empty (not initialising) => no active caller is left waiting (one of them must have taken over)
        if s == 0 {
            let act: Vec<usize> = pend.iter().copied().filter(|f| r.w.kinds[f] != OK::Wait).collect();
            if !act.is_empty() {
                r.violation("C08", format!("cell is empty and nobody is initialising, but get_or_init-style callers {:?} are still pending", act));
            }
        }
        // C10-like: nothing alive => no listeners
        if r.w.futs.is_empty() && (a != 0 || p != 0) {
            r.violation("C08", format!("no future alive but {} active / {} passive listeners registered", a, p));
        }
    }
}
