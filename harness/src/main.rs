//! Correspondence harness: drives the real async-lock primitives through
//! poll-granular operation histories with a manual executor, prints one
//! observation per operation in the canonical text form of the Coq model
//! (`coq/Model/*Api.v`), and evaluates the property monitors on the
//! implementation's own observations.
//!
//! Futures are polled as their concrete named types and are kept alive after
//! completion until a `dropfut` operation; wakers only log their tag.

use std::cell::RefCell;
use std::collections::{BTreeMap, HashMap};
use std::io::Write;
use std::sync::Arc;
use std::task::{Wake, Waker};

mod barw;
mod mutexw;
mod oncew;
mod rww;
mod semw;

// ---------------------------------------------------------------- wakers
thread_local! {
    static WAKE_LOG: RefCell<Vec<usize>> = RefCell::new(Vec::new());
    static WAKERS: RefCell<HashMap<usize, Waker>> = RefCell::new(HashMap::new());
}
struct TagWaker(usize);
impl Wake for TagWaker {
    fn wake(self: Arc<Self>) {
        WAKE_LOG.with(|l| l.borrow_mut().push(self.0));
    }
    fn wake_by_ref(self: &Arc<Self>) {
        WAKE_LOG.with(|l| l.borrow_mut().push(self.0));
    }
}
pub fn waker(tag: usize) -> Waker {
    WAKERS.with(|m| {
        m.borrow_mut()
            .entry(tag)
            .or_insert_with(|| Waker::from(Arc::new(TagWaker(tag))))
            .clone()
    })
}
fn take_wakes() -> Vec<usize> {
    WAKE_LOG.with(|l| std::mem::take(&mut *l.borrow_mut()))
}

thread_local! { pub static TRACE_OPS: std::cell::Cell<bool> = std::cell::Cell::new(false); }

// ---------------------------------------------------------------- rng
pub struct Rng(u64);
impl Rng {
    pub fn new(seed: u64) -> Self {
        Rng(seed.wrapping_mul(0x9E3779B97F4A7C15) ^ 0xD1B54A32D192ED03)
    }
    pub fn next(&mut self) -> u64 {
        // splitmix64
        self.0 = self.0.wrapping_add(0x9E3779B97F4A7C15);
        let mut z = self.0;
        z = (z ^ (z >> 30)).wrapping_mul(0xBF58476D1CE4E5B9);
        z = (z ^ (z >> 27)).wrapping_mul(0x94D049BB133111EB);
        z ^ (z >> 31)
    }
    pub fn below(&mut self, n: usize) -> usize {
        if n == 0 {
            0
        } else {
            (self.next() % n as u64) as usize
        }
    }
    pub fn chance(&mut self, pct: usize) -> bool {
        self.below(100) < pct
    }
    pub fn pick<'a, T>(&mut self, v: &'a [T]) -> Option<&'a T> {
        if v.is_empty() {
            None
        } else {
            Some(&v[self.below(v.len())])
        }
    }
}

// ---------------------------------------------------------------- bookkeeping
#[derive(Clone, Copy, PartialEq, Eq, Debug)]
pub enum St {
    Unpolled,
    Pending,
    Done,
}
#[derive(Clone, Debug)]
pub struct Meta {
    pub st: St,
    pub tag: Option<usize>,
    pub woken: bool,
    pub born: usize, // step at which the future was started
}
impl Meta {
    pub fn new(born: usize) -> Self {
        Meta { st: St::Unpolled, tag: None, woken: false, born }
    }
}
pub type Metas = BTreeMap<usize, Meta>;

pub fn pending(m: &Metas) -> Vec<usize> {
    m.iter().filter(|(_, v)| v.st == St::Pending).map(|(k, _)| *k).collect()
}

pub trait World: Sized {
    fn header(&self) -> String;
    /// Execute one operation (tokens); returns the result code. Must reject
    /// ill-formed operations with "X" and leave everything unchanged.
    fn exec(&mut self, toks: &[&str], step: usize) -> String;
    fn dump(&self) -> String;
    fn metas(&self) -> &Metas;
    fn metas_mut(&mut self) -> &mut Metas;
    /// A random well-formed operation.
    fn gen(&mut self, rng: &mut Rng) -> String;
    /// All well-formed operations (for exhaustive enumeration), bounded alphabet.
    fn enabled(&self) -> Vec<String>;
    /// Monitors evaluated after every operation (census-style invariants).
    fn after_op(r: &mut Runner<Self>, op: &str, res: &str);
    /// Monitors evaluated at quiescent points; may execute probe operations.
    fn at_quiescence(r: &mut Runner<Self>);
}

pub struct Runner<W: World> {
    pub w: W,
    pub step: usize,
    pub out: Vec<String>,       // the history block (lines)
    pub ops: Vec<String>,       // operations executed so far
    pub violations: Vec<(String, String)>, // (property, message)
    pub settle_polls: usize,
    pub stats: Stats,
    pub monitors: bool,
}
#[derive(Default, Clone, Debug)]
pub struct Stats {
    pub ops: usize,
    pub pendings: usize,
    pub wakes: usize,
    pub readies: usize,
    pub cancels_pending: usize,
    pub cancels_woken: usize,
    pub done_kept: usize,
    pub settles: usize,
    pub max_settle: usize,
    pub starved: usize,
}

impl<W: World> Runner<W> {
    pub fn new(w: W, monitors: bool) -> Self {
        let mut r = Runner {
            w,
            step: 0,
            out: Vec::new(),
            ops: Vec::new(),
            violations: Vec::new(),
            settle_polls: 0,
            stats: Stats::default(),
            monitors,
        };
        let h = r.w.header();
        r.out.push(format!("H {}", h));
        r
    }
    pub fn violation(&mut self, prop: &str, msg: String) {
        self.out.push(format!("# VIOLATION {} step={} {}", prop, self.step, msg));
        self.violations.push((prop.to_string(), format!("step={} {}", self.step, msg)));
    }
    /// Execute one op on the implementation, log the observation, run the per-op monitors.
    pub fn step(&mut self, op: &str) -> String {
        let toks: Vec<&str> = op.split_whitespace().collect();
        self.step += 1;
        if TRACE_OPS.with(|t| t.get()) {
            eprintln!("OP {}", op);
        }
        let _ = take_wakes();
        // statistics about cancellations
        if toks.first() == Some(&"dropfut") {
            if let Some(f) = toks.get(1).and_then(|s| s.parse::<usize>().ok()) {
                if let Some(m) = self.w.metas().get(&f) {
                    if m.st == St::Pending {
                        self.stats.cancels_pending += 1;
                        if m.woken {
                            self.stats.cancels_woken += 1;
                        }
                    }
                }
            }
        }
        let res = self.w.exec(&toks, self.step);
        let wakes = take_wakes();
        for t in &wakes {
            let f = t / 4;
            if let Some(m) = self.w.metas_mut().get_mut(&f) {
                if m.st == St::Pending && m.tag == Some(*t) {
                    m.woken = true;
                }
            }
        }
        self.stats.ops += 1;
        self.stats.wakes += wakes.len();
        if res == "P" {
            self.stats.pendings += 1;
        }
        if res.starts_with('R') || res.starts_with('L') {
            self.stats.readies += 1;
        }
        let ws: Vec<String> = wakes.iter().map(|t| t.to_string()).collect();
        self.out.push(format!("{} | {} | {} | {}", op, res, ws.join(" "), self.w.dump()));
        self.ops.push(op.to_string());
        if self.monitors && res != "X" {
            W::after_op(self, op, &res);
        }
        res
    }
    /// conservative: the C12 "no read() completes" clause is only evaluated when the
    /// poll that completed the read was not itself a response to a wake-up that a
    /// writer's release produced; we approximate by requiring that no *other* future is woken.
    pub fn quiescent_before_flag(&self) -> bool {
        self.quiescent()
    }
    pub fn quiescent(&self) -> bool {
        !self.w.metas().values().any(|m| m.st == St::Pending && m.woken)
    }
    /// Re-poll every woken future (with the waker it was last polled with) until
    /// nothing is woken; C17: the number of polls must stay within a small
    /// multiple of the number of pending futures.
    pub fn settle(&mut self) {
        let npend = pending(self.w.metas()).len();
        let bound = 3 * npend + 3;
        let mut polls = 0;
        loop {
            let woken: Vec<(usize, usize)> = self
                .w
                .metas()
                .iter()
                .filter(|(_, m)| m.st == St::Pending && m.woken)
                .map(|(f, m)| (*f, m.tag.unwrap() % 4))
                .collect();
            if woken.is_empty() {
                break;
            }
            for (f, k) in woken {
                // the future may have been woken again or completed meanwhile; re-check
                let still = self.w.metas().get(&f).map(|m| m.st == St::Pending && m.woken).unwrap_or(false);
                if !still {
                    continue;
                }
                self.step(&format!("poll {} {}", f, k));
                polls += 1;
            }
            if polls > bound + 8 {
                if self.monitors {
                    self.violation(
                        "C17",
                        format!("settling {} pending futures still not quiescent after {} polls (bound {})", npend, polls, bound),
                    );
                }
                break;
            }
        }
        if polls > bound && polls <= bound + 8 && self.monitors {
            self.violation("C17", format!("settling {} pending futures took {} polls (bound {})", npend, polls, bound));
        }
        self.stats.settles += 1;
        if polls > self.stats.max_settle {
            self.stats.max_settle = polls;
        }
        self.settle_polls += polls;
    }
    pub fn settle_and_check(&mut self) {
        self.settle();
        if self.quiescent() && self.monitors {
            W::at_quiescence(self);
        }
    }
    pub fn finish(&mut self) {
        self.out.push("E".to_string());
    }
}

// ---------------------------------------------------------------- drivers
fn run_random<W: World>(mk: &dyn Fn() -> W, seed: u64, count: usize, len: usize, monitors: bool, out: &mut dyn Write, skip: usize) -> (Stats, Vec<(usize, String, String)>, usize) {
    let mut total = Stats::default();
    let mut viols = Vec::new();
    let mut nontrivial = 0;
    for h in skip..count {
        if TRACE_OPS.with(|t| t.get()) {
            eprintln!("HIST {}", h);
        }
        let mut rng = Rng::new(seed.wrapping_mul(1_000_003).wrapping_add(h as u64));
        let mut r = Runner::new(mk(), monitors);
        let l = 4 + rng.below(len.max(5) - 4);
        let settle_pct = [0, 15, 40, 80][rng.below(4)];
        for _ in 0..l {
            let op = r.w.gen(&mut rng);
            r.step(&op);
            if rng.chance(settle_pct) {
                r.settle_and_check();
            }
        }
        r.settle_and_check();
        r.finish();
        for l in &r.out {
            writeln!(out, "{}", l).unwrap();
        }
        out.flush().unwrap();
        if r.stats.pendings > 0 && r.stats.wakes > 0 {
            nontrivial += 1;
        }
        add_stats(&mut total, &r.stats);
        for (p, m) in r.violations.drain(..) {
            eprintln!("MONITOR {} hist={} {}", p, h, m);
            viols.push((h, p, m));
        }
    }
    (total, viols, nontrivial)
}

fn add_stats(t: &mut Stats, s: &Stats) {
    t.ops += s.ops;
    t.pendings += s.pendings;
    t.wakes += s.wakes;
    t.readies += s.readies;
    t.cancels_pending += s.cancels_pending;
    t.cancels_woken += s.cancels_woken;
    t.done_kept += s.done_kept;
    t.settles += s.settles;
    t.max_settle = t.max_settle.max(s.max_settle);
    t.starved += s.starved;
}

/// Exhaustive enumeration of all histories up to `depth` over the bounded
/// alphabet `enabled()`, re-executing each prefix from scratch.
fn run_enum<W: World>(mk: &dyn Fn() -> W, depth: usize, monitors: bool, out: &mut dyn Write, limit: usize) -> (Stats, Vec<(usize, String, String)>, usize, usize) {
    let mut total = Stats::default();
    let mut viols = Vec::new();
    let mut hist = 0usize;
    let mut nontrivial = 0usize;
    // iterative DFS over op sequences
    let mut stack: Vec<Vec<String>> = vec![vec![]];
    while let Some(prefix) = stack.pop() {
        if hist >= limit {
            break;
        }
        let mut r = Runner::new(mk(), monitors);
        for op in &prefix {
            r.step(op);
        }
        if prefix.len() < depth {
            let mut en = r.w.enabled();
            en.reverse();
            for op in en {
                let mut p = prefix.clone();
                p.push(op);
                stack.push(p);
            }
        }
        if prefix.len() == depth || r.w.enabled().is_empty() {
            // a maximal history: settle, check and emit
            r.settle_and_check();
            r.finish();
            for l in &r.out {
                writeln!(out, "{}", l).unwrap();
            }
            out.flush().unwrap();
            if r.stats.pendings > 0 && r.stats.wakes > 0 {
                nontrivial += 1;
            }
            add_stats(&mut total, &r.stats);
            for (p, m) in r.violations.drain(..) {
                eprintln!("MONITOR {} hist={} {}", p, hist, m);
                viols.push((hist, p, m));
            }
            hist += 1;
        }
    }
    (total, viols, nontrivial, hist)
}

/// Re-execute histories given as op lines (anything after '|' is ignored).
fn run_replay<W: World>(mk: &dyn Fn(&str) -> W, text: &str, monitors: bool, out: &mut dyn Write) -> (Stats, Vec<(usize, String, String)>, usize) {
    let mut total = Stats::default();
    let mut viols = Vec::new();
    let mut cur: Option<Runner<W>> = None;
    let mut hist = 0usize;
    for line in text.lines() {
        let line = line.trim();
        if line.is_empty() || line.starts_with('#') {
            continue;
        }
        if let Some(h) = line.strip_prefix("H ") {
            cur = Some(Runner::new(mk(h), monitors));
            continue;
        }
        if line == "E" {
            if let Some(mut r) = cur.take() {
                r.settle_and_check();
                r.finish();
                for l in &r.out {
                    writeln!(out, "{}", l).unwrap();
                }
                out.flush().unwrap();
                add_stats(&mut total, &r.stats);
                for (p, m) in r.violations.drain(..) {
                    eprintln!("MONITOR {} hist={} {}", p, hist, m);
                    viols.push((hist, p, m));
                }
                hist += 1;
            }
            continue;
        }
        if let Some(r) = cur.as_mut() {
            let op = line.split('|').next().unwrap().trim();
            if op == "settle" {
                r.settle_and_check();
            } else {
                r.step(op);
            }
        }
    }
    (total, viols, hist)
}

fn arg<'a>(args: &'a [String], name: &str) -> Option<&'a str> {
    args.iter().position(|a| a == name).and_then(|i| args.get(i + 1)).map(|s| s.as_str())
}

fn main() {
    async_lock::verif::oracle_enable(true);
    let args: Vec<String> = std::env::args().collect();
    let mode = args.get(1).map(|s| s.as_str()).unwrap_or("help");
    let prim = arg(&args, "--prim").unwrap_or("mutex").to_string();
    let seed: u64 = arg(&args, "--seed").and_then(|s| s.parse().ok()).unwrap_or(1);
    let count: usize = arg(&args, "--count").and_then(|s| s.parse().ok()).unwrap_or(100);
    let len: usize = arg(&args, "--len").and_then(|s| s.parse().ok()).unwrap_or(30);
    let depth: usize = arg(&args, "--depth").and_then(|s| s.parse().ok()).unwrap_or(4);
    let limit: usize = arg(&args, "--limit").and_then(|s| s.parse().ok()).unwrap_or(usize::MAX);
    let param: usize = arg(&args, "--param").and_then(|s| s.parse().ok()).unwrap_or(2);
    let monitors = !args.iter().any(|a| a == "--no-monitors");
    let skip: usize = arg(&args, "--skip").and_then(|s| s.parse().ok()).unwrap_or(0);
    if args.iter().any(|a| a == "--trace-ops") {
        TRACE_OPS.with(|t| t.set(true));
    }
    let outpath = arg(&args, "--out").map(|s| s.to_string());
    let mut out: Box<dyn Write> = match &outpath {
        Some(p) => Box::new(std::io::BufWriter::new(std::fs::File::create(p).unwrap())),
        None => Box::new(std::io::BufWriter::new(std::io::stdout())),
    };
    // panics inside polled futures are part of some histories (OnceCell); keep them quiet
    std::panic::set_hook(Box::new(|_| {}));

    macro_rules! dispatch {
        ($mk:expr, $mkh:expr) => {{
            match mode {
                "gen" => {
                    let (st, v, nt) = run_random(&$mk, seed, count, len, monitors, &mut *out, skip);
                    report(&prim, count, nt, &st, &v);
                }
                "enum" => {
                    let (st, v, nt, h) = run_enum(&$mk, depth, monitors, &mut *out, limit);
                    report(&prim, h, nt, &st, &v);
                }
                "replay" => {
                    let path = arg(&args, "--in").expect("--in <file>");
                    let text = std::fs::read_to_string(path).unwrap();
                    let (st, v, h) = run_replay(&$mkh, &text, monitors, &mut *out);
                    report(&prim, h, 0, &st, &v);
                }
                _ => eprintln!("usage: harness gen|enum|replay --prim mutex|sem|rw|once|bar [--seed S --count N --len L --depth D --param P --in F --out F]"),
            }
        }};
    }
    match prim.as_str() {
        "mutex" => dispatch!(|| mutexw::MutexWorld::new(), |_h: &str| mutexw::MutexWorld::new()),
        "sem" => dispatch!(|| semw::SemWorld::new(param), |h: &str| semw::SemWorld::new(h.split_whitespace().nth(1).unwrap().parse().unwrap())),
        "rw" => dispatch!(|| rww::RwWorld::new(), |_h: &str| rww::RwWorld::new()),
        "once" => dispatch!(|| oncew::OnceWorld::new(), |_h: &str| oncew::OnceWorld::new()),
        "bar" => dispatch!(|| barw::BarWorld::new(param), |h: &str| barw::BarWorld::new(h.split_whitespace().nth(1).unwrap().parse().unwrap())),
        _ => eprintln!("unknown primitive {}", prim),
    }
    out.flush().unwrap();
}

fn report(prim: &str, hist: usize, nontrivial: usize, st: &Stats, v: &[(usize, String, String)]) {
    // machine-readable summary on stderr
    eprintln!(
        "STATS prim={} histories={} nontrivial={} ops={} pendings={} wakes={} readies={} cancels_pending={} cancels_woken={} done_kept={} settles={} max_settle={} starved={} violations={}",
        prim, hist, nontrivial, st.ops, st.pendings, st.wakes, st.readies, st.cancels_pending, st.cancels_woken, st.done_kept, st.settles, st.max_settle, st.starved, v.len()
    );
}
