//! One `Arc<Semaphore>`: acquire / acquire_arc futures, try_acquire(_arc),
//! guards, forget, add_permits, cancellation, Arc handles.
use crate::*;
use async_lock::futures::{Acquire, AcquireArc};
use async_lock::{Semaphore, SemaphoreGuard, SemaphoreGuardArc};
use std::future::Future;
use std::pin::Pin;
use std::sync::{Arc, Weak};
use std::task::{Context, Poll};

enum SFut {
    B(Pin<Box<Acquire<'static>>>),
    A(Pin<Box<AcquireArc>>),
}
enum SGuard {
    B(SemaphoreGuard<'static>),
    A(SemaphoreGuardArc),
}

pub struct SemWorld {
    futs: BTreeMap<usize, SFut>,
    guards: BTreeMap<usize, SGuard>,
    handles: Vec<Arc<Semaphore>>,
    weak: Weak<Semaphore>,
    metas: Metas,
    nf: usize,
    ng: usize,
    init: usize,
    added: usize,
    forgotten: usize,
}

impl SemWorld {
    pub fn new(n: usize) -> Self {
        let h = Arc::new(Semaphore::new(n));
        let weak = Arc::downgrade(&h);
        SemWorld { futs: BTreeMap::new(), guards: BTreeMap::new(), handles: vec![h], weak, metas: Metas::new(), nf: 0, ng: 0, init: n, added: 0, forgotten: 0 }
    }
    fn base(&self) -> &'static Semaphore {
        unsafe { &*Arc::as_ptr(&self.handles[0]) }
    }
    fn borrowed_alive(&self) -> bool {
        self.futs.values().any(|f| matches!(f, SFut::B(_))) || self.guards.values().any(|g| matches!(g, SGuard::B(_)))
    }
    fn state(&self) -> Option<(usize, usize)> {
        if self.weak.strong_count() == 0 { None } else { Some(unsafe { (*self.weak.as_ptr()).verif_state() }) }
    }
}

impl World for SemWorld {
    fn header(&self) -> String {
        format!("sem {}", self.init)
    }
    fn metas(&self) -> &Metas { &self.metas }
    fn metas_mut(&mut self) -> &mut Metas { &mut self.metas }
    fn dump(&self) -> String {
        match self.state() {
            None => "0 0 0 1".into(),
            Some((c, l)) => format!("{} {} {} 0", c, l, self.weak.strong_count()),
        }
    }
    fn exec(&mut self, t: &[&str], step: usize) -> String {
        let num = |i: usize| t.get(i).and_then(|s| s.parse::<usize>().ok());
        match t[0] {
            "acquire" => {
                if self.handles.is_empty() { return "X".into(); }
                let arc = t[1] == "1";
                let f = if arc { SFut::A(Box::pin(self.handles[0].acquire_arc())) } else { SFut::B(Box::pin(self.base().acquire())) };
                self.futs.insert(self.nf, f);
                self.metas.insert(self.nf, Meta::new(step));
                self.nf += 1;
                "-".into()
            }
            "poll" => {
                let (f, k) = match (num(1), num(2)) { (Some(f), Some(k)) if k < 4 => (f, k), _ => return "X".into() };
                if !self.futs.contains_key(&f) || self.metas[&f].st == St::Done { return "X".into(); }
                let tag = 4 * f + k;
                let w = waker(tag);
                let mut cx = Context::from_waker(&w);
                let r = match self.futs.get_mut(&f).unwrap() {
                    SFut::B(p) => p.as_mut().poll(&mut cx).map(SGuard::B),
                    SFut::A(p) => p.as_mut().poll(&mut cx).map(SGuard::A),
                };
                let m = self.metas.get_mut(&f).unwrap();
                m.tag = Some(tag);
                m.woken = false;
                match r {
                    Poll::Ready(g) => {
                        m.st = St::Done;
                        self.guards.insert(self.ng, g);
                        self.ng += 1;
                        format!("R{}", self.ng - 1)
                    }
                    Poll::Pending => { m.st = St::Pending; "P".into() }
                }
            }
            "dropfut" => match num(1) {
                Some(f) if self.futs.contains_key(&f) => { self.futs.remove(&f); self.metas.remove(&f); "-".into() }
                _ => "X".into(),
            },
            "try" => {
                if self.handles.is_empty() { return "X".into(); }
                let arc = t[1] == "1";
                let g = if arc { self.handles[0].try_acquire_arc().map(SGuard::A) } else { self.base().try_acquire().map(SGuard::B) };
                match g {
                    Some(g) => { self.guards.insert(self.ng, g); self.ng += 1; format!("S{}", self.ng - 1) }
                    None => "N".into(),
                }
            }
            "dropguard" => match num(1) {
                Some(g) if self.guards.contains_key(&g) => { self.guards.remove(&g); "-".into() }
                _ => "X".into(),
            },
            "forget" => match num(1) {
                Some(g) if self.guards.contains_key(&g) => {
                    match self.guards.remove(&g).unwrap() { SGuard::B(g) => g.forget(), SGuard::A(g) => g.forget() }
                    self.forgotten += 1;
                    "-".into()
                }
                _ => "X".into(),
            },
            "add" => {
                if self.handles.is_empty() { return "X".into(); }
                let n = num(1).unwrap();
                self.handles[0].add_permits(n);
                self.added += n;
                "-".into()
            }
            "clone" => {
                if self.handles.is_empty() { return "X".into(); }
                let h = self.handles[0].clone();
                self.handles.push(h);
                "-".into()
            }
            "droparc" => {
                if self.handles.is_empty() || (self.handles.len() == 1 && self.borrowed_alive()) { return "X".into(); }
                self.handles.pop();
                "-".into()
            }
            _ => "X".into(),
        }
    }

    fn gen(&mut self, rng: &mut Rng) -> String {
        let futs: Vec<usize> = self.futs.keys().copied().collect();
        let live: Vec<usize> = futs.iter().copied().filter(|f| self.metas[f].st != St::Done).collect();
        let guards: Vec<usize> = self.guards.keys().copied().collect();
        for _ in 0..50 {
            let c = rng.below(100);
            let op = if c < 18 {
                if self.handles.is_empty() || futs.len() >= 5 { continue } else { format!("acquire {}", rng.below(2)) }
            } else if c < 46 {
                match rng.pick(&live) {
                    Some(f) => { let k = match self.metas[f].tag { Some(t) if rng.chance(75) => t % 4, _ => rng.below(4) }; format!("poll {} {}", f, k) }
                    None => continue,
                }
            } else if c < 58 {
                match rng.pick(&futs) { Some(f) => format!("dropfut {}", f), None => continue }
            } else if c < 68 {
                if self.handles.is_empty() { continue } else { format!("try {}", rng.below(2)) }
            } else if c < 86 {
                match rng.pick(&guards) { Some(g) => format!("dropguard {}", g), None => continue }
            } else if c < 90 {
                match rng.pick(&guards) { Some(g) => format!("forget {}", g), None => continue }
            } else if c < 96 {
                if self.handles.is_empty() { continue } else { format!("add {}", rng.below(4)) }
            } else if c < 98 {
                if self.handles.is_empty() || self.handles.len() >= 3 { continue } else { "clone".into() }
            } else {
                if self.handles.is_empty() || (self.handles.len() == 1 && (self.borrowed_alive() || rng.chance(80))) { continue } else { "droparc".into() }
            };
            return op;
        }
        "add 0".into()
    }

    fn enabled(&self) -> Vec<String> {
        let mut v = Vec::new();
        if !self.handles.is_empty() && self.futs.len() < 3 {
            v.push("acquire 0".into());
            v.push("acquire 1".into());
        }
        for (f, m) in &self.metas {
            if m.st != St::Done { v.push(format!("poll {} {}", f, m.tag.map(|t| t % 4).unwrap_or(0))); }
            v.push(format!("dropfut {}", f));
        }
        if !self.handles.is_empty() { v.push("try 0".into()); v.push("add 1".into()); v.push("add 2".into()); }
        for g in self.guards.keys() { v.push(format!("dropguard {}", g)); }
        if let Some(g) = self.guards.keys().next() { v.push(format!("forget {}", g)); }
        v
    }

    fn after_op(r: &mut Runner<Self>, op: &str, res: &str) {
        // C03: conservation (u128 arithmetic: a broken implementation may wrap the counter)
        let out = (r.w.guards.len() + r.w.forgotten) as u128;
        let total = (r.w.init + r.w.added) as u128;
        if out > total {
            r.violation("C03", format!("{} permits outstanding (alive {} + forgotten {}) > initial {} + added {}", out, r.w.guards.len(), r.w.forgotten, r.w.init, r.w.added));
        }
        if let Some((c, _)) = r.w.state() {
            if c as u128 + out != total {
                r.violation("C03", format!("count {} + outstanding {} != initial {} + added {} after `{}`", c, out, r.w.init, r.w.added, op));
            }
        }
        // C03: try_acquire exact
        if op.starts_with("try") {
            // count before the op = count after + (1 if it succeeded)
            if let Some((c, _)) = r.w.state() {
                let before = c as u128 + if res.starts_with('S') { 1 } else { 0 };
                if (before > 0) != res.starts_with('S') {
                    r.violation("C03", format!("try_acquire returned {} with {} permits available", res, before));
                }
            }
        }
        // C15
        let arc_guards = r.w.guards.values().filter(|g| matches!(g, SGuard::A(_))).count();
        let arc_futs = r.w.futs.values().filter(|x| matches!(x, SFut::A(_))).count();
        let expect = r.w.handles.len() + arc_guards + arc_futs;
        let strong = r.w.weak.strong_count();
        if strong != expect {
            r.violation("C15", format!("strong count {} but {} handles + {} Arc guards + {} acquire_arc futures after `{}`", strong, r.w.handles.len(), arc_guards, arc_futs, op));
        }
        if r.w.metas.values().any(|m| m.st == St::Done) { r.stats.done_kept += 1; }
    }

    fn at_quiescence(r: &mut Runner<Self>) {
        let (c, l) = match r.w.state() { Some(s) => s, None => return };
        let pend = pending(&r.w.metas);
        // C07
        if c > 0 && !pend.is_empty() {
            r.violation("C07", format!("{} permits available and every woken task was re-polled, but futures {:?} are still pending", c, pend));
        }
        if r.w.handles.is_empty() { return; }
        // C14: try_acquire registers nothing and succeeds exactly when a permit is available
        let res = r.step("try 0");
        let l2 = r.w.state().unwrap().1 ;
        if l2 != l { r.violation("C14", format!("try_acquire changed the number of registered listeners {} -> {}", l, l2)); }
        if (c > 0) != res.starts_with('S') {
            r.violation("C14", format!("try_acquire returned {} with {} permits available", res, c));
        }
        if res.starts_with('S') {
            let g = res[1..].to_string();
            r.step(&format!("dropguard {}", g));
            r.settle();
        }
        // C10: nothing alive => every permit can be taken, no listener left
        if r.w.futs.is_empty() && r.w.guards.is_empty() {
            let (c, l) = r.w.state().unwrap();
            if l != 0 || c as u128 + r.w.forgotten as u128 != (r.w.init + r.w.added) as u128 {
                r.violation("C10", format!("no future and no guard alive but count = {} (expected {}), listeners = {}", c, (r.w.init + r.w.added) as i128 - r.w.forgotten as i128, l));
            }
        }
    }
}
